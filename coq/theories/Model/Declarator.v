(* C08 (package decl): model of the declarator parser of parse.c

     pointers, declarator, abstract_declarator, type_suffix, array_dimensions, func_params, typename

   and of the type constructors of type.c it calls (pointer_to, array_of, func_type; copy_type only copies).
   Tokens and base types: Spec/DeclSyntax.v.  Control flow is that of the C code:

   * [pointers]: `while (consume "*") { ty = pointer_to(ty); while (const|volatile|restrict) skip; }`.
     The flag says whether a `*` has been seen (qualifiers are skipped only behind a `*`).
     (__restrict, __restrict__ are spellings of restrict; `_Atomic` here sets is_atomic - not modelled.)
   * [declarator]: after the pointers, if the next token is "(" - and the token behind it is neither ")" nor a
     type keyword (then the "(" opens the parameter list of a function declarator whose identifier is omitted,
     fix 8507b9f; a typedef name there is outside the model) - the inner declarator is parsed ONCE WITH A DUMMY
     type only to find the ")" where the suffix starts, then the suffix is parsed and applied to the real type,
     then the inner declarator is parsed AGAIN from the same "(" with the suffixed type; the tokens the second
     pass stops at are thrown away and the rest is what the suffix parse left.  Otherwise an identifier is
     optional (this function also parses the abstract declarators of parameters), then the suffix.
   * [abstract_declarator]: the same without the identifier (its test is is_typename(tok->next), which differs from
     declarator's only on typedef names).
   * [type_suffix]: "(" -> func_params, "[" -> array_dimensions, otherwise nothing.
   * [array_dimensions]: skips `static` and the type qualifiers (fix 053b61b); "]" -> array_of(suffix(ty), -1);
     otherwise a constant expression (one [TNum] token here; anything else is [Err]: it is either a syntax error
     or a variable length array, which is outside this model), "]", the suffix, and then (fix fbdf355)
         if (len > INT32_MAX / MAX(ty->size, 1)) error_tok(start, "array too large");
     = [TooLarge]; otherwise array_of(suffix(ty), (int) len).
     NOTE the recursion: `[2][3]` builds array_of(array_of(ty,3),2), and a "(" behind a "]" IS parsed.
   * [func_params]: `void )` is special; otherwise the loop `while (!equal(tok, ")"))`: a "," between
     parameters, `...` must be followed by ")", a parameter is declspec + declarator, arrays become pointers to
     the element, functions become pointers to the function, the name is kept; no parameter at all = variadic.
     NOTE: no type_suffix call after the ")": `f(void)[3]` leaves `[3]` unparsed.
     declspec is one [TBase] token; on any other token declspec() consumes nothing and returns int (the
     C code's default) - kept.  (A parameter starting with a qualifier / storage class token is outside the model:
     the real declspec would consume it.)

   Types carry what the C `Type` carries and the parser can change: kind, base / return_ty, array_len, size,
   align, params (with the parameter names), is_variadic.  size and align are C ints: [array_of] multiplies
   in 32 bits, and the bound (an int64_t from eval) is converted to int - both wrap here (the first is undefined
   behaviour in C; chibicc is built without optimisation and the machine instruction wraps).

   Abstracted away: `ty->name = name; ty->name_pos = ...` WRITE the name into the Type that type_suffix returned
   (possibly a shared one such as ty_int); the model returns the name next to the type instead.  copy_type's
   `origin` link, is_atomic, variable length arrays (vla_of), typedef names inside declarators (an identifier
   for which is_typename holds), attributes and the error messages are not represented.

   Every function takes fuel (the C functions recurse on later and later tokens); [OutOfFuel] is distinct from
   [Err] ("chibicc reports a syntax error, or the input leaves the modelled token language") and from [TooLarge]
   (error_tok "array too large").  error_tok exits: the first failure in execution order is the result. *)
From Coq Require Import List ZArith Bool.
From Chibicc Require Import Spec.DeclSyntax.
Import ListNotations.
Local Open Scope Z_scope.

Inductive mty :=
| MBase (l : leaf)                                   (* a type returned by declspec *)
| MPtr (base : mty)                                  (* pointer_to(base): TY_PTR, size 8, align 8 *)
| MArr (base : mty) (len size align : Z)             (* array_of(base, len): TY_ARRAY with its stored numbers *)
| MFunc (ret : mty) (params : list (option ident * mty)) (variadic : bool).   (* func_type + params *)

(* type.c: ty_void = {TY_VOID, 1, 1}, ty_char {1,1}, ty_short {2,2}, ty_int {4,4}, ty_long {8,8}, ty_double {8,8} *)
Definition leaf_size (l : leaf) : Z :=
  match l with LVoid => 1 | LChar => 1 | LShort => 2 | LInt => 4 | LLong => 8 | LDouble => 8 | LAgg s _ => s end.
Definition leaf_align (l : leaf) : Z :=
  match l with LVoid => 1 | LChar => 1 | LShort => 2 | LInt => 4 | LLong => 8 | LDouble => 8 | LAgg _ a => a end.

(* ty->size, ty->align *)
Definition ty_size (t : mty) : Z :=
  match t with MBase l => leaf_size l | MPtr _ => 8 | MArr _ _ s _ => s | MFunc _ _ _ => 1 end.
Definition ty_align (t : mty) : Z :=
  match t with MBase l => leaf_align l | MPtr _ => 8 | MArr _ _ _ a => a | MFunc _ _ _ => 1 end.

(* a value stored into a C int *)
Definition int32 (z : Z) : Z := (z + 2147483648) mod 4294967296 - 2147483648.

(* Type *array_of(Type *base, int len) { new_type(TY_ARRAY, base->size * len, base->align); ... } *)
Definition array_of (base : mty) (len : Z) : mty :=
  MArr base len (int32 (ty_size base * len)) (ty_align base).

(* `Type dummy = {};` : kind 0, size 0, align 0; only size and align are ever read from it *)
Definition dummy : mty := MBase (LAgg 0 0).

(* the parameter adjustment of func_params *)
Definition adjust_param (t : mty) : mty :=
  match t with
  | MArr base _ _ _ => MPtr base
  | MFunc _ _ _ => MPtr t
  | _ => t
  end.

Inductive res (A : Type) := Ok (a : A) | Err | TooLarge | OutOfFuel.
Arguments Ok {A} a. Arguments Err {A}. Arguments TooLarge {A}. Arguments OutOfFuel {A}.

Definition bind {A B} (r : res A) (f : A -> res B) : res B :=
  match r with Ok a => f a | Err => Err | TooLarge => TooLarge | OutOfFuel => OutOfFuel end.
Notation "'do' x <- e ; f" := (bind e (fun x => f)) (at level 200, x pattern, e at level 100, f at level 200).

Fixpoint pointers (seen_star : bool) (toks : list tok) (ty : mty) : mty * list tok :=
  match toks with
  | TStar :: r => pointers true r (MPtr ty)
  | TQual _ :: r => if seen_star then pointers true r ty else (ty, toks)
  | _ => (ty, toks)
  end.

(* while (equal(tok, "static") || equal(tok, "restrict") || equal(tok, "const") || equal(tok, "volatile") || ..)
     tok = tok->next; *)
Fixpoint skip_static_quals (toks : list tok) : list tok :=
  match toks with
  | TStatic :: r => skip_static_quals r
  | TQual _ :: r => skip_static_quals r
  | _ => toks
  end.

(* len > INT32_MAX / MAX(ty->size, 1)   (int64_t len; the divisor is a positive int) *)
Definition too_large (len : Z) (elem : mty) : bool :=
  len >? 2147483647 / Z.max (ty_size elem) 1.

(* tok->kind == TK_KEYWORD && is_typename(tok): the type keywords, qualifiers and storage class keywords *)
Definition is_type_keyword (t : tok) : bool :=
  match t with TBase _ | TQual _ | TStatic => true | _ => false end.

(* equal(tok, "(") && !equal(tok->next, ")") && !(type keyword tok->next): the tokens inside the parentheses of a
   nested declarator, if that is what follows *)
Definition nested_start (toks : list tok) : option (list tok) :=
  match toks with
  | TLParen :: inner =>
      match inner with
      | TRParen :: _ => None
      | t :: _ => if is_type_keyword t then None else Some inner
      | [] => Some inner
      end
  | _ => None
  end.

(* Token *name = NULL; if (tok->kind == TK_IDENT) { name = tok; tok = tok->next; } *)
Definition ident_opt (toks : list tok) : option ident * list tok :=
  match toks with TIdent x :: r => (Some x, r) | _ => (None, toks) end.

(* skip(tok, ","), skip(tok, ")") *)
Definition skip_tok_comma (toks : list tok) : res (list tok) :=
  match toks with TComma :: r => Ok r | _ => Err end.
Definition skip_tok_rparen (toks : list tok) : res (list tok) :=
  match toks with TRParen :: r => Ok r | _ => Err end.

(* declspec() of a parameter: one [TBase] token; on any other token the C function consumes nothing and
   returns int *)
Definition param_declspec (toks : list tok) : mty * list tok :=
  match toks with TBase l :: t2 => (MBase l, t2) | _ => (MBase LInt, toks) end.

Definition is_nil {A} (l : list A) : bool := match l with [] => true | _ => false end.

Fixpoint declarator (fuel : nat) (toks : list tok) (ty : mty) {struct fuel}
  : res (option ident * mty * list tok) :=
  match fuel with
  | O => OutOfFuel
  | S f =>
    let pt := pointers false toks ty in
    match nested_start (snd pt) with
    | Some inner =>
        do r1 <- declarator f inner dummy;
        match snd r1 with
        | TRParen :: t3 =>
            do r2 <- type_suffix f t3 (fst pt);
            do r3 <- declarator f inner (fst r2);
            Ok (fst (fst r3), snd (fst r3), snd r2)
        | _ => Err
        end
    | None =>
        let nm := ident_opt (snd pt) in
        do r2 <- type_suffix f (snd nm) (fst pt);
        Ok (fst nm, fst r2, snd r2)
    end
  end

with type_suffix (fuel : nat) (toks : list tok) (ty : mty) {struct fuel} : res (mty * list tok) :=
  match fuel with
  | O => OutOfFuel
  | S f =>
    match toks with
    | TLParen :: r => func_params f r ty
    | TLBrack :: r => array_dimensions f r ty
    | _ => Ok (ty, toks)
    end
  end

with array_dimensions (fuel : nat) (toks : list tok) (ty : mty) {struct fuel} : res (mty * list tok) :=
  match fuel with
  | O => OutOfFuel
  | S f =>
    match skip_static_quals toks with
    | TRBrack :: r =>
        do r2 <- type_suffix f r ty;
        Ok (array_of (fst r2) (-1), snd r2)
    | TNum n :: TRBrack :: r =>
        do r2 <- type_suffix f r ty;
        if too_large n (fst r2) then TooLarge else Ok (array_of (fst r2) (int32 n), snd r2)
    | _ => Err
    end
  end

with func_params (fuel : nat) (toks : list tok) (ret : mty) {struct fuel} : res (mty * list tok) :=
  match fuel with
  | O => OutOfFuel
  | S f =>
    match toks with
    | TBase LVoid :: TRParen :: r => Ok (MFunc ret [] false, r)
    | _ => params_loop f toks ret []
    end
  end

(* acc: the parameters so far, last first (`cur != &head` is `acc <> []`) *)
with params_loop (fuel : nat) (toks : list tok) (ret : mty) (acc : list (option ident * mty)) {struct fuel}
  : res (mty * list tok) :=
  match fuel with
  | O => OutOfFuel
  | S f =>
    match toks with
    | TRParen :: r => Ok (MFunc ret (rev acc) (is_nil acc), r)
    | _ =>
      do t1 <- (if is_nil acc then Ok toks else skip_tok_comma toks);
      match t1 with
      | TEllipsis :: r =>
          do r' <- skip_tok_rparen r;
          Ok (MFunc ret (rev acc) true, r')
      | _ =>
          let ds := param_declspec t1 in
          do r1 <- declarator f (snd ds) (fst ds);
          params_loop f (snd r1) ret ((fst (fst r1), adjust_param (snd (fst r1))) :: acc)
      end
    end
  end.

Fixpoint abstract_declarator (fuel : nat) (toks : list tok) (ty : mty) {struct fuel} : res (mty * list tok) :=
  match fuel with
  | O => OutOfFuel
  | S f =>
    let pt := pointers false toks ty in
    match nested_start (snd pt) with
    | Some inner =>
        do r1 <- abstract_declarator f inner dummy;
        match snd r1 with
        | TRParen :: t3 =>
            do r2 <- type_suffix f t3 (fst pt);
            do r3 <- abstract_declarator f inner (fst r2);
            Ok (fst r3, snd r2)
        | _ => Err
        end
    | None => type_suffix f (snd pt) (fst pt)
    end
  end.

(* typename = declspec abstract_declarator *)
Definition typename (fuel : nat) (toks : list tok) : res (mty * list tok) :=
  match toks with
  | TBase l :: r => abstract_declarator fuel r (MBase l)
  | _ => abstract_declarator fuel toks (MBase LInt)
  end.

(* entry points without fuel: twice the number of tokens plus 2 bounds the recursion depth on every written
   declarator (Proofs/DeclaratorParse.v: cost_bound, fuel_enough) *)
Definition fuel_for (toks : list tok) : nat := 2 * length toks + 2.
Definition parse_declarator (toks : list tok) (ty : mty) := declarator (fuel_for toks) toks ty.
Definition parse_abstract (toks : list tok) (ty : mty) := abstract_declarator (fuel_for toks) toks ty.
Definition parse_typename (toks : list tok) := typename (fuel_for toks) toks.
