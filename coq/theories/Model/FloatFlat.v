(* The jump-level form of the code tree of FloatGen.v: && || ?: become cmp_zero, conditional jumps and labels
   exactly as gen_expr prints them (ND_LOGAND, ND_LOGOR, ND_COND), with labels as absolute instruction
   positions; pushf / popf are the two instructions each that codegen.c prints; and the machine that runs it
   (program counter, registers, stack).  [ftext] prints one line per instruction, jump targets as "@position":
   what the -S text of chibicc looks like once its labels are resolved to instruction positions. *)
From Coq Require Import ZArith Bool List String.
From Chibicc Require Import Spec.C11Int Spec.C11Float Model.X86Int Model.CodegenInt Model.X86Sse Model.FloatGen.
Import ListNotations.
Local Open Scope Z_scope.

Inductive finstr :=
| FI (i : sinsn)
| FPushRax                     (* push %rax *)
| FPopRdi                      (* pop %rdi *)
| FSubRsp                      (* sub $8, %rsp *)
| FStoreX0                     (* movsd %xmm0, (%rsp) *)
| FLoadX1                      (* movsd (%rsp), %xmm1 *)
| FAddRsp                      (* add $8, %rsp *)
| FImm (v : Z)                 (* mov $0 / $1, %rax *)
| FJz (target : nat)           (* je *)
| FJnz (target : nat)          (* jne *)
| FJmp (target : nat).

Definition czlen (t : ty) : nat := List.length (m_cmp_zero t).
Definition cmpz (t : ty) : list finstr := map FI (m_cmp_zero t).

Fixpoint fsize (c : fcode) : nat :=
  match c with
  | CIns p => List.length p
  | CPush | CPopRdi => 1
  | CPushF | CPopF1 => 2
  | CSeq a b => fsize a + fsize b
  | CAnd a ta b tb | COr a ta b tb => fsize a + czlen ta + fsize b + czlen tb + 5
  | CCond c tc a b => fsize c + czlen tc + fsize a + fsize b + 2
  end%nat.

Fixpoint flatten (c : fcode) (p : nat) : list finstr :=
  match c with
  | CIns l => map FI l
  | CPush => [FPushRax]
  | CPopRdi => [FPopRdi]
  | CPushF => [FSubRsp; FStoreX0]
  | CPopF1 => [FLoadX1; FAddRsp]
  | CSeq a b => flatten a p ++ flatten b (p + fsize a)
  | CAnd a ta b tb =>
    let pb := (p + fsize a + czlen ta + 1)%nat in
    let pf := (pb + fsize b + czlen tb + 3)%nat in let pe := (pf + 1)%nat in
    flatten a p ++ cmpz ta ++ [FJz pf] ++ flatten b pb ++ cmpz tb ++ [FJz pf; FImm 1; FJmp pe; FImm 0]
  | COr a ta b tb =>
    let pb := (p + fsize a + czlen ta + 1)%nat in
    let pt := (pb + fsize b + czlen tb + 3)%nat in let pe := (pt + 1)%nat in
    flatten a p ++ cmpz ta ++ [FJnz pt] ++ flatten b pb ++ cmpz tb ++ [FJnz pt; FImm 0; FJmp pe; FImm 1]
  | CCond c tc a b =>
    let pa := (p + fsize c + czlen tc + 1)%nat in
    let pelse := (pa + fsize a + 1)%nat in
    flatten c p ++ cmpz tc ++ [FJz pelse] ++ flatten a pa ++ [FJmp (pelse + fsize b)] ++ flatten b pelse
  end.

Definition pstate := (nat * fstate)%type.

Section Step.
Variable mem : Z -> Z.

Definition fstep (P : list finstr) (st : pstate) : option pstate :=
  let '(pc, (s, k)) := st in
  match nth_error P pc with
  | Some (FI i) => match sexec1 mem i s with Some s' => Some (S pc, (s', k)) | None => None end
  | Some FPushRax => Some (S pc, (s, rax (ix s) :: k))
  | Some FPopRdi => match k with v :: k' => Some (S pc, (with_ix s (set_rdi (ix s) v), k')) | [] => None end
  | Some FSubRsp => Some (S pc, (s, 0 :: k))                      (* a new slot, content irrelevant *)
  | Some FStoreX0 => match k with _ :: k' => Some (S pc, (s, x0 s :: k')) | [] => None end
  | Some FLoadX1 => match k with v :: _ => Some (S pc, (with_x1 s v, k)) | [] => None end
  | Some FAddRsp => match k with _ :: k' => Some (S pc, (s, k')) | [] => None end
  | Some (FImm v) => Some (S pc, (imm_rax s v, k))
  | Some (FJz t) => Some ((if f_zf (ix s) then t else S pc), (s, k))
  | Some (FJnz t) => Some ((if f_zf (ix s) then S pc else t), (s, k))
  | Some (FJmp t) => Some (t, (s, k))
  | None => None
  end.

Inductive fstar (P : list finstr) : pstate -> pstate -> Prop :=
| fstar_refl st : fstar P st st
| fstar_step st st' st'' : fstep P st = Some st' -> fstar P st' st'' -> fstar P st st''.
End Step.

(* one line per instruction; jump targets as positions *)
Local Open Scope string_scope.
Definition finstr_text (i : finstr) : string :=
  match i with
  | FI j => sinsn_text j
  | FPushRax => "push %rax"
  | FPopRdi => "pop %rdi"
  | FSubRsp => "sub $8, %rsp"
  | FStoreX0 => "movsd %xmm0, (%rsp)"
  | FLoadX1 => "movsd (%rsp), %xmm1"
  | FAddRsp => "add $8, %rsp"
  | FImm v => "mov $" ++ zstr v ++ ", %rax"
  | FJz t => "je @" ++ nstr t
  | FJnz t => "jne @" ++ nstr t
  | FJmp t => "jmp @" ++ nstr t
  end.
Definition flat_text (e : fexpr) : list string := map finstr_text (flatten (compile e) 0).
