(* Model of the type-inference ladder of convert_pp_int (tokenize.c).
   [v] is the value strtoul returns (0 <= v < 2^64), stored into [int64_t val];
   [val >> n] on the signed value is an arithmetic shift. *)
From Coq Require Import NArith ZArith Bool.
Local Open Scope Z_scope.

Inductive lit_ty := TInt | TUInt | TLong | TULong.

Definition sval (v : N) : Z :=                      (* int64_t val = strtoul(...) *)
  let z := Z.of_N v in if z <? 9223372036854775808 then z else z - 18446744073709551616.

Definition nz (z : Z) : bool := negb (z =? 0).      (* C truth value *)

Definition lit_type (decimal l u : bool) (v : N) : lit_ty :=
  let val := sval v in
  if decimal then
    if l && u then TULong
    else if l then TLong
    else if u then (if nz (Z.shiftr val 32) then TULong else TUInt)
    else (if nz (Z.shiftr val 31) then TLong else TInt)
  else
    if l && u then TULong
    else if l then (if nz (Z.shiftr val 63) then TULong else TLong)
    else if u then (if nz (Z.shiftr val 32) then TULong else TUInt)
    else if nz (Z.shiftr val 63) then TULong
    else if nz (Z.shiftr val 32) then TLong
    else if nz (Z.shiftr val 31) then TUInt
    else TInt.
