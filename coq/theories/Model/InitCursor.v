(* C05 (package initcur): the initializer parser of parse.c on the abstract syntax of Spec/InitSyntax.v.

   One Gallina function per C function, same names, same control flow:
     new_initializer, is_end (= the item stream is empty: both `}` and `,}`), skip_excess_element,
     string_initializer, array_designator (the bound checks), struct_designator (index lookup),
     designation, count_array_init_elements, array_initializer1/2, struct_initializer1/2,
     union_initializer, initializer2, initializer, and the traversal common to the two consumers
     create_lvar_init / write_gvar_data (`leaves_of`).

   The token cursor `tok` becomes the list of items that are still to come in the ENCLOSING braces:
   a function that in C returns through `*rest` returns the remaining items.  When C is in the middle
   of a designator list (designation), the remaining designators and the initializer of the current
   item are passed separately.  `*rest = start` (give the item with its comma back to the caller)
   is "return the stream unchanged".
   Abstracted away: the commas (`first` / `cont` flags and `skip(tok, ",")`): in a printed abstract
   list they are where the C code expects them - the tie checks this on the real compiler, printing
   some lists with a trailing comma; expression parsing (`assign`); the error exits are `None`.

   Recursion.  Every call from a node of the Initializer tree to the functions for a CHILD node goes
   through initializer2 or designation (count_array_init_elements calls them on a dummy of the element
   type), and a scalar in braces calls initializer2 on the same node with the inner initializer.
   The functions are therefore defined level by level: level d+1 receives initializer2 / designation of
   level d (for the children) as arguments; `level 0` fails.  d > depth of the type + brace depth of the
   initializer is enough (Proofs/InitCursorProofs.v), so d is not a fuel that can run out on a valid input.
   The loops of array_initializer1 / struct_initializer1 / count_array_init_elements consume at least
   one item per round; they run on a fuel equal to the number of items plus one. *)
From Coq Require Import List Arith Bool.
From Chibicc Require Import Spec.InitSyntax.
Import ListNotations.

(* struct Initializer.  `ty`/`children` are folded into the constructors; `is_flexible` only exists for
   arrays; an array node keeps its element type (needed to re-create it once the length is known) *)
Inductive itree : Type :=
| NScalar (expr : option val)
| NArray (flex : bool) (elem : ty) (cs : list itree)
| NStruct (cs : list itree)
| NUnion (mem : option nat) (cs : list itree).

(* new_initializer(ty, is_flexible).  An array of unknown length has no children; it is flexible if
   the caller allows it (top level, or last member of a top-level struct) *)
Fixpoint new_initializer (U : ty) (is_flexible : bool) : itree :=
  match U with
  | TScalar _ => NScalar None
  | TArray None e => NArray is_flexible e []
  | TArray (Some n) e => NArray false e (repeat (new_initializer e false) n)
  | TStruct ms =>
      NStruct ((fix members (ms : list ty) : list itree :=
                  match ms with
                  | [] => []
                  | [TArray None e] => [NArray is_flexible e []]     (* ty->is_flexible && !mem->next *)
                  | m :: ms' => new_initializer m false :: members ms'
                  end) ms)
  | TUnion ms => NUnion None (map (fun m => new_initializer m false) ms)
  end.

Definition res : Type := option (itree * items).
Definition I2T : Type := itree -> init -> items -> res.                 (* initializer2(rest, tok, init) *)
Definition DT : Type := itree -> list desig -> init -> items -> res.    (* designation(rest, tok, init) *)

Fixpoint set_nth {A} (l : list A) (i : nat) (x : A) : list A :=
  match l, i with
  | [], _ => []
  | _ :: tl, 0 => x :: tl
  | y :: tl, S i' => y :: set_nth tl i' x
  end.

(* skip_excess_element: `{ skip_excess_element }` or one assignment-expression *)
Fixpoint skip_excess_element (v : init) : bool :=
  match v with
  | IExpr _ => true
  | IStr _ => true
  | IList (ICons [] v' INil) => skip_excess_element v'
  | IList _ => false
  end.

(* string_initializer: every children[i]->expr = NULL (the literal initializes the whole array), then
   children[i]->expr = str[i] for i < MIN(array_len, string length) *)
Fixpoint string_fill (cs : list itree) (s : list nat) : option (list itree) :=
  match cs with
  | [] => Some []
  | NScalar _ :: cs' =>
      match string_fill cs' (tl s) with
      | Some r => Some (NScalar (match s with c :: _ => Some (VChar c) | [] => None end) :: r)
      | None => None
      end
  | _ :: _ => None                    (* element not a scalar: cannot happen, the callers test is_integer(base) *)
  end.

Definition string_initializer (t : itree) (s : list nat) : option itree :=
  match t with
  | NArray flex e cs =>
      let cs := if flex then repeat (new_initializer e false) (length s) else cs in
      match string_fill cs s with Some cs' => Some (NArray false e cs') | None => None end
  | _ => None
  end.

(* array_designator: [begin] or [begin ... end], both below array_len, range not empty *)
Definition array_designator (d : desig) (len : nat) : option (nat * nat) :=
  match d with
  | DIndex i => if i <? len then Some (i, i) else None
  | DRange a b => if (a <? len) && (b <? len) && (a <=? b) then Some (a, b) else None
  | DField _ => None
  end.

Section Level.
  (* initializer2 and designation for the children *)
  Variable I2c : I2T.
  Variable Dc : DT.

  (* for (j = begin; j <= end; j++) designation(&tok2, tok, init->children[j]);  every round starts
     from the same tok; tok2 is what the last round left *)
  Fixpoint designate_range (cs : list itree) (j n : nat) (ds : list desig) (v : init) (tl : items)
           (tok2 : items) : option (list itree * items) :=
    match n with
    | 0 => Some (cs, tok2)
    | S n' =>
        match nth_error cs j with
        | None => None
        | Some c =>
            match Dc c ds v tl with
            | None => None
            | Some (c', tok2') => designate_range (set_nth cs j c') (S j) n' ds v tl tok2'
            end
        end
    end.

  (* count_array_init_elements(tok, ty): the loop; `dummy` is threaded through as in C *)
  Fixpoint count_loop (fuel : nat) (dummy : itree) (i max : nat) (tok : items) : option nat :=
    match fuel with
    | 0 => None
    | S fuel' =>
        match tok with
        | INil => Some max                                   (* consume_end *)
        | ICons ds v tl =>
            let r := match ds with
                     | DIndex k :: ds' => match Dc dummy ds' v tl with Some (d', tok') => Some (k, d', tok') | None => None end
                     | DRange _ k :: ds' => match Dc dummy ds' v tl with Some (d', tok') => Some (k, d', tok') | None => None end
                     | DField _ :: _ => None                  (* initializer2 on a `.`: no expression *)
                     | [] => match I2c dummy v tl with Some (d', tok') => Some (i, d', tok') | None => None end
                     end in
            match r with
            | None => None
            | Some (i, d', tok') => count_loop fuel' d' (S i) (Nat.max max (S i)) tok'
            end
        end
    end.

  Definition count_array_init_elements (tok : items) (e : ty) : option nat :=
    count_loop (S (ilength tok)) (new_initializer e true) 0 0 tok.

  (* if (init->is_flexible) *init = *new_initializer(array_of(base, count...), false) *)
  Definition unflex (flex : bool) (e : ty) (cs : list itree) (tok : items) : option (list itree) :=
    if flex then
      match count_array_init_elements tok e with
      | Some len => Some (repeat (new_initializer e false) len)
      | None => None
      end
    else Some cs.

  (* array_initializer2: for (; i < array_len && !is_end(tok); i++)  *)
  Fixpoint array_loop2 (cs : list itree) (i n : nat) (tok : items) : option (list itree * items) :=
    match n with
    | 0 => Some (cs, tok)                                     (* i == array_len *)
    | S n' =>
        match tok with
        | INil => Some (cs, tok)                              (* is_end *)
        | ICons (_ :: _) _ _ => Some (cs, tok)                (* `[` or `.`: *rest = start *)
        | ICons [] v tl =>
            match nth_error cs i with
            | None => None
            | Some c =>
                match I2c c v tl with
                | None => None
                | Some (c', tok') => array_loop2 (set_nth cs i c') (S i) n' tok'
                end
            end
        end
    end.

  Definition array_initializer2 (t : itree) (i : nat) (tok : items) : res :=
    match t with
    | NArray flex e cs =>
        match unflex flex e cs tok with
        | None => None
        | Some cs =>
            match array_loop2 cs i (length cs - i) tok with
            | Some (cs', tok') => Some (NArray false e cs', tok')
            | None => None
            end
        end
    | _ => None
    end.

  (* struct_initializer2: for (; mem && !is_end(tok); mem = mem->next); identical loop, no flexible part *)
  Definition struct_initializer2 (t : itree) (mem : nat) (tok : items) : res :=
    match t with
    | NStruct cs =>
        match array_loop2 cs mem (length cs - mem) tok with
        | Some (cs', tok') => Some (NStruct cs', tok')
        | None => None
        end
    | _ => None
    end.

  (* array_initializer1: the loop after `{` and the flexible-length step *)
  Fixpoint array_loop1 (fuel : nat) (cs : list itree) (i : nat) (tok : items) : option (list itree) :=
    match fuel with
    | 0 => None
    | S fuel' =>
        match tok with
        | INil => Some cs                                     (* consume_end *)
        | ICons (d :: ds') v tl =>
            match array_designator d (length cs) with
            | None => None
            | Some (b, e) =>
                match designate_range cs b (S e - b) ds' v tl tl with
                | None => None
                | Some (cs', tok2) => array_loop1 fuel' cs' (S e) tok2      (* i = end; continue; i++ *)
                end
            end
        | ICons [] v tl =>
            if i <? length cs then
              match nth_error cs i with
              | None => None
              | Some c =>
                  match I2c c v tl with
                  | None => None
                  | Some (c', tok') => array_loop1 fuel' (set_nth cs i c') (S i) tok'
                  end
              end
            else if skip_excess_element v then array_loop1 fuel' cs (S i) tl else None
        end
    end.

  Definition array_initializer1 (t : itree) (l : items) : option itree :=
    match t with
    | NArray flex e cs =>
        match unflex flex e cs l with
        | None => None
        | Some cs =>
            match array_loop1 (S (ilength l)) cs 0 l with
            | Some cs' => Some (NArray false e cs')
            | None => None
            end
        end
    | _ => None
    end.

  (* struct_initializer1 *)
  Fixpoint struct_loop1 (fuel : nat) (cs : list itree) (mem : nat) (tok : items) : option (list itree) :=
    match fuel with
    | 0 => None
    | S fuel' =>
        match tok with
        | INil => Some cs
        | ICons (DField m :: ds') v tl =>
            match nth_error cs m with
            | None => None                                    (* struct has no such member *)
            | Some c =>
                match Dc c ds' v tl with
                | None => None
                | Some (c', tok') => struct_loop1 fuel' (set_nth cs m c') (S m) tok'
                end
            end
        | ICons (_ :: _) _ _ => None                          (* `[` in a struct list *)
        | ICons [] v tl =>
            match nth_error cs mem with
            | Some c =>
                match I2c c v tl with
                | None => None
                | Some (c', tok') => struct_loop1 fuel' (set_nth cs mem c') (S mem) tok'
                end
            | None => if skip_excess_element v then struct_loop1 fuel' cs mem tl else None
            end
        end
    end.

  Definition struct_initializer1 (t : itree) (l : items) : option itree :=
    match t with
    | NStruct cs =>
        match struct_loop1 (S (ilength l)) cs 0 l with
        | Some cs' => Some (NStruct cs')
        | None => None
        end
    | _ => None
    end.

  (* union_initializer *)
  Definition union_initializer (t : itree) (v : init) (rest : items) : res :=
    match t with
    | NUnion _ cs =>
        match v with
        | IList (ICons (DField m :: ds') v' tl) =>            (* { .m ... } *)
            match nth_error cs m with
            | None => None
            | Some c =>
                match Dc c ds' v' tl with
                | Some (c', INil) => Some (NUnion (Some m) (set_nth cs m c'), rest)     (* `,`? `}` *)
                | _ => None
                end
            end
        | IList (ICons [] v' tl) =>                           (* { initializer ,? } *)
            match nth_error cs 0 with
            | None => None
            | Some c =>
                match I2c c v' tl with
                | Some (c', INil) => Some (NUnion (Some 0) (set_nth cs 0 c'), rest)
                | _ => None
                end
            end
        | IList _ => None
        | _ =>                                                (* no brace: the first member, from the enclosing list *)
            match nth_error cs 0 with
            | None => None
            | Some c =>
                match I2c c v rest with
                | Some (c', tok') => Some (NUnion (Some 0) (set_nth cs 0 c'), tok')
                | None => None
                end
            end
        end
    | _ => None
    end.

  Definition is_integer_elem (e : ty) : bool := match e with TScalar _ => true | _ => false end.

  (* initializer2; I2same is initializer2 one level down, used for `{ initializer }` around a scalar *)
  Definition initializer2 (t : itree) (v : init) (rest : items) : res :=
    match t with
    | NArray flex e cs =>
        match v with
        | IStr s =>                                           (* a string literal: for an array of integers only *)
            if is_integer_elem e
            then match string_initializer t s with Some t' => Some (t', rest) | None => None end
            else array_initializer2 t 0 (ICons [] v rest)     (* otherwise it belongs to the first element *)
        | IList l =>
            match l, is_integer_elem e with
            | ICons [] (IStr s) INil, true =>                 (* { "..." ,? } for an array of integers *)
                match string_initializer t s with Some t' => Some (t', rest) | None => None end
            | _, _ => match array_initializer1 t l with Some t' => Some (t', rest) | None => None end
            end
        | IExpr _ => array_initializer2 t 0 (ICons [] v rest)
        end
    | NStruct cs =>
        match v with
        | IList l => match struct_initializer1 t l with Some t' => Some (t', rest) | None => None end
        | _ => struct_initializer2 t 0 (ICons [] v rest)
        end
    | NUnion _ _ => union_initializer t v rest
    | NScalar _ =>
        match v with
        | IList (ICons [] v' tl) =>                           (* initializer2(&tok, tok->next, init); skip "}" *)
            match I2c t v' tl with
            | Some (t', INil) => Some (t', rest)
            | _ => None
            end
        | IList _ => None
        | IExpr e => Some (NScalar (Some (VExpr e)), rest)
        | IStr _ => None                                      (* a pointer value: outside this syntax *)
        end
    end.

  (* designation *)
  Definition designation (t : itree) (ds : list desig) (v : init) (rest : items) : res :=
    match ds with
    | [] => initializer2 t v rest                             (* `=`? initializer *)
    | DField m :: ds' =>
        match t with
        | NStruct cs =>
            match nth_error cs m with
            | None => None
            | Some c =>
                match Dc c ds' v rest with
                | None => None
                | Some (c', tok) => struct_initializer2 (NStruct (set_nth cs m c')) (S m) tok
                end
            end
        | NUnion _ cs =>
            match nth_error cs m with
            | None => None
            | Some c =>
                match Dc c ds' v rest with
                | None => None
                | Some (c', tok) => Some (NUnion (Some m) (set_nth cs m c'), tok)
                end
            end
        | _ => None                                           (* field name not in struct or union initializer *)
        end
    | d :: ds' =>
        match t with
        | NArray flex e cs =>
            match array_designator d (length cs) with
            | None => None
            | Some (b, en) =>
                match designate_range cs b (S en - b) ds' v rest rest with
                | None => None
                | Some (cs', tok2) => array_initializer2 (NArray flex e cs') (S en) tok2   (* end + 1 *)
                end
            end
        | _ => None                                           (* array index in non-array initializer *)
        end
    end.
End Level.

(* tying the knot: level d+1 uses level d for the children *)
Fixpoint level (d : nat) : I2T * DT :=
  match d with
  | 0 => (fun _ _ _ => None, fun _ _ _ _ => None)
  | S d' =>
      let (i2c, dc) := level d' in
      (initializer2 i2c dc, designation i2c dc)
  end.

Fixpoint tdepth (U : ty) : nat :=
  match U with
  | TScalar _ => 0
  | TArray _ e => S (tdepth e)
  | TStruct ms => S (fold_right (fun m a => Nat.max (tdepth m) a) 0 ms)
  | TUnion ms => S (fold_right (fun m a => Nat.max (tdepth m) a) 0 ms)
  end.

Fixpoint idepth (v : init) : nat :=
  match v with
  | IExpr _ => 0
  | IStr _ => 0
  | IList l => S (idepth_items l)
  end
with idepth_items (l : items) : nat :=
  match l with
  | INil => 0
  | ICons _ v tl => Nat.max (idepth v) (idepth_items tl)
  end.

(* initializer(rest, tok, ty, &new_ty): the tree *)
Definition initializer (T : ty) (v : init) : option itree :=
  match fst (level (S (tdepth T + idepth v))) (new_initializer T true) v INil with
  | Some (t, INil) => Some t
  | _ => None
  end.

(* what create_lvar_init assigns / write_gvar_data writes, leaf by leaf, in their common order:
   array children 0..len-1, struct members in order, of a union `init->mem` (the first member if unset) *)
Fixpoint leaves_of (t : itree) (pre : path) : leaves :=
  match t with
  | NScalar e => [(pre, e)]
  | NArray _ _ cs =>
      (fix go (cs : list itree) (i : nat) : leaves :=
         match cs with [] => [] | c :: cs' => leaves_of c (pre ++ [i]) ++ go cs' (S i) end) cs 0
  | NStruct cs =>
      (fix go (cs : list itree) (i : nat) : leaves :=
         match cs with [] => [] | c :: cs' => leaves_of c (pre ++ [i]) ++ go cs' (S i) end) cs 0
  | NUnion mem cs =>
      let m := match mem with Some m => m | None => 0 end in
      (fix pick (cs : list itree) (i : nat) : leaves :=
         match cs with
         | [] => []
         | c :: cs' => if i =? m then leaves_of c (pre ++ [i]) else pick cs' (S i)
         end) cs 0
  end.

(* the type the variable gets (`*new_ty`): lengths read off the tree *)
Definition type_of (U : ty) (t : itree) : ty :=
  match U, t with
  | TArray None e, NArray _ _ cs => TArray (Some (length cs)) e
  | TStruct ms, NStruct cs =>
      TStruct ((fix go (ms : list ty) (cs : list itree) : list ty :=
                  match ms, cs with
                  | [TArray None e], [NArray _ _ cs'] => [TArray (Some (length cs')) e]
                  | m :: ms', _ :: cs' => m :: go ms' cs'
                  | _, _ => ms
                  end) ms cs)
  | _, _ => U
  end.

Definition model (T : ty) (v : init) : option (ty * leaves) :=
  match initializer T v with
  | Some t => Some (type_of T t, leaves_of t [])
  | None => None
  end.
