(* C03 (package sw), the step below Model/LoweringSw.v: chibicc's own bookkeeping, not folded into
   parameter passing.
   (1) parse.c stmt() as a function on the parser's state: the counter of new_unique_name (labels
       .L..N), brk_label, cont_label (NULL = None), current_switch (its case_next list, newest
       first, and default_case) and the labels list of the function (newest first).  Every
       construct saves, replaces and restores what parse.c saves, replaces and restores, and
       allocates its unique names in parse.c's order:
         switch   brk name, after the controlling expression; current_switch and brk_label replaced
                  for the body and restored (cont_label stays: continue passes through)
         case / default   label name BEFORE the labelled statement is parsed, registration with
                  current_switch AFTER it; "stray case" without a current switch
         for / while / do   brk name, then cont name; both replaced for the body and restored
         break / continue   ND_GOTO to brk_label / cont_label; "stray break" when NULL
         l: s     unique name before s, pushed on the labels list after s
         goto l   ND_GOTO with the name, resolved at the end of the function (resolve_goto_labels:
                  first entry of the labels list with the name; "use of undeclared label")
   (2) codegen.c gen_stmt on the resulting nodes, emitting labelled code: instructions with
       symbolic targets and label definitions; ND_IF / ND_FOR / ND_DO take a number from count()
       (labels .L.else.N .L.end.N .L.begin.N), numbered in the order gen_stmt visits the nodes.
   (3) the assembler: a label is the position of the instruction that follows its definition.
   LoweringSwParseProofs: all labels defined are distinct, and the assembled code is sprogram of
   Model/LoweringSw.v - for every statement and every starting value of the two counters. *)
From Coq Require Import List Arith Bool.
Import ListNotations.
From Chibicc Require Import Spec.SwSem Model.LoweringSw.

Inductive plabel :=
| LU (n : nat)                                  (* .L..n       new_unique_name() *)
| LElse (n : nat) | LEnd (n : nat) | LBegin (n : nat)   (* .L.else.n .L.end.n .L.begin.n   count() *)
| LNone.                                        (* no label (never defined) *)

Definition plabel_eqb (a b : plabel) : bool :=
  match a, b with
  | LU x, LU y | LElse x, LElse y | LEnd x, LEnd y | LBegin x, LBegin y => x =? y
  | LNone, LNone => true
  | _, _ => false
  end.

(* Node, as far as statements go *)
Inductive pnode :=
| PMark (n : nat)
| PSkip
| PSeq (a b : pnode)                                                   (* ND_BLOCK *)
| PIf (k : nat) (a b : pnode)
| PFor (init : list nat) (k : option nat) (inc : list nat) (body : pnode) (brk cont : plabel)
| PDo (body : pnode) (k : nat) (brk cont : plabel)
| PGoto (l : plabel)                                                   (* ND_GOTO with unique_label set: break, continue *)
| PGotoName (name : nat)                                               (* ND_GOTO with a label name *)
| PGotoInd (k : nat) (tab : list nat)                                  (* ND_GOTO_EXPR over ND_LABEL_VALs *)
| PSwitch (k : nat) (cases : list (nat * plabel)) (default : option plabel) (brk : plabel) (body : pnode)
| PCase (l : plabel) (s : pnode)                                       (* ND_CASE: case and default *)
| PLabel (name : nat) (l : plabel) (s : pnode).

Record pstate := mkps {
  ps_ctr : nat;
  ps_brk : option plabel;
  ps_cont : option plabel;
  ps_sw : option (list (nat * plabel) * option plabel);
  ps_labels : list (nat * plabel) }.

Fixpoint pparse (s : sstmt) (st : pstate) : option (pnode * pstate) :=
  match s with
  | SMark n => Some (PMark n, st)
  | SSkip => Some (PSkip, st)
  | SSeq a b =>
    match pparse a st with
    | Some (a', st1) => match pparse b st1 with Some (b', st2) => Some (PSeq a' b', st2) | None => None end
    | None => None
    end
  | SIf k a b =>
    match pparse a st with
    | Some (a', st1) => match pparse b st1 with Some (b', st2) => Some (PIf k a' b', st2) | None => None end
    | None => None
    end
  | SFor init k inc body =>
    let brk := LU (ps_ctr st) in
    let cont := LU (S (ps_ctr st)) in
    match pparse body (mkps (S (S (ps_ctr st))) (Some brk) (Some cont) (ps_sw st) (ps_labels st)) with
    | Some (body', st1) => Some (PFor init k inc body' brk cont, mkps (ps_ctr st1) (ps_brk st) (ps_cont st) (ps_sw st1) (ps_labels st1))
    | None => None
    end
  | SDo body k =>
    let brk := LU (ps_ctr st) in
    let cont := LU (S (ps_ctr st)) in
    match pparse body (mkps (S (S (ps_ctr st))) (Some brk) (Some cont) (ps_sw st) (ps_labels st)) with
    | Some (body', st1) => Some (PDo body' k brk cont, mkps (ps_ctr st1) (ps_brk st) (ps_cont st) (ps_sw st1) (ps_labels st1))
    | None => None
    end
  | SBreak => match ps_brk st with Some l => Some (PGoto l, st) | None => None end          (* stray break *)
  | SContinue => match ps_cont st with Some l => Some (PGoto l, st) | None => None end      (* stray continue *)
  | SSwitch k body =>
    let brk := LU (ps_ctr st) in
    match pparse body (mkps (S (ps_ctr st)) (Some brk) (ps_cont st) (Some ([], None)) (ps_labels st)) with
    | Some (body', st1) =>
      match ps_sw st1 with
      | Some (cs, d) => Some (PSwitch k cs d brk body', mkps (ps_ctr st1) (ps_brk st) (ps_cont st1) (ps_sw st) (ps_labels st1))
      | None => None
      end
    | None => None
    end
  | SCase c s1 =>
    match ps_sw st with
    | None => None                                                                          (* stray case *)
    | Some _ =>
      let l := LU (ps_ctr st) in
      match pparse s1 (mkps (S (ps_ctr st)) (ps_brk st) (ps_cont st) (ps_sw st) (ps_labels st)) with
      | Some (s1', st1) =>
        match ps_sw st1 with
        | Some (cs, d) => Some (PCase l s1', mkps (ps_ctr st1) (ps_brk st1) (ps_cont st1) (Some ((c, l) :: cs, d)) (ps_labels st1))
        | None => None
        end
      | None => None
      end
    end
  | SDefault s1 =>
    match ps_sw st with
    | None => None                                                                          (* stray default *)
    | Some _ =>
      let l := LU (ps_ctr st) in
      match pparse s1 (mkps (S (ps_ctr st)) (ps_brk st) (ps_cont st) (ps_sw st) (ps_labels st)) with
      | Some (s1', st1) =>
        match ps_sw st1 with
        | Some (cs, d) => Some (PCase l s1', mkps (ps_ctr st1) (ps_brk st1) (ps_cont st1) (Some (cs, Some l)) (ps_labels st1))
        | None => None
        end
      | None => None
      end
    end
  | SLabel name s1 =>
    let l := LU (ps_ctr st) in
    match pparse s1 (mkps (S (ps_ctr st)) (ps_brk st) (ps_cont st) (ps_sw st) (ps_labels st)) with
    | Some (s1', st1) => Some (PLabel name l s1', mkps (ps_ctr st1) (ps_brk st1) (ps_cont st1) (ps_sw st1) ((name, l) :: ps_labels st1))
    | None => None
    end
  | SGoto name => Some (PGotoName name, st)
  | SGotoInd k tab => Some (PGotoInd k tab, st)
  end.

(* ---------- labelled code ---------- *)
Inductive pinstr :=
| QMark (n : nat) | QCondJf (k : nat) (l : plabel) | QCondJt (k : nat) (l : plabel) | QJmp (l : plabel)
| QSel (k : nat) | QCase (c : nat) (l : plabel) | QJmpTab (k : nat) (ls : list plabel).
Inductive pitem := PI (i : pinstr) | PDef (l : plabel).

(* resolve_goto_labels: unique_label of the first entry of the labels list with the name *)
Definition plookup (labels : list (nat * plabel)) (name : nat) : plabel :=
  match find (fun e => fst e =? name) labels with Some e => snd e | None => LNone end.

(* gen_stmt; c is the next value of count() *)
Fixpoint pgen (labels : list (nat * plabel)) (n : pnode) (c : nat) : list pitem * nat :=
  match n with
  | PMark m => ([PI (QMark m)], c)
  | PSkip => ([], c)
  | PSeq a b => let (ca, c1) := pgen labels a c in let (cb, c2) := pgen labels b c1 in (ca ++ cb, c2)
  | PIf k a b =>
    let (ca, c1) := pgen labels a (S c) in
    let (cb, c2) := pgen labels b c1 in
    ([PI (QCondJf k (LElse c))] ++ ca ++ [PI (QJmp (LEnd c)); PDef (LElse c)] ++ cb ++ [PDef (LEnd c)], c2)
  | PFor init k inc body brk cont =>
    let (cb, c1) := pgen labels body (S c) in
    (map (fun m => PI (QMark m)) init ++ [PDef (LBegin c)] ++
     (match k with Some kk => [PI (QCondJf kk brk)] | None => [] end) ++
     cb ++ [PDef cont] ++ map (fun m => PI (QMark m)) inc ++ [PI (QJmp (LBegin c)); PDef brk], c1)
  | PDo body k brk cont =>
    let (cb, c1) := pgen labels body (S c) in
    ([PDef (LBegin c)] ++ cb ++ [PDef cont; PI (QCondJt k (LBegin c)); PDef brk], c1)
  | PGoto l => ([PI (QJmp l)], c)
  | PGotoName name => ([PI (QJmp (plookup labels name))], c)
  | PGotoInd k tab => ([PI (QJmpTab k (map (plookup labels) tab))], c)
  | PSwitch k cases default brk body =>
    let (cb, c1) := pgen labels body c in
    ([PI (QSel k)] ++ map (fun cl => PI (QCase (fst cl) (snd cl))) cases ++
     (match default with Some l => [PI (QJmp l)] | None => [] end) ++
     [PI (QJmp brk)] ++ cb ++ [PDef brk], c1)
  | PCase l s => let (cs, c1) := pgen labels s c in (PDef l :: cs, c1)
  | PLabel _ l s => let (cs, c1) := pgen labels s c in (PDef l :: cs, c1)
  end.

(* ---------- the assembler ---------- *)
(* position of (the first definition of) a label: the number of instructions before it *)
Fixpoint ppos (l : plabel) (code : list pitem) (p : nat) : option nat :=
  match code with
  | [] => None
  | PDef l' :: r => if plabel_eqb l l' then Some p else ppos l r p
  | PI _ :: r => ppos l r (S p)
  end.
Definition presolve (rho : plabel -> nat) (i : pinstr) : sinstr :=
  match i with
  | QMark n => JMark n
  | QCondJf k l => JCondJf k (rho l)
  | QCondJt k l => JCondJt k (rho l)
  | QJmp l => JJmp (rho l)
  | QSel k => JSel k
  | QCase c l => JCase c (rho l)
  | QJmpTab k ls => JJmpTab k (map rho ls)
  end.
Fixpoint pasm (rho : plabel -> nat) (code : list pitem) : list sinstr :=
  match code with
  | [] => []
  | PI i :: r => presolve rho i :: pasm rho r
  | PDef _ :: r => pasm rho r
  end.
Definition prho (code : list pitem) (l : plabel) : nat :=
  match ppos l code 0 with Some p => p | None => 0 end.
Definition passemble (code : list pitem) : list sinstr := pasm (prho code) code.

Fixpoint pdefs (code : list pitem) : list plabel :=
  match code with [] => [] | PDef l :: r => l :: pdefs r | PI _ :: r => pdefs r end.

(* a function body: parsed with no loop or switch around it, labels resolved, code generated.
   ctr / c: the values the two counters happen to have when the function is reached. *)
Definition pinit (ctr : nat) : pstate := mkps ctr None None None [].
(* resolve_goto_labels: "use of undeclared label" *)
Fixpoint pgoto_names (n : pnode) : list nat :=
  match n with
  | PSeq a b | PIf _ a b => pgoto_names a ++ pgoto_names b
  | PFor _ _ _ body _ _ | PDo body _ _ _ | PSwitch _ _ _ _ body => pgoto_names body
  | PCase _ s | PLabel _ _ s => pgoto_names s
  | PGotoName name => [name]
  | PGotoInd _ tab => tab
  | _ => []
  end.
Definition presolvable (labels : list (nat * plabel)) (n : pnode) : bool :=
  forallb (fun name => match find (fun e => fst e =? name) labels with Some _ => true | None => false end) (pgoto_names n).
Definition pfunction (body : sstmt) (ctr c : nat) : option (list pitem) :=
  match pparse body (pinit ctr) with
  | Some (node, st) => if presolvable (ps_labels st) node then Some (fst (pgen (ps_labels st) node c)) else None
  | None => None
  end.
