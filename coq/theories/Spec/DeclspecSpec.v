(* C11 6.7.2p2: the multisets of type specifiers that name a basic type ("the type specifiers
   may occur in any order, possibly intermixed with the other declaration specifiers"),
   without _Complex (chibicc defines __STDC_NO_COMPLEX__).  LP64: long long = long. *)
From Coq Require Import List.
From Chibicc Require Import Model.Declspec.
Import ListNotations.

Definition c11_type_specifiers : list (list kw * bty) :=
  [ ([KVoid], BVoid);
    ([KChar], BChar);
    ([KSigned; KChar], BChar);                       (* plain char is signed on x86-64 *)
    ([KUnsigned; KChar], BUChar);
    ([KShort], BShort); ([KSigned; KShort], BShort); ([KShort; KInt], BShort); ([KSigned; KShort; KInt], BShort);
    ([KUnsigned; KShort], BUShort); ([KUnsigned; KShort; KInt], BUShort);
    ([KInt], BInt); ([KSigned], BInt); ([KSigned; KInt], BInt);
    ([KUnsigned], BUInt); ([KUnsigned; KInt], BUInt);
    ([KLong], BLong); ([KSigned; KLong], BLong); ([KLong; KInt], BLong); ([KSigned; KLong; KInt], BLong);
    ([KUnsigned; KLong], BULong); ([KUnsigned; KLong; KInt], BULong);
    ([KLong; KLong], BLong); ([KSigned; KLong; KLong], BLong); ([KLong; KLong; KInt], BLong);
    ([KSigned; KLong; KLong; KInt], BLong);
    ([KUnsigned; KLong; KLong], BULong); ([KUnsigned; KLong; KLong; KInt], BULong);
    ([KFloat], BFloat);
    ([KDouble], BDouble);
    ([KLong; KDouble], BLDouble);
    ([KBool], BBool) ].
