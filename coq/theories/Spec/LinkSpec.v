(* C15 (package emit): what the C standard and the ELF conventions demand of the symbol table of ONE
   translation unit, as a function of the sequence of its declarations.

   Input syntax (shared with Model/Emit.v): an abstract translation unit is a list of file-scope
   declarations.  Identifiers are numbers.  Types are reduced to what the symbol table shows:
   size, alignment, "is an array" (the psABI raises the alignment of arrays of 16 bytes or more).

   Standard clauses rendered here:
     6.2.2p3  file-scope `static`                      -> internal linkage
     6.2.2p4  `extern` with a prior visible declaration -> the linkage of the prior declaration,
              otherwise external
     6.2.2p5  function without storage class = as if `extern`; object without storage class at
              file scope -> external
     6.2.2p6  block-scope object without `extern`      -> no linkage
     6.2.2p7  internal AND external linkage in one unit: undefined  (excluded by `valid`)
     6.2.4    storage duration: `_Thread_local` -> thread, otherwise (file scope / static) static
     6.7.4p7  a function all of whose file-scope declarations say `inline` without `extern` has an
              INLINE DEFINITION only: it provides no external definition.  Otherwise a definition
              of a function with external linkage is an external definition.
     6.9.2p1  file-scope object declaration with initializer = external definition
     6.9.2p2  without initializer and without `extern` (or with `static`) = tentative definition;
              if the unit has no (real) definition, it behaves as exactly one definition
              initialized to 0.
   ELF / GNU conventions:
     external linkage -> STB_GLOBAL, internal -> STB_LOCAL; functions STT_FUNC in .text; objects
     STT_OBJECT in .data (initialized) / .bss (zero); thread storage duration -> STT_TLS in
     .tdata / .tbss; -fcommon: a tentative definition with external linkage that is not
     thread-local becomes a COMMON symbol (st_value = alignment); an identifier that is only
     declared is UNDEFINED (GLOBAL, NOTYPE, or TLS when thread-local) if the emitted code or data
     refers to it, and has no entry otherwise.  Identifiers without linkage have no entry.

   Choices this specification fixes where the standard leaves freedom (stated, not derived):
     (i)  a function with internal linkage, or one that is only an inline definition, need not
          be emitted when nothing emitted refers to it.  chibicc's policy: it omits such a function
          exactly when its FIRST declaration carries `inline` ("skippable") and it is not
          reachable; every other function definition is always emitted.
     (ii) an inline definition (6.7.4p7) that IS used: chibicc uses the inline definition itself,
          as a LOCAL function of the unit (the standard allows either the inline or an external
          definition to be called); gcc -O0 calls the external one instead (UNDEFINED reference).
     (iii) an initialized object goes to .data/.tdata even when the initializer is 0.
     (iv) the size of FUNC symbols and the alignment of .text symbols are not constrained (None).
     (v) see spec_anon: block-scope statics live and die with their function. *)
From Coq Require Import List Bool Arith ZArith.
Import ListNotations.

(* ---------- abstract translation units ---------- *)
Inductive sclass := SC_none | SC_static | SC_extern.
Inductive init := INone | IConst | IAddr (target : nat).        (* = &target (an address constant) *)

(* o_align: the alignment of the type; o_alignas: the alignment specifier of this declaration, if it has one *)
Record objdecl := mkOD { o_sc : sclass; o_tls : bool; o_size : Z; o_align : Z; o_alignas : option Z; o_array : bool; o_init : init }.

Inductive bitem :=                                   (* what a function body contributes *)
| BRef (n : nat)                                     (* file-scope identifier n used in an expression *)
| BStatic (tls : bool) (size align : Z) (arr hasinit : bool)   (* block-scope `static` object, used by the body *)
| BString (size : Z).                                (* string literal *)

Inductive decl :=
| DObj (n : nat) (d : objdecl)
| DFun (n : nat) (sc : sclass) (inl_ : bool) (fsz : Z) (body : option (list bitem)).   (* fsz = strlen(name)+1 *)

Record opts := mkOpts { fcommon : bool; fpic : bool }.

Definition sc_eqb (a b : sclass) : bool :=
  match a, b with SC_none, SC_none | SC_static, SC_static | SC_extern, SC_extern => true | _, _ => false end.
Definition has_init (i : init) : bool := match i with INone => false | _ => true end.
Definition decl_name (d : decl) : nat := match d with DObj n _ => n | DFun n _ _ _ _ => n end.
Definition decl_is_fun (d : decl) : bool := match d with DObj _ _ => false | DFun _ _ _ _ _ => true end.

(* the declarations of one identifier, in order *)
Fixpoint objseq (n : nat) (ds : list decl) : list objdecl :=
  match ds with
  | [] => []
  | DObj m d :: r => if Nat.eqb m n then d :: objseq n r else objseq n r
  | _ :: r => objseq n r
  end.
Record fundecl := mkFD { fd_sc : sclass; fd_inl : bool; fd_body : option (list bitem) }.
Fixpoint funseq (n : nat) (ds : list decl) : list fundecl :=
  match ds with
  | [] => []
  | DFun m sc inl_ _ b :: r => if Nat.eqb m n then mkFD sc inl_ b :: funseq n r else funseq n r
  | _ :: r => funseq n r
  end.

Definition nmem (n : nat) (l : list nat) : bool := existsb (Nat.eqb n) l.

(* ---------- 6.2.2 linkage ---------- *)
Inductive linkage := L_external | L_internal.
Definition lk_eqb (a b : linkage) : bool := match a, b with L_external, L_external | L_internal, L_internal => true | _, _ => false end.

Definition obj_link_step (prior : option linkage) (sc : sclass) : linkage :=
  match sc with
  | SC_static => L_internal                                              (* p3 *)
  | SC_extern => match prior with Some l => l | None => L_external end   (* p4 *)
  | SC_none => L_external                                                (* p5 *)
  end.
Definition fun_link_step (prior : option linkage) (sc : sclass) : linkage :=
  match sc with
  | SC_static => L_internal                                              (* p3 *)
  | _ => match prior with Some l => l | None => L_external end           (* p5 then p4 *)
  end.

(* linkage after the whole sequence; p7: every declaration must arrive at the same linkage *)
Fixpoint link_fold {A} (step : option linkage -> A -> linkage) (prior : option linkage) (l : list A) : option linkage :=
  match l with [] => prior | a :: r => link_fold step (Some (step prior a)) r end.
Fixpoint link_consistent {A} (step : option linkage -> A -> linkage) (prior : option linkage) (l : list A) : bool :=
  match l with
  | [] => true
  | a :: r => let k := step prior a in
              match prior with Some p => lk_eqb p k | None => true end && link_consistent step (Some k) r
  end.
Definition obj_linkage (s : list objdecl) : option linkage := link_fold (fun p d => obj_link_step p (o_sc d)) None s.
Definition fun_linkage (s : list fundecl) : option linkage := link_fold (fun p d => fun_link_step p (fd_sc d)) None s.

(* ---------- 6.9.2 / 6.7.4 ---------- *)
Definition is_real_def (d : objdecl) : bool := has_init (o_init d).                       (* 6.9.2p1 *)
Definition is_tentative_def (d : objdecl) : bool := negb (has_init (o_init d)) && negb (sc_eqb (o_sc d) SC_extern).  (* 6.9.2p2 *)
Definition has_body (d : fundecl) : bool := match fd_body d with Some _ => true | None => false end.
Definition inline_no_extern (d : fundecl) : bool := fd_inl d && negb (sc_eqb (fd_sc d) SC_extern).
(* 6.7.4p7: only an inline definition *)
Definition inline_definition_only (s : list fundecl) : bool :=
  match fun_linkage s with Some L_external => forallb inline_no_extern s | _ => false end.
(* choice (i): may be omitted when unused *)
Definition skippable (s : list fundecl) : bool :=
  match s with
  | [] => false
  | d :: _ => fd_inl d && (match fun_linkage s with Some L_internal => true | _ => false end || inline_definition_only s)
  end.

(* ---------- which functions are emitted (choice (i)): least set closed under ---------- *)
Definition body_of (s : list fundecl) : list bitem :=
  fold_left (fun acc d => match fd_body d with Some b => b | None => acc end) s [].
Definition is_fun_name (ds : list decl) (n : nat) : bool := match funseq n ds with [] => false | _ => true end.
Definition addr_taken_at_file_scope (ds : list decl) (n : nat) : bool :=
  existsb (fun d => match d with DObj _ od => match o_init od with IAddr t => Nat.eqb t n | _ => false end | _ => false end) ds.
Definition refs_item (n : nat) (b : bitem) : bool := match b with BRef m => Nat.eqb m n | _ => false end.

Inductive emitted_fun (ds : list decl) : nat -> Prop :=
| em_always n : is_fun_name ds n = true -> skippable (funseq n ds) = false -> emitted_fun ds n
| em_addr n : is_fun_name ds n = true -> addr_taken_at_file_scope ds n = true -> emitted_fun ds n
| em_ref g n : emitted_fun ds g -> existsb (refs_item n) (body_of (funseq g ds)) = true -> is_fun_name ds n = true -> emitted_fun ds n.

(* `live` is a decision procedure for emitted_fun; the theorems quantify over every such *)
Definition live_ok (ds : list decl) (live : nat -> bool) : Prop := forall n, live n = true <-> emitted_fun ds n.

(* a computable candidate (naive closure, |ds| rounds) used by the tie; see EmitProofs for what is proved about it *)
Definition fun_names (ds : list decl) : list nat :=
  nodup Nat.eq_dec (flat_map (fun d => match d with DFun n _ _ _ _ => [n] | _ => [] end) ds).
Definition closure_round (ds : list decl) (s : list nat) : list nat :=
  filter (fun n => nmem n s
                   || negb (skippable (funseq n ds)) || addr_taken_at_file_scope ds n
                   || existsb (fun g => existsb (refs_item n) (body_of (funseq g ds))) s) (fun_names ds).
Fixpoint iter_n {A} (k : nat) (f : A -> A) (x : A) : A := match k with O => x | S k' => iter_n k' f (f x) end.
Definition closure_live (ds : list decl) (n : nat) : bool := nmem n (iter_n (S (length ds)) (closure_round ds) []).

(* ---------- the symbol table entry of one identifier ---------- *)
Inductive binding := B_local | B_global.
Inductive stype := T_notype | T_object | T_func | T_tls.
Inductive place := P_undef | P_common | P_text | P_data | P_bss | P_tdata | P_tbss.
Record entry := mkEntry { e_bind : binding; e_type : stype; e_place : place; e_size : option Z; e_align : option Z }.

Definition bind_of (l : option linkage) : binding := match l with Some L_internal => B_local | _ => B_global end.
(* x86-64 psABI 3.1.2: an array variable of at least 16 bytes has alignment at least 16 *)
Definition abi_align (arr : bool) (size align : Z) : Z := if arr && (16 <=? size)%Z then Z.max 16 align else align.

(* is n referred to by something that is emitted: the body of an emitted function definition, or the
   initializer of an object definition *)
Definition referenced (live : nat -> bool) (ds : list decl) (n : nat) : bool :=
  existsb (fun d => match d with
                    | DObj _ od => match o_init od with IAddr t => Nat.eqb t n | _ => false end
                    | DFun g _ _ _ (Some b) => live g && existsb (refs_item n) b
                    | _ => false
                    end) ds.

(* 6.7.5: the alignment of the object is the strictest one its declarations ask for *)
Definition decl_align (d : objdecl) : Z := match o_alignas d with Some a => a | None => o_align d end.
Definition obj_align (s : list objdecl) : Z :=
  match s with [] => 1%Z | d :: r => fold_left Z.max (map decl_align r) (decl_align d) end.

Definition obj_entry (o : opts) (s : list objdecl) (refd : bool) : option entry :=
  match s with
  | [] => None
  | d :: _ =>
    let lk := obj_linkage s in
    let tls := o_tls d in
    let ty := if tls then T_tls else T_object in
    let al := abi_align (o_array d) (o_size d) (obj_align s) in
    if existsb is_real_def s then
      Some (mkEntry (bind_of lk) ty (if tls then P_tdata else P_data) (Some (o_size d)) (Some al))
    else if existsb is_tentative_def s then
      if fcommon o && negb tls && match lk with Some L_internal => false | _ => true end
      then Some (mkEntry B_global T_object P_common (Some (o_size d)) (Some al))
      else Some (mkEntry (bind_of lk) ty (if tls then P_tbss else P_bss) (Some (o_size d)) (Some al))
    else if refd then Some (mkEntry B_global (if tls then T_tls else T_notype) P_undef None None)
    else None
  end.

Definition fun_entry (s : list fundecl) (is_live refd : bool) : option entry :=
  match s with
  | [] => None
  | _ :: _ =>
    if existsb has_body s then
      match fun_linkage s with
      | Some L_internal => if is_live then Some (mkEntry B_local T_func P_text None None) else None
      | _ => if inline_definition_only s
             then (if is_live then Some (mkEntry B_local T_func P_text None None) else None)      (* choice (ii) *)
             else Some (mkEntry B_global T_func P_text None None)                                (* external definition *)
      end
    else if refd then Some (mkEntry B_global T_notype P_undef None None)
    else None
  end.

Definition spec_entry (live : nat -> bool) (ds : list decl) (o : opts) (n : nat) : option entry :=
  match funseq n ds with
  | [] => obj_entry o (objseq n ds) (referenced live ds n)
  | s => fun_entry s (live n) (referenced live ds n)
  end.

(* the table as nm / readelf -s list it: one line per declared identifier that has an entry *)
Definition declared_names (ds : list decl) : list nat := nodup Nat.eq_dec (map decl_name ds).
Definition spec_symtab (live : nat -> bool) (ds : list decl) (o : opts) : list (nat * entry) :=
  flat_map (fun n => match spec_entry live ds o n with Some e => [(n, e)] | None => [] end) (declared_names ds).

(* ---------- block-scope statics and string literals: no linkage (6.2.2p6), static or thread
   storage duration (6.2.4); they get no symbol-table entry, but they are placed ---------- *)
Record anon_obj := mkAnon { a_place : place; a_size : Z; a_align : Z }.
Definition anon_of_item (b : bitem) : list anon_obj :=
  match b with
  | BRef _ => []
  | BStatic tls sz al arr hi =>
      [mkAnon (if tls then (if hi then P_tdata else P_tbss) else (if hi then P_data else P_bss)) sz (abi_align arr sz al)]
  | BString sz => [mkAnon P_data sz (abi_align true sz 1)]
  end.
(* in source order; every function definition first gets the two arrays __func__ and __FUNCTION__.
   Choice (v): the block-scope statics of a function that is not emitted are not placed either (nothing can reach them);
   the strings and the __func__ arrays of such a function are still placed (chibicc does, harmlessly) *)
Definition spec_anon (live : nat -> bool) (ds : list decl) : list anon_obj :=
  flat_map (fun d => match d with
                     | DFun g _ _ fsz (Some b) =>
                         mkAnon P_data fsz (abi_align true fsz 1) :: mkAnon P_data fsz (abi_align true fsz 1)
                         :: flat_map (fun i => match i with BStatic _ _ _ _ _ => if live g then anon_of_item i else [] | _ => anon_of_item i end) b
                     | _ => []
                     end) ds.

(* ---------- which translation units are valid C (and within the modelled fragment) ---------- *)
Definition od_same_type (a b : objdecl) : bool :=
  Bool.eqb (o_tls a) (o_tls b) && (o_size a =? o_size b)%Z && (o_align a =? o_align b)%Z && Bool.eqb (o_array a) (o_array b).

(* 6.7.5p4/p7: a specifier is not less strict than the type's alignment, all specifiers of an object are
   equivalent, and (p7 as gcc reads it: the specifier need not be repeated on later declarations, but) no
   defining declaration comes before the first declaration that carries it *)
(* a declaration that can be the definition of the object: tentative or with an initializer *)
Definition is_defining (d : objdecl) : bool := negb (sc_eqb (o_sc d) SC_extern) || has_init (o_init d).
Definition has_spec (d : objdecl) : bool := match o_alignas d with Some _ => true | None => false end.
Definition first_spec (s : list objdecl) : option Z :=
  fold_right (fun d acc => match o_alignas d with Some a => Some a | None => acc end) None s.
Fixpoint spec_positions (seen : bool) (s : list objdecl) : bool :=
  match s with
  | [] => true
  | d :: r => let seen' := seen || has_spec d in (negb (is_defining d) || seen') && spec_positions seen' r
  end.
Definition align_ok (s : list objdecl) : bool :=
  match first_spec s with
  | None => true
  | Some a0 => forallb (fun x => match o_alignas x with Some a => (a =? a0)%Z && (o_align x <=? a)%Z | None => true end) s
               && spec_positions false s
  end.

Definition valid_objseq (s : list objdecl) : bool :=
  match s with
  | [] => true
  | d :: _ =>
    forallb (od_same_type d) s                                              (* compatible types, 6.2.7p2 *)
    && link_consistent (fun p x => obj_link_step p (o_sc x)) None s         (* 6.2.2p7 *)
    && (length (filter is_real_def s) <=? 1)%nat                            (* 6.9p3/p5: one definition *)
    && forallb (fun x => (0 <? o_size x)%Z && (0 <? o_align x)%Z
                         && match o_init x with IAddr _ => (8 <=? o_size x)%Z | _ => true end) s
    && align_ok s
  end.
Definition valid_funseq (s : list fundecl) : bool :=
  link_consistent (fun p x => fun_link_step p (fd_sc x)) None s              (* 6.2.2p7 *)
  && (length (filter has_body s) <=? 1)%nat.                                (* one definition *)

(* every identifier is declared before it is used; an identifier is a function or an object, not both *)
Fixpoint declared_before_use (seen : list nat) (ds : list decl) : bool :=
  match ds with
  | [] => true
  | DObj n od :: r =>
      match o_init od with IAddr t => nmem t (n :: seen) | _ => true end
      && declared_before_use (n :: seen) r
  | DFun n _ _ _ b :: r =>
      match b with
      | Some items => forallb (fun i => match i with BRef m => nmem m (n :: seen) | _ => true end) items
      | None => true
      end
      && declared_before_use (n :: seen) r
  end.
Definition kinds_exclusive (ds : list decl) : bool :=
  forallb (fun n => match funseq n ds, objseq n ds with _ :: _, _ :: _ => false | _, _ => true end) (map decl_name ds).

Definition obj_tls_of (ds : list decl) (n : nat) : bool := match objseq n ds with d :: _ => o_tls d | [] => false end.

Definition valid (ds : list decl) : bool :=
  declared_before_use [] ds && kinds_exclusive ds
  && forallb (fun n => valid_objseq (objseq n ds) && valid_funseq (funseq n ds)) (map decl_name ds)
  && forallb (fun d => match d with
                       | DObj _ od => match o_init od with
                                      | IAddr t => negb (obj_tls_of ds t)          (* 6.6p9: not an address constant *)
                                      | _ => true end
                       | DFun _ _ _ fsz (Some b) =>
                           (0 <? fsz)%Z && forallb (fun i => match i with
                                                            | BStatic _ sz al _ _ => (0 <? sz)%Z && (0 <? al)%Z
                                                            | BString sz => (0 <? sz)%Z
                                                            | BRef _ => true end) b
                       | _ => true
                       end) ds.

(* ---------- how the address of an identifier may be formed ----------
   x86-64 psABI (small code model) and the ELF TLS ABI:
     frame        off(%rbp)                     objects with automatic storage duration only
     pc-relative  lea sym(%rip)                 needs the symbol's address at static link time: position-dependent
                                                code only (in a shared object a global symbol can be pre-empted);
                                                for a function that is only declared the call may have to go through
                                                the PLT, so this form is used for functions only when defined here
     GOT          mov sym@GOTPCREL(%rip)        always valid for objects of static storage duration and functions
     TLS general dynamic  lea sym@tlsgd(%rip),%rdi; call __tls_get_addr@PLT     valid in every module
     TLS local exec       mov %fs:0; add $sym@tpoff                             valid only in the executable itself,
                                                                                 i.e. never in position-independent code *)
Inductive storage := St_automatic | St_static | St_thread.          (* 6.2.4 *)
Record ident_class := mkIC { ic_storage : storage; ic_vla : bool; ic_function : bool; ic_defined_here : bool }.
Inductive access := A_frame | A_frame_pointer | A_pcrel | A_got | A_tls_gd | A_tls_le.

Definition access_valid (pic : bool) (c : ident_class) (a : access) : bool :=
  match ic_storage c, a with
  | St_automatic, A_frame => negb (ic_vla c)
  | St_automatic, A_frame_pointer => ic_vla c             (* a VLA is reached through the pointer alloca returned *)
  | St_static, A_got => true
  | St_static, A_pcrel => negb pic && (negb (ic_function c) || ic_defined_here c)
  | St_thread, A_tls_gd => true
  | St_thread, A_tls_le => negb pic
  | _, _ => false
  end.
(* the cheapest valid form *)
Definition preferred_access (pic : bool) (c : ident_class) : access :=
  match ic_storage c with
  | St_automatic => if ic_vla c then A_frame_pointer else A_frame
  | St_thread => if pic then A_tls_gd else A_tls_le
  | St_static => if pic then A_got else if ic_function c && negb (ic_defined_here c) then A_got else A_pcrel
  end.
