(* C05 (package initcur): the abstract input of an initialization, shared by Spec/InitSpec.v (C11 6.7.9)
   and Model/InitCursor.v (parse.c).  No tokens: an initializer is an expression (an opaque id) or a
   brace-enclosed list of items, an item is a designator list (possibly empty) and an initializer.

   `items` is a list of pairs (list desig * init) written as its own inductive type so that `init`
   and `items` are MUTUALLY inductive (plain structural recursion and `Scheme` work; with a nested
   `list (list desig * init)` neither does).  `items_of_list` / `list_of_items` convert.

   Types: scalars (the tag only selects the C spelling int/char/long in the tie and whether a string
   literal may initialize an array of them), arrays of known (`Some n`) or unknown (`None`) length,
   structs and unions as member lists.  A member is named by its INDEX: struct_designator's search
   by name (first member whose name matches) is abstracted to the index it finds.
   Not represented: bit-fields, anonymous struct/union members, expressions of struct/union type
   (`struct T x = y;`), floating/pointer leaves (the cursor logic does not look at the scalar kind). *)
From Coq Require Import List Arith Bool.
Import ListNotations.

Inductive ty : Type :=
| TScalar (k : nat)                      (* 0 int, 1 char, 2 long *)
| TArray (n : option nat) (elem : ty)    (* None: unknown bound / flexible array member *)
| TStruct (ms : list ty)
| TUnion (ms : list ty).

Inductive desig : Type :=
| DIndex (i : nat)                       (* [i] *)
| DRange (a b : nat)                     (* [a ... b]   (GNU) *)
| DField (m : nat).                      (* .name of the member with index m *)

Inductive init : Type :=
| IExpr (e : nat)                        (* an assignment-expression of scalar type; e identifies it *)
| IStr (s : list nat)                    (* a string literal; s = its elements INCLUDING the final 0 *)
| IList (l : items)                      (* { item , item , ... } *)
with items : Type :=
| INil
| ICons (ds : list desig) (v : init) (tl : items).

Scheme init_items_ind := Induction for init Sort Prop
  with items_init_ind := Induction for items Sort Prop.
Combined Scheme init_items_mutind from init_items_ind, items_init_ind.

Fixpoint items_of_list (l : list (list desig * init)) : items :=
  match l with [] => INil | (ds, v) :: tl => ICons ds v (items_of_list tl) end.
Fixpoint list_of_items (l : items) : list (list desig * init) :=
  match l with INil => [] | ICons ds v tl => (ds, v) :: list_of_items tl end.
Fixpoint ilength (l : items) : nat :=
  match l with INil => 0 | ICons _ _ tl => S (ilength tl) end.

(* a path names a subobject: array indices / member indices from the object inwards *)
Notation path := (list nat) (only parsing).

(* one result format for both sides: the scalar leaves of the (completed) object in canonical order
   (array elements ascending, struct members in declaration order, of a union only the member that
   is initialized), each with `Some v` (initialized with v) or `None` (zero) *)
Inductive val : Type :=
| VExpr (e : nat)                        (* the value of expression e *)
| VChar (c : nat).                       (* element c of a string literal *)
Definition leaves := list (path * option val).
