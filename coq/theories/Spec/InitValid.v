(* C05 (package initcur): `valid T v` - the inputs the equality theorem speaks about.  A decidable predicate
   (a boolean function), written with the SAME cursor as Spec/InitSpec.v:

     wf_top T      the type is a C11 object type of this syntax: arrays have at least one element, structs
                   and unions at least one member (6.7.2.1p8, 6.7.6.2p1); an unknown bound only at the top;
     ok_init       the constraints of 6.7.9: a scalar's braces hold exactly one expression (p11); no empty
                   braces (C11 grammar); no initializer for something outside the object (p2: no excess
                   items, designators name existing members / indices below the bound); a union's braces
                   hold exactly one item (chibicc accepts no more - a limitation, see DELIVERY);
                   a string literal only where it initializes an array of character type (p14), possibly
                   reached by elision through first members / first elements (`str_ok`);
                   of the GNU range designators those that END a designator list and whose initializer is for one
                   element (`split_range`, `range_ok`);
                   no flexible array members: outside `valid`, tied only;
     clean         the two documented deviations of parse.c are not triggered:
                     (1) a braced initializer for an aggregate some part of which an EARLIER item already
                         initialized (chibicc merges, 6.7.9p19 replaces);
                     (2) initializers for two different members of the same union object. *)
From Coq Require Import List Arith Bool.
From Chibicc Require Import Spec.InitSyntax Spec.InitSpec.
Import ListNotations.

Fixpoint wf (U : ty) : bool :=
  match U with
  | TScalar _ => true
  | TArray None _ => false
  | TArray (Some n) e => (0 <? n) && wf e
  | TStruct ms => match ms with [] => false | _ => forallb wf ms end
  | TUnion ms => match ms with [] => false | _ => forallb wf ms end
  end.

Definition wf_top (T : ty) : bool :=
  match T with
  | TArray None e => wf e
  | _ => wf T
  end.

Definition no_range (ds : list desig) : bool :=
  forallb (fun d => match d with DRange _ _ => false | _ => true end) ds.

(* p14 + p20: a string literal is for an array of character type; it may reach it by brace elision through first
   members of structs / unions and first elements of arrays: `struct { char s[2][3]; } x = { "ab" };` *)
Fixpoint str_ok (W : ty) : bool :=
  match W with
  | TScalar _ => false
  | TArray n e => in_bound n 0 && (is_char_array W || str_ok e)
  | TStruct ms => match ms with [] => false | m :: _ => str_ok m end
  | TUnion ms => match ms with [] => false | m :: _ => str_ok m end
  end.

(* the form of a GNU range designator inside `valid`: the range is the LAST designator of the list
   (`[a ... b] = v`, `[1][2 ... 4] = v`, `.m[0 ... 1] = v`), the designators before it are plain, a <= b below the
   bound, and v is an initializer that is consumed by ONE element (a braced list, an expression for a scalar element,
   a string literal for a character-array element).  Other uses (a range followed by further designators, an
   expression that brace elision spreads over an aggregate element) are gcc-defined at best and outside `valid`:
   parse.c replays the items that follow for every index of the range there. *)
Definition single (e : ty) (v : init) : bool :=
  match v with
  | IList _ => true
  | IExpr _ => match e with TScalar _ => true | _ => false end
  | IStr _ => is_char_array e
  end.
Definition range_ok (U : ty) (a b : nat) (v : init) : bool :=
  match U with
  | TArray n e => (a <=? b) && in_bound n b && single e v
  | _ => false
  end.

(* ds = ds1 ++ [DRange a b] *)
Fixpoint split_range (ds : list desig) : option (list desig * nat * nat) :=
  match ds with
  | [] => None
  | [DRange a b] => Some ([], a, b)
  | d :: ds' => match split_range ds' with Some (ds1, a, b) => Some (d :: ds1, a, b) | None => None end
  end.

Fixpoint ok_init (U : ty) (p : path) (v : init) {struct v} : bool :=
  match v with
  | IExpr _ => match sub U p with Some _ => true | None => false end
  | IStr s => match s with [] => false | _ => match sub U p with Some W => str_ok W | None => false end end
  | IList l =>
      match sub U p with
      | None => false
      | Some (TScalar _) => match l with ICons [] (IExpr _) INil => true | _ => false end
      | Some (TUnion ms) =>
          match l with
          | ICons _ _ INil => ok_items (TUnion ms) (Some [0]) l
          | _ => false
          end
      | Some W =>
          match l with
          | INil => false
          | ICons [] (IStr s) INil =>
              if is_char_array W then match s with [] => false | _ => str_ok W end    (* p14: { "..." } *)
              else ok_items W (Some [0]) l
          | _ => ok_items W (Some [0]) l
          end
      end
  end
with ok_items (U : ty) (c : option path) (l : items) {struct l} : bool :=
  match l with
  | INil => true
  | ICons ds v tl =>
      match ds with
      | [] =>
          match c with
          | None => false
          | Some p => ok_init U p v && ok_items U (next U (snd (spec_init U p v))) tl
          end
      | _ =>
          match split_range ds with
          | Some (ds1, a, b) =>   (* GNU: <designators> [a ... b] = v, v an initializer for exactly one element *)
              no_range ds1 &&
              match targets U ds1 with
              | [p1] =>
                  match sub U p1 with
                  | Some W1 => range_ok W1 a b v && ok_init U (p1 ++ [b]) v
                               && ok_items U (next U (snd (spec_init U (p1 ++ [b]) v))) tl
                  | None => false
                  end
              | _ => false
              end
          | None =>
              no_range ds &&
              match targets U ds with
              | [p] => ok_init U p v && ok_items U (next U (snd (spec_init U p v))) tl
              | _ => false
              end
          end
      end
  end.

(* (1): when `Clear q` is logged nothing has been logged yet for q or a part of q *)
Definition event_path (e : event) : path := match e with Set_ p _ => p | Clear p => p end.

Fixpoint clean_clear (seen : list path) (ev : list event) : bool :=
  match ev with
  | [] => true
  | Set_ p x :: ev' => clean_clear (p :: seen) ev'
  | Clear q :: ev' => forallb (fun p => negb (is_prefix q p)) seen && clean_clear (q :: seen) ev'
  end.

(* (2): no two events in different members of one union *)
Definition clean_union (T : ty) (ev : list event) : bool :=
  forallb (fun e1 => forallb (fun e2 => negb (diverge_at_union T (event_path e1) (event_path e2))) ev) ev.

Definition clean (T : ty) (ev : list event) : bool := clean_clear [] ev && clean_union T ev.

(* the initializer of the whole object: an aggregate or union takes a braced list (p16), a character array also a
   string literal (p14), a scalar an expression, optionally braced (p11).  (`struct S s = 5;`, `int x[] = 5;` and
   `char a[2][4] = "abc";` are not C; chibicc accepts some of them.) *)
Definition top_ok (T : ty) (v : init) : bool :=
  match v with
  | IList _ => true
  | IExpr _ => match T with TScalar _ => true | _ => false end
  | IStr _ => is_char_array T
  end.

Definition valid (T : ty) (v : init) : bool :=
  wf_top T && top_ok T v && ok_init T [] v && clean T (spec_events T v).
