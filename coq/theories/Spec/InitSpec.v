(* C05 (package initcur): C11 6.7.9 paragraphs 10-23, "which initializer initializes which subobject",
   written the way the standard words it and NOT the way parse.c computes it:

     * every brace-enclosed list has ONE loop with a CURSOR, the path of the "current subobject" relative
       to the list's current object (p17); `None` = past the last subobject.
     * an item without designation initializes the subobject at the cursor; a designation makes the
       cursor the designated path, relative to the closest surrounding braces (p17, p18);
     * an item that is an expression initializes a scalar; when the cursor is at an aggregate or union,
       the cursor first descends to its first subobject, repeatedly (p20, p13: no expressions of
       struct/union type in this syntax); the REST of the list then goes on from there: after a
       subobject is done the cursor moves to the `next` one: the following element/member of the
       enclosing aggregate, and when there is none, what follows the enclosing aggregate itself,
       up to the braces' current object (p17 "continues forward in order", p20 "any remaining
       initializers are left to initialize the next element or member of the aggregate of which the
       current subaggregate or contained union is a part");  a union has one initializable member,
       after which it is done;
     * an item that is a braced list at an aggregate or union initializes THAT subobject completely
       (p20 first case, p16) - recorded as `Clear p` followed by what the inner list says, since
       whatever an earlier item gave to parts of p is overridden (p19) and what the inner list does
       not mention is zero (p21);   a scalar may be wrapped in braces (p11);
     * a string literal initializes an array of character type, the terminating null only if there
       is room or the bound is unknown (p14); it initializes the whole array: the elements behind it are
       (explicitly) zero, also when an earlier item had given them a value (p19, p21);
     * the result is a LOG of events in list order; the value of a leaf is decided by the LAST event
       that concerns it (p19 "initialization shall occur in initializer list order, each initializer
       overriding any previously listed initializer for the same subobject"), a leaf no event
       concerns is zero (p19, p21, p10).  Members of a union overlap, so an event for one member
       overrides the events for the others;  the member a union object holds is the one of its last event;
     * unknown bound: largest index with an explicit initializer, plus one (p22); the same rule gives
       the GNU size of an initialized flexible array member.
     * GNU ranges `[a ... b]` (gcc's semantics): the item is applied to every designated element;
       the list goes on after the LAST one.

   `spec T v` is the object of type T after `T x = v;` as its leaves in canonical order.  *)
From Coq Require Import List Arith Bool.
From Chibicc Require Import Spec.InitSyntax.
Import ListNotations.

(* ---- the subobject structure of a type ---- *)

Definition in_bound (n : option nat) (i : nat) : bool :=
  match n with None => true | Some n => i <? n end.

(* the type of element / member i *)
Definition child (U : ty) (i : nat) : option ty :=
  match U with
  | TScalar _ => None
  | TArray n e => if in_bound n i then Some e else None
  | TStruct ms => nth_error ms i
  | TUnion ms => nth_error ms i
  end.

Fixpoint sub (U : ty) (p : path) : option ty :=
  match p with
  | [] => Some U
  | i :: q => match child U i with Some V => sub V q | None => None end
  end.

(* what comes after element / member i of U inside U: the following one; nothing after the last,
   and nothing after the initialized member of a union *)
Definition nxt (U : ty) (i : nat) : option path :=
  match U with
  | TArray n _ => if in_bound n (S i) then Some [S i] else None
  | TStruct ms => if S i <? length ms then Some [S i] else None
  | _ => None
  end.

(* the subobject that follows subobject p of U "in order" *)
Fixpoint next (U : ty) (p : path) : option path :=
  match p with
  | [] => None
  | i :: q =>
      match child U i with
      | None => None
      | Some V => match next V q with
                  | Some q' => Some (i :: q')
                  | None => nxt U i
                  end
      end
  end.

(* p20: descend to the first scalar *)
Fixpoint down (U : ty) : path :=
  match U with
  | TScalar _ => []
  | TArray _ e => 0 :: down e
  | TStruct ms => match ms with [] => [] | m :: _ => 0 :: down m end
  | TUnion ms => match ms with [] => [] | m :: _ => 0 :: down m end
  end.

Fixpoint first_leaf (U : ty) (p : path) : path :=
  match p with
  | [] => down U
  | i :: q => match child U i with Some V => i :: first_leaf V q | None => p end
  end.

(* p14: descend to the first array of character type *)
Definition is_char_array (U : ty) : bool :=
  match U with TArray _ (TScalar 1) => true | _ => false end.

Fixpoint down_str (U : ty) : path :=
  match U with
  | TScalar _ => []
  | TArray _ e => if is_char_array U then [] else 0 :: down_str e
  | TStruct ms => match ms with [] => [] | m :: _ => 0 :: down_str m end
  | TUnion ms => match ms with [] => [] | m :: _ => 0 :: down_str m end
  end.

Fixpoint str_target (U : ty) (p : path) : path :=
  match p with
  | [] => down_str U
  | i :: q => match child U i with Some V => i :: str_target V q | None => p end
  end.

(* ---- events ---- *)

Inductive event : Type :=
| Set_ (p : path) (x : option val)   (* the scalar at p is initialized with x; None: explicitly zero (the part of a
                                      character array behind a string literal, p14 + p21) *)
| Clear (p : path).             (* subobject p is initialized by a braced list: everything earlier for it is void *)

Definition at_ (p : path) (e : event) : event :=
  match e with Set_ q x => Set_ (p ++ q) x | Clear q => Clear (p ++ q) end.

(* what a string literal gives to the char array at q (p14): its characters to the elements from i on while there
   is room, and - the literal initializes the WHOLE array - zero to the elements behind it (p21) *)
Definition zero_fill (q : path) (i : nat) (room : option nat) : list event :=
  match room with
  | Some n => map (fun k => Set_ (q ++ [k]) None) (seq i (n - i))
  | None => []
  end.

Fixpoint string_events (q : path) (i : nat) (room : option nat) (s : list nat) : list event :=
  match s with
  | [] => zero_fill q i room
  | c :: s' => if in_bound room i then Set_ (q ++ [i]) (Some (VChar c)) :: string_events q (S i) room s' else []
  end.

Definition array_bound (W : option ty) : option nat :=
  match W with Some (TArray n _) => n | _ => Some 0 end.

(* p18: the subobjects a designator list describes (one, or several with ranges) *)
Fixpoint targets (U : ty) (ds : list desig) : list path :=
  match ds with
  | [] => [[]]
  | d :: ds' =>
      match d, U with
      | DIndex i, TArray n e => if in_bound n i then map (cons i) (targets e ds') else []
      | DRange a b, TArray n e =>
          if (a <=? b) && in_bound n b
          then flat_map (fun j => map (cons j) (targets e ds')) (seq a (S b - a)) else []
      | DField m, TStruct ms => match nth_error ms m with Some W => map (cons m) (targets W ds') | None => [] end
      | DField m, TUnion ms => match nth_error ms m with Some W => map (cons m) (targets W ds') | None => [] end
      | _, _ => []
      end
  end.

(* spec_init U p v : initializer v for subobject p of U: its events and the subobject that is then done.
   spec_items U c l : the items of a braced list whose current object has type U, cursor c. *)
Fixpoint spec_init (U : ty) (p : path) (v : init) {struct v} : list event * path :=
  match v with
  | IExpr e => let q := first_leaf U p in ([Set_ q (Some (VExpr e))], q)
  | IStr s => let q := str_target U p in (string_events q 0 (array_bound (sub U q)) s, q)
  | IList l =>
      match sub U p with
      | None => ([], p)
      | Some (TScalar _) =>
          match l with ICons [] v' INil => spec_init U p v' | _ => ([], p) end
      | Some W =>
          match l with
          | ICons [] (IStr s) INil =>
              if is_char_array W then (string_events p 0 (array_bound (Some W)) s, p)       (* p14: { "..." } *)
              else (Clear p :: map (at_ p) (spec_items W (Some [0]) l), p)
          | _ => (Clear p :: map (at_ p) (spec_items W (Some [0]) l), p)
          end
      end
  end
with spec_items (U : ty) (c : option path) (l : items) {struct l} : list event :=
  match l with
  | INil => []
  | ICons ds v tl =>
      let ps := match ds with
                | [] => match c with Some p => [p] | None => [] end
                | _ => targets U ds
                end in
      match ps with
      | [] => spec_items U c tl      (* excess item / impossible designator: constraint violations *)
      | _ => flat_map (fun p => fst (spec_init U p v)) ps
             ++ spec_items U (next U (snd (spec_init U (last ps []) v))) tl
      end
  end.

Definition spec_events (T : ty) (v : init) : list event := fst (spec_init T [] v).

(* ---- reading the log ---- *)

Fixpoint path_eqb (p q : path) : bool :=
  match p, q with
  | [], [] => true
  | i :: p', j :: q' => (i =? j) && path_eqb p' q'
  | _, _ => false
  end.

Fixpoint is_prefix (q p : path) : bool :=
  match q, p with
  | [], _ => true
  | i :: q', j :: p' => (i =? j) && is_prefix q' p'
  | _, _ => false
  end.

(* q and p part ways at a union: they are in different, overlapping members *)
Fixpoint diverge_at_union (U : ty) (q p : path) : bool :=
  match q, p with
  | i :: q', j :: p' =>
      if i =? j then match child U i with Some V => diverge_at_union V q' p' | None => false end
      else match U with TUnion _ => true | _ => false end
  | _, _ => false
  end.

Definition step_value (T : ty) (p : path) (cur : option val) (e : event) : option val :=
  match e with
  | Set_ q x => if path_eqb q p then x else if diverge_at_union T q p then None else cur
  | Clear q => if is_prefix q p then None else cur
  end.

(* the value of leaf p: what the last event that concerns it says; zero (None) otherwise *)
Definition value_at (T : ty) (ev : list event) (p : path) : option val :=
  fold_left (step_value T p) ev None.

Fixpoint strip (u q : path) : option path :=
  match u, q with
  | [], _ => Some q
  | i :: u', j :: q' => if i =? j then strip u' q' else None
  | _, _ => None
  end.

Definition step_active (u : path) (cur : nat) (e : event) : nat :=
  match e with
  | Set_ q _ => match strip u q with Some (m :: _) => m | _ => cur end
  | Clear q => match strip u q with Some (m :: _) => m | _ => if is_prefix q u then 0 else cur end
  end.

(* the member the union at u holds: that of the last event inside it (an initializer, braced or not, for a part
   of member m); the first one if there is none or an enclosing aggregate was initialized afresh since *)
Definition active_member (ev : list event) (u : path) : nat :=
  fold_left (step_active u) ev 0.

(* p22: largest index below `pre` with an explicit initializer (an expression for a part of the element, or a
   braced list for the element or a part of it), plus one *)
Definition step_bound (pre : path) (cur : nat) (e : event) : nat :=
  match strip pre (match e with Set_ q _ => q | Clear q => q end) with
  | Some (i :: _) => Nat.max cur (S i)
  | _ => cur
  end.
Definition bound (ev : list event) (pre : path) : nat := fold_left (step_bound pre) ev 0.

Fixpoint complete_last (ms : list ty) (i : nat) (ev : list event) : list ty :=
  match ms with
  | [] => []
  | [TArray None e] => [TArray (Some (bound ev [i])) e]
  | m :: ms' => m :: complete_last ms' (S i) ev
  end.

Definition complete (T : ty) (ev : list event) : ty :=
  match T with
  | TArray None e => TArray (Some (bound ev [])) e
  | TStruct ms => TStruct (complete_last ms 0 ev)
  | _ => T
  end.

(* the leaves of subobject `pre` (of type U) of an object of type T *)
Fixpoint readout (T : ty) (ev : list event) (U : ty) (pre : path) : leaves :=
  match U with
  | TScalar _ => [(pre, value_at T ev pre)]
  | TArray n e => flat_map (fun i => readout T ev e (pre ++ [i])) (seq 0 (match n with Some n => n | None => 0 end))
  | TStruct ms =>
      (fix go (ms : list ty) (i : nat) : leaves :=
         match ms with [] => [] | m :: ms' => readout T ev m (pre ++ [i]) ++ go ms' (S i) end) ms 0
  | TUnion ms =>
      let m := active_member ev pre in
      (fix pick (ms : list ty) (i : nat) : leaves :=
         match ms with
         | [] => []
         | W :: ms' => if i =? m then readout T ev W (pre ++ [i]) else pick ms' (S i)
         end) ms 0
  end.

Definition spec (T : ty) (v : init) : ty * leaves :=
  let ev := spec_events T v in
  let T' := complete T ev in
  (T', readout T' ev T' []).
