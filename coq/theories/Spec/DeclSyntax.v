(* C08 (package decl): the vocabulary shared by Spec/DeclSpec6_7_6.v (C11 6.7.6) and Model/Declarator.v
   (parse.c): identifiers, type qualifiers, the base types a declaration can start from, and the tokens
   a declarator is written with.

   A base type ("leaf") is what the declaration specifiers denote.  declspec() is modelled elsewhere
   (Model/Declspec.v); here a run of declaration specifiers is ONE token [TBase l] naming the type it
   denotes.  [LAgg size align] stands for every other object type (struct, union, enum, unsigned ..,
   float, _Bool, a typedef of them): only its size and alignment matter to this package, and for
   structs/unions they are the numbers of Model/Layout.v.

   Tokens: exactly the ones parse.c's pointers / declarator / abstract_declarator / type_suffix /
   array_dimensions / func_params look at.  [TNum n] is a whole constant expression with value n
   (conditional() + is_const_expr() + eval() are abstracted to their result; variable length arrays
   are outside the model).  [TOther] is any token that none of these functions treats specially
   (`;` `=` `{` `:` ...). *)
From Coq Require Import List ZArith Bool.
Import ListNotations.

Definition ident := nat.

Inductive qual := QConst | QVolatile | QRestrict.

Inductive leaf :=
| LVoid | LChar | LShort | LInt | LLong | LDouble
| LAgg (size align : Z).

Inductive tok :=
| TStar                  (* *   *)
| TLParen | TRParen      (* ( ) *)
| TLBrack | TRBrack      (* [ ] *)
| TNum (n : Z)           (* a constant expression, by value *)
| TIdent (x : ident)
| TQual (q : qual)       (* const volatile restrict *)
| TStatic                (* static (inside [ ]) *)
| TComma
| TEllipsis              (* ... *)
| TBase (l : leaf)       (* the declaration specifiers of a parameter *)
| TOther.

Definition is_void (l : leaf) : bool := match l with LVoid => true | _ => false end.
