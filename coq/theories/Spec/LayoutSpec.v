(* System V x86-64 psABI 3.1.2 (aggregates, unions, bit-fields) as declarative conditions,
   written independently of the C code:
   - each member is placed at the lowest position not before the end of the previous member
     that satisfies its constraint: a multiple of its alignment (of a byte in a packed
     struct); a bit-field must not cross a boundary of a storage unit of its declared type
     (no such constraint in a packed struct); a zero-width bit-field forces the next unit boundary;
   - the struct's alignment is the greatest alignment of its members, unnamed bit-fields
     not counting (1 / the aligned(n) value if packed); its size is the least multiple of
     its alignment that holds all members. *)
From Coq Require Import List NArith Bool.
From Chibicc Require Import Model.Layout.
Import ListNotations.
Local Open Scope N_scope.

Definition least (P : N -> Prop) (p : N) : Prop := P p /\ forall q, P q -> p <= q.

Definition can_start (packed : bool) (cur : N) (m : minfo) (p : N) : Prop :=
  cur <= p /\
  match m_bf m with
  | None => N.divide (if packed then 8 else 8 * m_align m) p
  | Some 0 => N.divide (8 * m_size m) p
  | Some w => packed = true \/ p / (8 * m_size m) = (p + w - 1) / (8 * m_size m)
  end.

Definition bit_len (m : minfo) : N :=
  match m_bf m with Some w => w | None => 8 * m_size m end.

(* absolute bit position denoted by a placement *)
Definition start_bit (pl : place) : N := 8 * p_off pl + p_bit pl.

Inductive psabi_members (packed : bool) : N -> list minfo -> list N -> N -> Prop :=
| pm_nil cur : psabi_members packed cur [] [] cur
| pm_cons cur m r p ps e :
    least (can_start packed cur m) p ->
    psabi_members packed (p + bit_len m) r ps e ->
    psabi_members packed cur (m :: r) (p :: ps) e.

Definition psabi_align (packed : bool) (align0 : N) (ms : list minfo) (a : N) : Prop :=
  if packed then a = align0
  else least (fun x => align0 <= x /\ forall m, In m ms -> unnamed_bf m = false -> m_align m <= x) a.

Definition psabi_size (end_bits align size : N) : Prop :=
  least (fun s => end_bits <= 8 * s /\ N.divide align s) size.
