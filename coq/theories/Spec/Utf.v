(* Specifications transcribed from the documents, independently of the C code:
   - RFC 3629 section 3 (UTF-8 bit distribution table),
   - RFC 2781 section 2.1 / ISO 10646 (UTF-16 surrogate pairs),
   - C11 (N1570) Annex D.1 / D.2 (universal character names allowed in identifiers). *)
From Coq Require Import List NArith Bool.
From Chibicc Require Import Model.Unicode.
Import ListNotations.
Local Open Scope N_scope.

(* RFC 3629:  0000-007F | 0xxxxxxx
              0080-07FF | 110xxxxx 10xxxxxx
              0800-FFFF | 1110xxxx 10xxxxxx 10xxxxxx
          10000-10FFFF  | 11110xxx 10xxxxxx 10xxxxxx 10xxxxxx
   written with division and remainder (the x bits, most significant first) *)
Definition rfc3629 (c : N) : list N :=
  if c <? 128 then [c]
  else if c <? 2048 then [192 + c / 64; 128 + c mod 64]
  else if c <? 65536 then [224 + c / 4096; 128 + (c / 64) mod 64; 128 + c mod 64]
  else [240 + c / 262144; 128 + (c / 4096) mod 64; 128 + (c / 64) mod 64; 128 + c mod 64].

Definition scalar_value (c : N) : Prop := c < 55296 \/ (57343 < c /\ c < 1114112).

(* UTF-16: U' = U - 0x10000 (20 bits); W1 = 0xD800 + high ten bits; W2 = 0xDC00 + low ten bits *)
Definition utf16_spec (c : N) : list N :=
  if c <? 65536 then [c] else [55296 + (c - 65536) / 1024; 56320 + (c - 65536) mod 1024].

Definition utf16_decode (units : list N) : option N :=
  match units with
  | [u] => Some u
  | [w1; w2] => Some (65536 + (w1 - 55296) * 1024 + (w2 - 56320))
  | _ => None
  end.

(* Annex D.1: ranges of characters allowed in identifiers *)
Definition annex_d1 : list (N * N) :=
  [(0x00A8,0x00A8); (0x00AA,0x00AA); (0x00AD,0x00AD); (0x00AF,0x00AF); (0x00B2,0x00B5);
   (0x00B7,0x00BA); (0x00BC,0x00BE); (0x00C0,0x00D6); (0x00D8,0x00F6); (0x00F8,0x00FF);
   (0x0100,0x167F); (0x1681,0x180D); (0x180F,0x1FFF);
   (0x200B,0x200D); (0x202A,0x202E); (0x203F,0x2040); (0x2054,0x2054); (0x2060,0x206F);
   (0x2070,0x218F); (0x2460,0x24FF); (0x2776,0x2793); (0x2C00,0x2DFF); (0x2E80,0x2FFF);
   (0x3004,0x3007); (0x3021,0x302F); (0x3031,0x303F);
   (0x3040,0xD7FF);
   (0xF900,0xFD3D); (0xFD40,0xFDCF); (0xFDF0,0xFE44); (0xFE47,0xFFFD);
   (0x10000,0x1FFFD); (0x20000,0x2FFFD); (0x30000,0x3FFFD); (0x40000,0x4FFFD);
   (0x50000,0x5FFFD); (0x60000,0x6FFFD); (0x70000,0x7FFFD); (0x80000,0x8FFFD);
   (0x90000,0x9FFFD); (0xA0000,0xAFFFD); (0xB0000,0xBFFFD); (0xC0000,0xCFFFD);
   (0xD0000,0xDFFFD); (0xE0000,0xEFFFD)].

(* Annex D.2: ranges of characters disallowed initially *)
Definition annex_d2 : list (N * N) :=
  [(0x0300,0x036F); (0x1DC0,0x1DFF); (0x20D0,0x20FF); (0xFE20,0xFE2F)].

(* 6.4.2.1: identifier-nondigit = _ a-z A-Z (and, as a documented GNU extension that
   chibicc follows, $) or a universal character of D.1; the first one not from D.2 *)
Definition ascii_nondigit : list (N * N) := [(95,95); (97,122); (65,90); (36,36)].
Definition ascii_digit : list (N * N) := [(48,57)].

Definition spec_ident_start (c : N) : bool :=
  in_range ascii_nondigit c || (in_range annex_d1 c && negb (in_range annex_d2 c)).
Definition spec_ident_cont (c : N) : bool :=
  in_range ascii_nondigit c || in_range ascii_digit c || in_range annex_d1 c.
