(* C11 (N1570) 6.4.4.4 character constants and escape sequences, 6.4.5 string literals,
   6.4.4.1 integer constants (grammar and value), 6.4.3 universal character names - written
   from the grammar: every syntactic category is an abstract syntax tree together with its
   SPELLING (tree -> characters) and its VALUE (tree -> number).  Nothing here scans text from
   left to right; a spelling is in the language iff some valid tree spells it.
   Characters are their ASCII / UTF-8 byte values (N), code points are N.
   LP64 / chibicc's documented choices of the implementation-defined points:
   plain char is signed 8 bit, wchar_t = int, char16_t = unsigned short, char32_t = unsigned int,
   execution character set = UTF-8 (narrow), UTF-16 (u), UTF-32 (U, L).
   Extensions that chibicc documents and that are kept in the grammar, marked [GNU]:
   the escape \e (= 27) and binary constants 0b / 0B. *)
From Coq Require Import List NArith ZArith Bool.
From Chibicc Require Import Model.Unicode Spec.Utf Model.IntLit Spec.IntLitSpec.
Import ListNotations.
Local Open Scope N_scope.

(* ------------------------------------------------------------------ *)
(* digits: the characters and their values, as a table                 *)
(* ------------------------------------------------------------------ *)
Definition digit_table : list (N * N) :=
  [(48,0); (49,1); (50,2); (51,3); (52,4); (53,5); (54,6); (55,7); (56,8); (57,9);   (* 0-9 *)
   (97,10); (98,11); (99,12); (100,13); (101,14); (102,15);                           (* a-f *)
   (65,10); (66,11); (67,12); (68,13); (69,14); (70,15)].                             (* A-F *)

Definition digit_value (ch : N) : option N :=
  match find (fun e => fst e =? ch) digit_table with Some e => Some (snd e) | None => None end.

(* ch is a digit of the given base (2, 8, 10, 16) *)
Definition is_digit_of (base : N) (ch : N) : bool :=
  match digit_value ch with Some d => d <? base | None => false end.

Definition dval (ch : N) : N := match digit_value ch with Some d => d | None => 0 end.

(* value of a digit sequence, most significant digit first: sum of d_i * base^(n-1-i) *)
Definition digits_value (base : N) (ds : list N) : N :=
  fold_left (fun acc ch => acc * base + dval ch) ds 0.

(* ------------------------------------------------------------------ *)
(* 6.4.4.4 escape sequences                                            *)
(* ------------------------------------------------------------------ *)
Inductive simple_esc := SQuote | DQuote | Quest | Backslash | EscA | EscB | EscF | EscN | EscR | EscT | EscV.

Inductive escape :=
| ESimple (e : simple_esc)     (* \' \dquote \? \\ \a \b \f \n \r \t \v *)
| EGnuE                        (* [GNU] \e *)
| EOct (ds : list N)           (* \ooo : one to three octal digits *)
| EHex (ds : list N).          (* \xh... : one or more hexadecimal digits *)

(* the character written after the backslash *)
Definition simple_char (e : simple_esc) : N :=
  match e with
  | SQuote => 39 | DQuote => 34 | Quest => 63 | Backslash => 92
  | EscA => 97 | EscB => 98 | EscF => 102 | EscN => 110 | EscR => 114 | EscT => 116 | EscV => 118
  end.

(* 5.2.2 + ASCII: alert 7, backspace 8, form feed 12, new line 10, carriage return 13,
   horizontal tab 9, vertical tab 11; \' \dquote \? \\ stand for themselves *)
Definition simple_value (e : simple_esc) : N :=
  match e with
  | SQuote => 39 | DQuote => 34 | Quest => 63 | Backslash => 92
  | EscA => 7 | EscB => 8 | EscF => 12 | EscN => 10 | EscR => 13 | EscT => 9 | EscV => 11
  end.

(* spelling, without the leading backslash *)
Definition spell_escape_body (e : escape) : list N :=
  match e with
  | ESimple s => [simple_char s]
  | EGnuE => [101]
  | EOct ds => ds
  | EHex ds => 120 :: ds
  end.
Definition spell_escape (e : escape) : list N := 92 :: spell_escape_body e.

Definition valid_escape (e : escape) : bool :=
  match e with
  | ESimple _ | EGnuE => true
  | EOct ds => (1 <=? length ds)%nat && (length ds <=? 3)%nat && forallb (is_digit_of 8) ds
  | EHex ds => (1 <=? length ds)%nat && forallb (is_digit_of 16) ds
  end.

(* 6.4.4.4p5,6: the numerical value of the octal / hexadecimal integer so formed *)
Definition escape_value (e : escape) : N :=
  match e with
  | ESimple s => simple_value s
  | EGnuE => 27
  | EOct ds => digits_value 8 ds
  | EHex ds => digits_value 16 ds
  end.

(* 6.4.4.4p7: "Each octal or hexadecimal escape sequence is the longest sequence of characters
   that can constitute the escape sequence": the escape can end in front of character [next]
   only if [next] could not prolong it *)
Definition escape_ends_before (e : escape) (next : N) : bool :=
  match e with
  | EOct ds => (length ds =? 3)%nat || negb (is_digit_of 8 next)
  | EHex _ => negb (is_digit_of 16 next)
  | _ => true
  end.

(* ------------------------------------------------------------------ *)
(* elements of character constants and string literals                 *)
(* ------------------------------------------------------------------ *)
(* after translation phase 1-2 and the replacement of universal character names: a c-char /
   s-char is a source character (a code point, written in UTF-8) or an escape sequence *)
Inductive item :=
| IChr (c : N)
| IEsc (e : escape).

Definition is_scalar (c : N) : bool := (c <? 55296) || ((57343 <? c) && (c <? 1114112)).

Definition spell_item (it : item) : list N :=
  match it with
  | IChr c => rfc3629 c
  | IEsc e => spell_escape e
  end.
Definition spell_items (l : list item) : list N := concat (map spell_item l).

(* [q] is the delimiter: 34 for string literals, 39 for character constants.
   s-char: any source character except the double quote, backslash, new-line (and NUL, which
   ends chibicc's input buffer); c-char likewise with the single quote *)
Definition valid_item (q : N) (it : item) : bool :=
  match it with
  | IChr c => is_scalar c && negb (c =? 0) && negb (c =? 10) && negb (c =? 92) && negb (c =? q)
  | IEsc e => valid_escape e
  end.

Definition first_byte (sp : list N) (dflt : N) : N := match sp with b :: _ => b | [] => dflt end.

(* maximal munch between neighbours (6.4.4.4p7); [q] follows the last element *)
Fixpoint munch_ok (q : N) (l : list item) : bool :=
  match l with
  | [] => true
  | it :: rest =>
    (match it with
     | IEsc e => escape_ends_before e (first_byte (spell_items rest) q)
     | IChr _ => true
     end) && munch_ok q rest
  end.

Definition valid_items (q : N) (l : list item) : bool := forallb (valid_item q) l && munch_ok q l.

(* ------------------------------------------------------------------ *)
(* 6.4.5 string literals                                               *)
(* ------------------------------------------------------------------ *)
Inductive sprefix := SPnone | SPu8 | SPu | SPU | SPL.
Inductive elem_ty := ElChar | ElU16 | ElU32 | ElWchar.      (* char, char16_t, char32_t, wchar_t (= int) *)

Definition spell_sprefix (p : sprefix) : list N :=
  match p with SPnone => [] | SPu8 => [117; 56] | SPu => [117] | SPU => [85] | SPL => [76] end.

(* 6.4.5p6: element type per prefix *)
Definition string_elem_ty (p : sprefix) : elem_ty :=
  match p with SPnone | SPu8 => ElChar | SPu => ElU16 | SPU => ElU32 | SPL => ElWchar end.

Definition elem_bits (t : elem_ty) : N :=
  match t with ElChar => 8 | ElU16 => 16 | ElU32 | ElWchar => 32 end.

(* 6.4.4.4p9: the value of an octal or hexadecimal escape shall be in the range of the unsigned
   type corresponding to the element type *)
Definition escape_in_range (bits : N) (e : escape) : bool := escape_value e <? 2 ^ bits.

(* the code units (as unsigned numbers of the element width) one element contributes:
   a source character is encoded in the execution encoding of the prefix (UTF-8 / UTF-16 /
   UTF-32), an escape sequence is one unit with its value (6.4.5p6, 6.4.4.4) *)
Definition item_units (p : sprefix) (it : item) : list N :=
  match it with
  | IChr c =>
    match p with
    | SPnone | SPu8 => rfc3629 c
    | SPu => utf16_spec c
    | SPU | SPL => [c]
    end
  | IEsc e => [escape_value e]
  end.

(* 6.4.5p6: the array is initialised with the sequence of units, and a terminating zero *)
Definition spec_string_units (p : sprefix) (l : list item) : list N :=
  concat (map (item_units p) l) ++ [0].

Definition items_in_range (p : sprefix) (l : list item) : bool :=
  forallb (fun it => match it with IEsc e => escape_in_range (elem_bits (string_elem_ty p)) e | IChr _ => true end) l.

(* the spelling of a whole literal *)
Definition spell_string (p : sprefix) (l : list item) : list N :=
  spell_sprefix p ++ 34 :: spell_items l ++ [34].

(* ------------------------------------------------------------------ *)
(* 6.4.4.4 character constants (one element)                           *)
(* ------------------------------------------------------------------ *)
Inductive cprefix := CPnone | CPu | CPU | CPL.
Inductive char_ty := CtInt | CtU16 | CtU32.      (* int, unsigned short (char16_t), unsigned int (char32_t) *)

Definition spell_cprefix (p : cprefix) : list N :=
  match p with CPnone => [] | CPu => [117] | CPU => [85] | CPL => [76] end.

(* 6.4.4.4p10,11: type int; wchar_t (= int); char16_t; char32_t *)
Definition char_const_ty (p : cprefix) : char_ty :=
  match p with CPnone | CPL => CtInt | CPu => CtU16 | CPU => CtU32 end.

Definition sext (bits : N) (v : N) : Z :=        (* v < 2^bits read as a two's complement number *)
  if v <? 2 ^ (bits - 1) then Z.of_N v else Z.of_N v - Z.of_N (2 ^ bits).

(* the value; None where C11 leaves it implementation-defined or where a constraint is violated:
   - plain: a single-byte character has its char value converted to int (p10); an escape must fit
     unsigned char (p9) and is converted through char (p10: '\xFF' is -1 with signed char)
   - u / U / L: the code point if one unit holds it (p11); an escape must fit the unsigned type *)
Definition spec_char_value (p : cprefix) (it : item) : option Z :=
  match p, it with
  | CPnone, IChr c => if c <? 128 then Some (Z.of_N c) else None
  | CPnone, IEsc e => if escape_in_range 8 e then Some (sext 8 (escape_value e)) else None
  | CPu, IChr c => if c <? 65536 then Some (Z.of_N c) else None
  | CPu, IEsc e => if escape_in_range 16 e then Some (Z.of_N (escape_value e)) else None
  | CPU, IChr c => Some (Z.of_N c)
  | CPU, IEsc e => if escape_in_range 32 e then Some (Z.of_N (escape_value e)) else None
  | CPL, IChr c => Some (Z.of_N c)
  | CPL, IEsc e => if escape_in_range 32 e then Some (sext 32 (escape_value e)) else None
  end.

Definition spell_char_const (p : cprefix) (it : item) : list N :=
  spell_cprefix p ++ 39 :: spell_item it ++ [39].

(* ------------------------------------------------------------------ *)
(* 6.4.4.1 integer constants                                           *)
(* ------------------------------------------------------------------ *)
Inductive ibase :=
| BDec                 (* decimal-constant: nonzero-digit digit* *)
| BOct                 (* octal-constant: 0 octal-digit* *)
| BHex (upper : bool)  (* 0x / 0X hexadecimal-digit+ *)
| BBin (upper : bool). (* [GNU] 0b / 0B binary-digit+ *)

Inductive usuffix := Su | SU.                         (* unsigned-suffix: u U *)
Inductive lsuffix := Sl | SL | Sll | SLL.             (* long-suffix: l L ; long-long-suffix: ll LL *)
Inductive isuffix :=
| SfxNone
| SfxUL (u : usuffix) (l : option lsuffix)            (* unsigned-suffix long-suffix_opt | unsigned-suffix long-long-suffix *)
| SfxLU (l : lsuffix) (u : option usuffix).           (* long-suffix unsigned-suffix_opt | long-long-suffix unsigned-suffix_opt *)

Definition spell_usuffix (u : usuffix) : list N := match u with Su => [117] | SU => [85] end.
Definition spell_lsuffix (l : lsuffix) : list N :=
  match l with Sl => [108] | SL => [76] | Sll => [108; 108] | SLL => [76; 76] end.
Definition spell_opt {A} (f : A -> list N) (o : option A) : list N := match o with Some a => f a | None => [] end.
Definition spell_isuffix (s : isuffix) : list N :=
  match s with
  | SfxNone => []
  | SfxUL u l => spell_usuffix u ++ spell_opt spell_lsuffix l
  | SfxLU l u => spell_lsuffix l ++ spell_opt spell_usuffix u
  end.

Definition suffix_has_u (s : isuffix) : bool :=
  match s with SfxNone => false | SfxUL _ _ => true | SfxLU _ (Some _) => true | SfxLU _ None => false end.
Definition suffix_has_l (s : isuffix) : bool :=
  match s with SfxNone => false | SfxUL _ (Some _) => true | SfxUL _ None => false | SfxLU _ _ => true end.

Record iconst := { ic_base : ibase; ic_digits : list N; ic_suffix : isuffix }.

Definition base_radix (b : ibase) : N := match b with BDec => 10 | BOct => 8 | BHex _ => 16 | BBin _ => 2 end.
Definition spell_base (b : ibase) : list N :=
  match b with
  | BDec => []
  | BOct => [48]
  | BHex up => [48; if up then 88 else 120]
  | BBin up => [48; if up then 66 else 98]
  end.

Definition spell_iconst (k : iconst) : list N :=
  spell_base (ic_base k) ++ ic_digits k ++ spell_isuffix (ic_suffix k).

Definition valid_iconst (k : iconst) : bool :=
  forallb (is_digit_of (base_radix (ic_base k))) (ic_digits k) &&
  match ic_base k with
  | BDec => match ic_digits k with d :: _ => negb (d =? 48) | [] => false end
  | BOct => true
  | BHex _ | BBin _ => (1 <=? length (ic_digits k))%nat
  end.

Definition iconst_value (k : iconst) : N := digits_value (base_radix (ic_base k)) (ic_digits k).
Definition iconst_decimal (k : iconst) : bool := match ic_base k with BDec => true | _ => false end.

(* 6.4.4.1p5 through Spec/IntLitSpec.v: the first type of the list that can represent the value;
   None: no type (6.4.4p2: the constant violates a constraint) *)
Definition iconst_type (k : iconst) : option lit_ty :=
  c11_literal_type (iconst_decimal k) (suffix_has_l (ic_suffix k)) (suffix_has_u (ic_suffix k)) (iconst_value k).

(* the complete list of suffix trees (finite) *)
Definition all_usuffix : list usuffix := [Su; SU].
Definition all_lsuffix : list lsuffix := [Sl; SL; Sll; SLL].
Definition all_isuffix : list isuffix :=
  SfxNone ::
  flat_map (fun u => SfxUL u None :: map (fun l => SfxUL u (Some l)) all_lsuffix) all_usuffix ++
  flat_map (fun l => SfxLU l None :: map (fun u => SfxLU l (Some u)) all_usuffix) all_lsuffix.
Definition all_ibase : list ibase := [BDec; BOct; BHex false; BHex true; BBin false; BBin true].

Fixpoint list_eqb (a b : list N) : bool :=
  match a, b with
  | [], [] => true
  | x :: a', y :: b' => (x =? y) && list_eqb a' b'
  | _, _ => false
  end.

(* a recogniser by exhaustive search over all trees that could spell s (no scanning order): for
   every base and every suffix tree, the digits are what is left between the spelling of the
   base and the spelling of the suffix; s is an integer constant iff some such tree is valid
   and spells s *)
Definition iconst_candidates (s : list N) : list iconst :=
  flat_map (fun b =>
    map (fun sfx =>
      let body := skipn (length (spell_base b)) s in
      {| ic_base := b; ic_digits := firstn (length body - length (spell_isuffix sfx)) body; ic_suffix := sfx |})
      all_isuffix)
    all_ibase.

Definition recognise_iconst (s : list N) : option iconst :=
  find (fun k => valid_iconst k && list_eqb (spell_iconst k) s) (iconst_candidates s).

(* the suffix strings of the grammar with their meaning (has l, has u) *)
Definition suffix_table : list (list N * (bool * bool)) :=
  map (fun s => (spell_isuffix s, (suffix_has_l s, suffix_has_u s))) all_isuffix.

(* ------------------------------------------------------------------ *)
(* 6.4.3 universal character names, 5.1.1.2 phase 5                    *)
(* ------------------------------------------------------------------ *)
(* source text of a literal body before universal character names are replaced *)
Inductive sitem :=
| SChr (c : N)
| SEsc (e : escape)
| SUcn (big : bool) (ds : list N).     (* \u hex-quad  /  \U hex-quad hex-quad ; the digit characters *)

Definition ucn_value (ds : list N) : N := digits_value 16 ds.

(* 6.4.3p2: not below 00A0 except $ @ `, not a surrogate; (Annex: at most 10FFFF) *)
Definition valid_ucn_value (c : N) : bool :=
  is_scalar c && ((160 <=? c) || (c =? 36) || (c =? 64) || (c =? 96)).

Definition spell_sitem (it : sitem) : list N :=
  match it with
  | SChr c => rfc3629 c
  | SEsc e => spell_escape e
  | SUcn big ds => 92 :: (if big then 85 else 117) :: ds
  end.
Definition spell_sitems (l : list sitem) : list N := concat (map spell_sitem l).

Definition valid_sitem (q : N) (it : sitem) : bool :=
  match it with
  | SChr c => valid_item q (IChr c)
  | SEsc e => valid_escape e
  | SUcn big ds => (length ds =? (if big then 8 else 4))%nat && forallb (is_digit_of 16) ds &&
                   valid_ucn_value (ucn_value ds)
  end.

(* the universal character name designates the character with that code point *)
Definition resolve_sitem (it : sitem) : item :=
  match it with
  | SChr c => IChr c
  | SEsc e => IEsc e
  | SUcn _ ds => IChr (ucn_value ds)
  end.
