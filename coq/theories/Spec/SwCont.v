(* C03 (package sw): a SECOND, independent rendering of the same statements, in the usual style for
   languages with goto (CompCert Clight): small steps over a statement and a continuation - what
   remains to be done after the statement, up to the end of the function.  A jump replaces the
   continuation: goto l by the continuation of the statement labelled l in the function body
   (sfind, Clight's find_label), switch by the continuation of the selected case label in its body
   (sfind again: case labels may stand inside nested blocks, ifs and loops).
   SwContProofs: the big-step seek semantics of SwSem.v and this one agree. *)
From Coq Require Import List Arith Bool.
Import ListNotations.
From Chibicc Require Import Spec.SwSem.

Inductive scont :=
| Kstop                                                                   (* end of the function body *)
| Kseq (b : sstmt) (k : scont)                                            (* then b, then k *)
| Kfor (kc : option nat) (inc : list nat) (body : sstmt) (k : scont)      (* in the body of a for: then inc, the test, ... *)
| Kdo (body : sstmt) (kc : nat) (k : scont)                               (* in the body of a do: then the test, ... *)
| Kswitch (k : scont).                                                    (* in the body of a switch *)

(* the statement labelled t inside s, with ITS continuation when s itself is followed by k *)
Fixpoint sfind (t : starget) (s : sstmt) (k : scont) : option (sstmt * scont) :=
  match s with
  | SSeq a b => match sfind t a (Kseq b k) with Some r => Some r | None => sfind t b k end
  | SIf _ a b => match sfind t a k with Some r => Some r | None => sfind t b k end
  | SFor _ kc inc body => sfind t body (Kfor kc inc body k)
  | SDo body kc => sfind t body (Kdo body kc k)
  | SSwitch _ body => match t with TLabel _ => sfind t body (Kswitch k) | _ => None end
  | SCase c s1 => if starget_eqb t (TCase c) then Some (s1, k) else sfind t s1 k
  | SDefault s1 => if starget_eqb t TDefault then Some (s1, k) else sfind t s1 k
  | SLabel l s1 => if starget_eqb t (TLabel l) then Some (s1, k) else sfind t s1 k
  | _ => None
  end.

Definition cstate := (sstmt * scont * soracle)%type.

(* one step; fn is the body of the enclosing function.  None: finished (SSkip, Kstop) or stuck. *)
Definition cstep (fn : sstmt) (st : cstate) : option (strace * cstate) :=
  let '(s, k, o) := st in
  match s with
  | SMark n => Some ([n], (SSkip, k, o))
  | SSkip =>
    match k with
    | Kstop => None
    | Kseq b k1 => Some ([], (b, k1, o))
    | Kfor kc inc body k1 => Some (inc, (SFor [] kc inc body, k1, o))          (* the body is done: increment, go round *)
    | Kdo body kc k1 => match o with
                        | [] => None
                        | v :: o1 => Some ([kc], ((if v =? 0 then SSkip else SDo body kc), k1, o1))
                        end
    | Kswitch k1 => Some ([], (SSkip, k1, o))
    end
  | SSeq a b => Some ([], (a, Kseq b k, o))
  | SIf c a b => match o with [] => None | v :: o1 => Some ([c], ((if v =? 0 then b else a), k, o1)) end
  | SFor init kc inc body =>
    match kc with
    | None => Some (init, (body, Kfor kc inc body k, o))
    | Some c => match o with
                | [] => None
                | v :: o1 => Some (init ++ [c], (if v =? 0 then (SSkip, k, o1) else (body, Kfor kc inc body k, o1)))
                end
    end
  | SDo body kc => Some ([], (body, Kdo body kc k, o))
  | SBreak =>
    match k with
    | Kstop => None
    | Kseq _ k1 => Some ([], (SBreak, k1, o))
    | Kfor _ _ _ k1 | Kdo _ _ k1 | Kswitch k1 => Some ([], (SSkip, k1, o))   (* the loop / switch is complete *)
    end
  | SContinue =>
    match k with
    | Kstop => None
    | Kseq _ k1 | Kswitch k1 => Some ([], (SContinue, k1, o))                 (* a switch does not stop a continue *)
    | Kfor _ _ _ _ | Kdo _ _ _ => Some ([], (SSkip, k, o))                    (* the body is complete *)
    end
  | SSwitch c body =>
    match o with
    | [] => None
    | v :: o1 =>
      match sfind (TCase v) body (Kswitch k) with
      | Some (s1, k1) => Some ([c], (s1, k1, o1))
      | None => match sfind TDefault body (Kswitch k) with
                | Some (s1, k1) => Some ([c], (s1, k1, o1))
                | None => Some ([c], (SSkip, k, o1))
                end
      end
    end
  | SCase _ s1 | SDefault s1 | SLabel _ s1 => Some ([], (s1, k, o))
  | SGoto l => match sfind (TLabel l) fn Kstop with Some (s1, k1) => Some ([], (s1, k1, o)) | None => None end
  | SGotoInd c tab =>
    match o with
    | [] => None
    | v :: o1 => match nth_error tab v with Some l => Some ([c], (SGoto l, k, o1)) | None => None end
    end
  end.

Inductive cstar (fn : sstmt) : cstate -> strace -> cstate -> Prop :=
| cstar_refl st : cstar fn st [] st
| cstar_step st ev st1 tr st2 : cstep fn st = Some (ev, st1) -> cstar fn st1 tr st2 -> cstar fn st (ev ++ tr) st2.

(* executable run, until the function body is finished *)
Fixpoint crun (fuel : nat) (fn : sstmt) (st : cstate) : option (strace * soracle) :=
  match fuel with
  | O => None
  | S f =>
    match st with
    | (SSkip, Kstop, o) => Some ([], o)
    | _ => match cstep fn st with
           | Some (ev, st1) => match crun f fn st1 with Some (tr, o') => Some (ev ++ tr, o') | None => None end
           | None => None
           end
    end
  end.
