(* C11 integer semantics for LP64 x86-64, written from the standard's clauses:
   6.2.5 / 6.3.1.1 (types, conversion rank, integer promotions), 6.3.1.3 (conversions),
   6.3.1.8 (usual arithmetic conversions), 6.5.x (operators, with undefined behaviour = None).
   long long is identified with long (same width and signedness); plain char is signed.
   Implementation-defined choices fixed as gcc and chibicc fix them: conversion of an
   out-of-range value to a signed type wraps modulo 2^N; >> of a negative value is arithmetic. *)
From Coq Require Import ZArith Bool List.
Import ListNotations.
Local Open Scope Z_scope.

Inductive ity := IBool | I8 | U8 | I16 | U16 | I32 | U32 | I64 | U64.

Definition width (t : ity) : Z :=
  match t with IBool => 1 | I8 | U8 => 8 | I16 | U16 => 16 | I32 | U32 => 32 | I64 | U64 => 64 end.
Definition size_of (t : ity) : Z :=
  match t with IBool | I8 | U8 => 1 | I16 | U16 => 2 | I32 | U32 => 4 | I64 | U64 => 8 end.
Definition is_signed (t : ity) : bool :=
  match t with I8 | I16 | I32 | I64 => true | _ => false end.
(* 6.3.1.1p1 conversion rank: _Bool < char < short < int < long *)
Definition rank (t : ity) : Z :=
  match t with IBool => 0 | I8 | U8 => 1 | I16 | U16 => 2 | I32 | U32 => 3 | I64 | U64 => 4 end.

Definition tmin (t : ity) : Z := if is_signed t then - 2 ^ (width t - 1) else 0.
Definition tmax (t : ity) : Z :=
  match t with IBool => 1 | _ => if is_signed t then 2 ^ (width t - 1) - 1 else 2 ^ width t - 1 end.
Definition in_range (t : ity) (v : Z) : bool := (tmin t <=? v) && (v <=? tmax t).

Definition ity_eqb (a b : ity) : bool :=
  match a, b with
  | IBool, IBool | I8, I8 | U8, U8 | I16, I16 | U16, U16 | I32, I32 | U32, U32 | I64, I64 | U64, U64 => true
  | _, _ => false
  end.

(* can type a represent every value of type b? *)
Definition represents_all (a b : ity) : bool := (tmin a <=? tmin b) && (tmax b <=? tmax a).

(* 6.3.1.1p2: "If an int can represent all values of the original type, the value is converted
   to an int; otherwise, it is converted to an unsigned int", for types of rank below int *)
Definition promote (t : ity) : ity :=
  if rank t <? rank I32 then (if represents_all I32 t then I32 else U32) else t.

Definition to_unsigned (t : ity) : ity :=
  match t with I8 => U8 | I16 => U16 | I32 => U32 | I64 => U64 | _ => t end.

(* 6.3.1.8p1, integer part *)
Definition uac (a b : ity) : ity :=
  let a := promote a in let b := promote b in
  if ity_eqb a b then a
  else if Bool.eqb (is_signed a) (is_signed b) then (if rank a <? rank b then b else a)
  else
    let s := if is_signed a then a else b in
    let u := if is_signed a then b else a in
    if rank s <=? rank u then u
    else if represents_all s u then s
    else to_unsigned s.

(* 6.3.1.2 / 6.3.1.3: conversion of a value to a type *)
Definition conv (t : ity) (v : Z) : Z :=
  match t with
  | IBool => if v =? 0 then 0 else 1
  | _ =>
    let m := 2 ^ width t in
    let r := v mod m in
    if is_signed t && (2 ^ (width t - 1) <=? r) then r - m else r
  end.

Inductive unop := Neg | BitNot | LogNot | Plus.
Inductive binop := Add | Sub | Mul | Div | Mod | BAnd | BOr | BXor | Shl | Shr
                 | OEq | ONe | OLt | OLe | OGt | OGe | LAnd | LOr.

Inductive expr :=
| Lit (t : ity) (v : Z)                      (* a value of type t (literal, or an operand loaded from a variable) *)
| Un (o : unop) (e : expr)
| Bin (o : binop) (a b : expr)
| Cast (t : ity) (e : expr)
| Cond (c a b : expr)
| Comma (a b : expr).

Definition is_arith (o : binop) : bool :=
  match o with Add | Sub | Mul | Div | Mod | BAnd | BOr | BXor => true | _ => false end.
Definition is_shift (o : binop) : bool := match o with Shl | Shr => true | _ => false end.
Definition is_cmp (o : binop) : bool := match o with OEq | ONe | OLt | OLe | OGt | OGe => true | _ => false end.

Fixpoint type_of (e : expr) : ity :=
  match e with
  | Lit t _ => t
  | Un LogNot _ => I32
  | Un _ a => promote (type_of a)
  | Bin o a b =>
    if is_arith o then uac (type_of a) (type_of b)
    else if is_shift o then promote (type_of a)
    else I32
  | Cast t _ => t
  | Cond _ a b => uac (type_of a) (type_of b)
  | Comma _ b => type_of b
  end.

(* result of an arithmetic operation whose mathematical result is r, at type t (6.5p5) *)
Definition arith_result (t : ity) (r : Z) : option Z :=
  if is_signed t then (if in_range t r then Some r else None) else Some (r mod 2 ^ width t).

Definition b2z (b : bool) : Z := if b then 1 else 0.

Definition eval_bin_arith (o : binop) (t : ity) (x y : Z) : option Z :=
  match o with
  | Add => arith_result t (x + y)
  | Sub => arith_result t (x - y)
  | Mul => arith_result t (x * y)
  | Div => if y =? 0 then None else arith_result t (Z.quot x y)          (* 6.5.5p5-6 *)
  | Mod => if y =? 0 then None
           else if in_range t (Z.quot x y) then Some (Z.rem x y) else None
  | BAnd => Some (conv t (Z.land x y))
  | BOr => Some (conv t (Z.lor x y))
  | BXor => Some (conv t (Z.lxor x y))
  | _ => None
  end.

Definition eval_cmp (o : binop) (x y : Z) : Z :=
  match o with
  | OEq => b2z (x =? y) | ONe => b2z (negb (x =? y))
  | OLt => b2z (x <? y) | OLe => b2z (x <=? y)
  | OGt => b2z (y <? x) | OGe => b2z (y <=? x)
  | _ => 0
  end.

(* 6.5.7: shifts; t is the promoted type of the left operand, n the value of the right one *)
Definition eval_shift (o : binop) (t : ity) (x n : Z) : option Z :=
  if (n <? 0) || (width t <=? n) then None
  else match o with
  | Shl => if is_signed t then (if (x <? 0) then None else if in_range t (x * 2 ^ n) then Some (x * 2 ^ n) else None)
           else Some ((x * 2 ^ n) mod 2 ^ width t)
  | Shr => Some (x / 2 ^ n)
  | _ => None
  end.

Fixpoint eval (e : expr) : option Z :=
  match e with
  | Lit t v => if in_range t v then Some v else None
  | Un o a =>
    match eval a with
    | None => None
    | Some x =>
      let t := promote (type_of a) in
      match o with
      | LogNot => Some (b2z (x =? 0))
      | Plus => Some x
      | Neg => arith_result t (- x)
      | BitNot => Some (conv t (Z.lnot x))
      end
    end
  | Bin LAnd a b =>
    match eval a with
    | None => None
    | Some x => if x =? 0 then Some 0 else
                match eval b with None => None | Some y => Some (b2z (negb (y =? 0))) end
    end
  | Bin LOr a b =>
    match eval a with
    | None => None
    | Some x => if negb (x =? 0) then Some 1 else
                match eval b with None => None | Some y => Some (b2z (negb (y =? 0))) end
    end
  | Bin o a b =>
    match eval a, eval b with
    | Some x, Some y =>
      if is_arith o then
        let t := uac (type_of a) (type_of b) in eval_bin_arith o t (conv t x) (conv t y)
      else if is_shift o then eval_shift o (promote (type_of a)) x y
      else let t := uac (type_of a) (type_of b) in Some (eval_cmp o (conv t x) (conv t y))
    | _, _ => None
    end
  | Cast t a => match eval a with Some x => Some (conv t x) | None => None end
  | Cond c a b =>
    match eval c with
    | None => None
    | Some x =>
      let t := uac (type_of a) (type_of b) in
      if negb (x =? 0) then match eval a with Some y => Some (conv t y) | None => None end
      else match eval b with Some y => Some (conv t y) | None => None end
    end
  | Comma a b => match eval a with None => None | Some _ => eval b end
  end.
