(* C11 semantics of arithmetic expressions over int / float / double operands for LP64 x86-64 with
   IEC 60559 arithmetic (Annex F), FLT_EVAL_METHOD 0, written from the standard's clauses:
   6.2.5p10 (real floating types), 6.3.1.2 (_Bool), 6.3.1.4 (real floating <-> integer), 6.3.1.5 (real
   floating <-> real floating), 6.3.1.8 (usual arithmetic conversions, floating ranks first),
   5.2.4.2.2p9 (FLT_EVAL_METHOD 0: every operation is evaluated in the range and precision of its type),
   6.5.3.3 (unary - and !), 6.5.5 / 6.5.6 (multiplicative and additive operators), 6.5.8 / 6.5.9 (relational and equality operators:
   F.9.3 - a NaN is unordered: == < <= > >= are false, != is true), 6.5.13-15 (&& || ?:), 6.5.17.
   Values of float / double are Flocq's binary32 / binary64; every arithmetic operation is Flocq's
   operation rounded to nearest-even in the operation's type.  The integer part is Spec/C11Int.v.
   The standard leaves the sign and payload of a NaN result open; the NaN that Flocq's default choice
   functions produce is therefore meaningful only up to [feq] (below). *)
From Coq Require Import ZArith Bool List.
From Flocq Require Import Core Binary Bits.
From Chibicc Require Import Spec.C11Int.
Local Open Scope Z_scope.

Notation mode_NE := BinarySingleNaN.mode_NE.

(* ---------- types ---------- *)
Inductive ty := TI (t : ity) | TF32 | TF64.

Definition is_fp (t : ty) : bool := match t with TI _ => false | _ => true end.

(* 6.3.1.8p1: "if the corresponding real type of either operand is double, the other operand is
   converted to double; otherwise, if ... float, ... to float; otherwise the integer promotions ..." *)
Definition uac_ty (a b : ty) : ty :=
  match a, b with
  | TF64, _ | _, TF64 => TF64
  | TF32, _ | _, TF32 => TF32
  | TI x, TI y => TI (uac x y)
  end.

(* the integer promotions leave floating types alone *)
Definition promote_ty (t : ty) : ty := match t with TI x => TI (promote x) | _ => t end.

(* ---------- values ---------- *)
Inductive val := VI (z : Z) | VS (x : binary32) | VD (x : binary64).

Definition val_ok (t : ty) (v : val) : bool :=
  match t, v with
  | TI it, VI z => in_range it z
  | TF32, VS _ => true
  | TF64, VD _ => true
  | _, _ => false
  end.

(* equal as far as C can tell: the same datum, or both a NaN (B2BSN forgets sign and payload of a NaN only) *)
Definition feq {prec emax} (x y : binary_float prec emax) : Prop := B2BSN prec emax x = B2BSN prec emax y.
Definition veq (v w : val) : Prop :=
  match v, w with
  | VI a, VI b => a = b
  | VS a, VS b => feq a b
  | VD a, VD b => feq a b
  | _, _ => False
  end.

(* ---------- conversions ---------- *)
Definition prec32 : Prec_gt_0 24 := eq_refl.
Definition emax32 : BinarySingleNaN.Prec_lt_emax 24 128 := eq_refl.
Definition prec64 : Prec_gt_0 53 := eq_refl.
Definition emax64 : BinarySingleNaN.Prec_lt_emax 53 1024 := eq_refl.

(* 6.3.1.4p2: integer -> real floating: exact if representable, else the nearest representable value
   (F.3: rounded according to the current rounding direction, to nearest-even by default) *)
Definition s_of_int (z : Z) : binary32 := binary_normalize 24 128 prec32 emax32 mode_NE z 0 false.
Definition d_of_int (z : Z) : binary64 := binary_normalize 53 1024 prec64 emax64 mode_NE z 0 false.

(* 6.3.1.5: float -> double is exact; double -> float rounds (to nearest-even), overflow gives an infinity *)
Definition d_of_s (x : binary32) : binary64 :=
  match x with
  | B754_zero _ _ s => B754_zero 53 1024 s
  | B754_infinity _ _ s => B754_infinity 53 1024 s
  | B754_nan _ _ _ _ _ => proj1_sig default_nan_pl64
  | B754_finite _ _ s m e _ => binary_normalize 53 1024 prec64 emax64 mode_NE (cond_Zopp s (Zpos m)) e s
  end.
Definition s_of_d (x : binary64) : binary32 :=
  match x with
  | B754_zero _ _ s => B754_zero 24 128 s
  | B754_infinity _ _ s => B754_infinity 24 128 s
  | B754_nan _ _ _ _ _ => proj1_sig default_nan_pl32
  | B754_finite _ _ s m e _ => binary_normalize 24 128 prec32 emax32 mode_NE (cond_Zopp s (Zpos m)) e s
  end.

(* 6.3.1.4p1: real floating -> integer: "the fractional part is discarded"; undefined for infinities and NaNs *)
Definition int_part {prec emax} (x : binary_float prec emax) : option Z :=
  match x with
  | B754_zero _ _ _ => Some 0
  | B754_finite _ _ _ _ _ _ => Some (Btrunc prec emax x)
  | _ => None
  end.
(* "If the value of the integral part cannot be represented by the integer type, the behavior is undefined" *)
Definition to_int (t : ity) (ip : option Z) : option val :=
  match ip with Some z => if in_range t z then Some (VI z) else None | None => None end.

(* x == 0 (6.3.1.2: "compares equal to 0"): true for +0 and -0, false for a NaN *)
Definition is_zero {prec emax} (x : binary_float prec emax) : bool :=
  match Bcompare prec emax x (B754_zero prec emax false) with Some Eq => true | _ => false end.

Definition convert (to : ty) (v : val) : option val :=
  match to, v with
  | TI t, VI z => Some (VI (conv t z))
  | TI IBool, VS x => Some (VI (b2z (negb (is_zero x))))
  | TI IBool, VD x => Some (VI (b2z (negb (is_zero x))))
  | TI t, VS x => to_int t (int_part x)
  | TI t, VD x => to_int t (int_part x)
  | TF32, VI z => Some (VS (s_of_int z))
  | TF32, VS x => Some (VS x)
  | TF32, VD x => Some (VS (s_of_d x))
  | TF64, VI z => Some (VD (d_of_int z))
  | TF64, VS x => Some (VD (d_of_s x))
  | TF64, VD x => Some (VD x)
  end.

(* ---------- operators ---------- *)
(* + - * / in the operation's type, rounded to nearest-even (division by zero is defined by Annex F) *)
Definition arith_s (o : binop) (x y : binary32) : option binary32 :=
  match o with
  | Add => Some (b32_plus mode_NE x y) | Sub => Some (b32_minus mode_NE x y)
  | Mul => Some (b32_mult mode_NE x y) | Div => Some (b32_div mode_NE x y)
  | _ => None                                   (* % & | ^ require integer operands (6.5.5p2, 6.5.10-12) *)
  end.
Definition arith_d (o : binop) (x y : binary64) : option binary64 :=
  match o with
  | Add => Some (b64_plus mode_NE x y) | Sub => Some (b64_minus mode_NE x y)
  | Mul => Some (b64_mult mode_NE x y) | Div => Some (b64_div mode_NE x y)
  | _ => None
  end.

(* the relation between two floating values: Some Lt / Eq / Gt, or None = unordered (a NaN operand) *)
Definition fcmp (o : binop) (c : option comparison) : Z :=
  match o, c with
  | OEq, Some Eq => 1
  | ONe, Some Eq => 0 | ONe, _ => 1
  | OLt, Some Lt => 1
  | OLe, Some Lt | OLe, Some Eq => 1
  | OGt, Some Gt => 1
  | OGe, Some Gt | OGe, Some Eq => 1
  | _, _ => 0
  end.

(* scalar truth (6.5.3.3p5, 6.5.13-15, 6.8.4.1): "compares unequal to 0" *)
Definition truth (v : val) : bool :=
  match v with
  | VI z => negb (z =? 0)
  | VS x => negb (is_zero x)
  | VD x => negb (is_zero x)
  end.

(* ---------- expressions ---------- *)
Inductive fexpr :=
| FLit (t : ity) (z : Z)                  (* an integer constant of type t *)
| FLitS (x : binary32)                    (* a float constant *)
| FLitD (x : binary64)                    (* a double constant *)
| FVar (t : ty) (n : nat)                 (* the value of object number n, of type t *)
| FUn (o : unop) (a : fexpr)
| FBin (o : binop) (a b : fexpr)
| FCast (t : ty) (a : fexpr)
| FCond (c a b : fexpr)
| FComma (a b : fexpr).

Fixpoint ftype_of (e : fexpr) : ty :=
  match e with
  | FLit t _ => TI t
  | FLitS _ => TF32
  | FLitD _ => TF64
  | FVar t _ => t
  | FUn LogNot _ => TI I32
  | FUn _ a => promote_ty (ftype_of a)
  | FBin o a b =>
    if is_arith o then uac_ty (ftype_of a) (ftype_of b)
    else if is_shift o then promote_ty (ftype_of a)
    else TI I32
  | FCast t _ => t
  | FCond _ a b => uac_ty (ftype_of a) (ftype_of b)
  | FComma _ b => ftype_of b
  end.

Definition vi (o : option Z) : option val := match o with Some z => Some (VI z) | None => None end.
Definition vs (o : option binary32) : option val := match o with Some x => Some (VS x) | None => None end.
Definition vd (o : option binary64) : option val := match o with Some x => Some (VD x) | None => None end.

(* a binary operator other than && || on operands already converted to the common type t *)
Definition eval_common (o : binop) (t : ty) (x y : val) : option val :=
  match t, x, y with
  | TI it, VI a, VI b => if is_arith o then vi (eval_bin_arith o it a b) else Some (VI (eval_cmp o a b))
  | TF32, VS a, VS b => if is_arith o then vs (arith_s o a b) else Some (VI (fcmp o (b32_compare a b)))
  | TF64, VD a, VD b => if is_arith o then vd (arith_d o a b) else Some (VI (fcmp o (b64_compare a b)))
  | _, _, _ => None
  end.

Definition eval_unary (o : unop) (t : ty) (x : val) : option val :=     (* t: type of the operand *)
  match o, t, x with
  | LogNot, _, _ => Some (VI (b2z (negb (truth x))))
  | Plus, TI it, VI a => Some (VI a)
  | Plus, TF32, VS a => Some (VS a)
  | Plus, TF64, VD a => Some (VD a)
  | Neg, TI it, VI a => vi (arith_result (promote it) (- a))
  | Neg, TF32, VS a => Some (VS (b32_opp a))
  | Neg, TF64, VD a => Some (VD (b64_opp a))
  | BitNot, TI it, VI a => Some (VI (conv (promote it) (Z.lnot a)))   (* 6.5.3.3p4: integer operand *)
  | _, _, _ => None
  end.

Section Eval.
Variable rho : nat -> val.                 (* the stored values of the objects *)

Fixpoint feval (e : fexpr) : option val :=
  match e with
  | FLit t z => if in_range t z then Some (VI z) else None
  | FLitS x => Some (VS x)
  | FLitD x => Some (VD x)
  | FVar t n => if val_ok t (rho n) then Some (rho n) else None
  | FUn o a =>
    match feval a with
    | Some x => eval_unary o (ftype_of a) x
    | None => None
    end
  | FBin LAnd a b =>
    match feval a with
    | None => None
    | Some x => if negb (truth x) then Some (VI 0) else
                match feval b with None => None | Some y => Some (VI (b2z (truth y))) end
    end
  | FBin LOr a b =>
    match feval a with
    | None => None
    | Some x => if truth x then Some (VI 1) else
                match feval b with None => None | Some y => Some (VI (b2z (truth y))) end
    end
  | FBin o a b =>
    match feval a, feval b with
    | Some x, Some y =>
      if is_shift o then
        match ftype_of a, ftype_of b, x, y with
        | TI ta, TI _, VI xa, VI n => vi (eval_shift o (promote ta) xa n)     (* 6.5.7p2: integer operands *)
        | _, _, _, _ => None
        end
      else
        let t := uac_ty (ftype_of a) (ftype_of b) in
        match convert t x, convert t y with
        | Some x', Some y' => eval_common o t x' y'
        | _, _ => None
        end
    | _, _ => None
    end
  | FCast t a => match feval a with Some x => convert t x | None => None end
  | FCond c a b =>
    match feval c with
    | None => None
    | Some x =>
      let t := uac_ty (ftype_of a) (ftype_of b) in
      if truth x then match feval a with Some y => convert t y | None => None end
      else match feval b with Some y => convert t y | None => None end
    end
  | FComma a b => match feval a with None => None | Some _ => feval b end
  end.
End Eval.

(* ---------- constraints ---------- *)
(* 6.5.3.3p1 (~), 6.5.5p2 (%), 6.5.7p2 (<< >>), 6.5.10p2 - 6.5.12p2 (& ^ |): integer operands only.
   Every other operator of this language accepts all arithmetic types. *)
Definition is_int_ty (t : ty) : bool := negb (is_fp t).
Definition int_only (o : binop) : bool :=
  match o with Mod | BAnd | BOr | BXor | Shl | Shr => true | _ => false end.
Fixpoint well_typed (e : fexpr) : bool :=
  match e with
  | FLit _ _ | FLitS _ | FLitD _ | FVar _ _ => true
  | FUn BitNot a => well_typed a && is_int_ty (ftype_of a)
  | FUn _ a => well_typed a
  | FBin o a b => well_typed a && well_typed b && (negb (int_only o) || (is_int_ty (ftype_of a) && is_int_ty (ftype_of b)))
  | FCast _ a => well_typed a
  | FCond c a b => well_typed c && well_typed a && well_typed b
  | FComma a b => well_typed a && well_typed b
  end.
