(* C11 integer expressions over OBJECTS: the operators of C11Int.v plus variable reads, simple and
   compound assignment, ++ and --, on local variables of the nine integer types.
   Written from the standard's clauses:
     6.5.16.1  x = e      the value stored is e converted to the type of x; the value of the
                          expression is the value of x after the assignment; its type is the type of x
     6.5.16.2  x o= e     is x = x o (e) with x evaluated once: the operation is done in the type the
                          operands of the binary operator would have, the result converted back
     6.5.3.1   ++x --x    are x += 1, x -= 1
     6.5.2.4   x++ x--    the value is the OLD value of x, the stored value that of x += 1 / x -= 1
                          (for _Bool: x++ leaves 1 in x, x-- toggles x)
     6.5p2     an object modified twice, or modified and read, by the two operands of an operator
               that has no sequence point between them: undefined -> None.  Decided syntactically
               (conservatively: the variables an operand may write / read); && || ?: and the comma
               have sequence points (6.5.13p4, 6.5.14p4, 6.5.15p4, 6.5.17p2).
   A variable is an index into a typing environment [G : list ity]; the store [env : list Z] holds
   one value per variable.  The two operands of a binary operator are evaluated in the order chibicc
   uses (right operand first, but left first for > and >=, see lhs_first); whenever the result is
   defined the order is irrelevant (meval_order_irrelevant in Proofs/ExprMemOrder.v). *)
From Coq Require Import ZArith Bool List.
From Chibicc Require Import Spec.C11Int.
Import ListNotations.
Local Open Scope Z_scope.

Inductive mexpr :=
| MLit (t : ity) (v : Z)
| MVar (x : nat)
| MUn (o : unop) (e : mexpr)
| MBin (o : binop) (a b : mexpr)
| MCast (t : ity) (e : mexpr)
| MCond (c a b : mexpr)
| MComma (a b : mexpr)
| MAssign (x : nat) (e : mexpr)                 (* x = e *)
| MOpAssign (o : binop) (x : nat) (e : mexpr)   (* x o= e, o one of + - * / % & | ^ << >> *)
| MIncDec (post inc : bool) (x : nat).          (* ++x --x x++ x-- *)

Definition tyenv := list ity.
Definition venv := list Z.
Definition vty (G : tyenv) (x : nat) : ity := nth x G I32.
Definition vget (env : venv) (x : nat) : Z := nth x env 0.
Fixpoint vset (env : venv) (x : nat) (v : Z) : venv :=
  match env, x with
  | [], _ => []
  | _ :: r, O => v :: r
  | a :: r, S x' => a :: vset r x' v
  end.

Fixpoint mtype (G : tyenv) (e : mexpr) : ity :=
  match e with
  | MLit t _ => t
  | MVar x => vty G x
  | MUn LogNot _ => I32
  | MUn _ a => promote (mtype G a)
  | MBin o a b =>
    if is_arith o then uac (mtype G a) (mtype G b)
    else if is_shift o then promote (mtype G a)
    else I32
  | MCast t _ => t
  | MCond _ a b => uac (mtype G a) (mtype G b)
  | MComma _ b => mtype G b
  | MAssign x _ | MOpAssign _ x _ | MIncDec _ _ x => vty G x
  end.

(* the variables an expression may read / may modify *)
Fixpoint reads (e : mexpr) : list nat :=
  match e with
  | MLit _ _ => []
  | MVar x => [x]
  | MUn _ a | MCast _ a => reads a
  | MBin _ a b | MComma a b => reads a ++ reads b
  | MCond c a b => reads c ++ reads a ++ reads b
  | MAssign _ a => reads a
  | MOpAssign _ x a => x :: reads a
  | MIncDec _ _ x => [x]
  end.
Fixpoint writes (e : mexpr) : list nat :=
  match e with
  | MLit _ _ | MVar _ => []
  | MUn _ a | MCast _ a => writes a
  | MBin _ a b | MComma a b => writes a ++ writes b
  | MCond c a b => writes c ++ writes a ++ writes b
  | MAssign x a | MOpAssign _ x a => x :: writes a
  | MIncDec _ _ x => [x]
  end.

Definition mem_nat (x : nat) (l : list nat) : bool := existsb (Nat.eqb x) l.
Definition disjoint (l1 l2 : list nat) : bool := forallb (fun x => negb (mem_nat x l2)) l1.
(* 6.5p2 for two unsequenced operands *)
Definition norace (a b : mexpr) : bool :=
  disjoint (writes a) (reads b ++ writes b) && disjoint (writes b) (reads a ++ writes a).

(* a binary operator (not && ||) applied to a value x of type ta and a value y of type tb *)
Definition eval_binval (o : binop) (ta tb : ity) (x y : Z) : option Z :=
  if is_arith o then let t := uac ta tb in eval_bin_arith o t (conv t x) (conv t y)
  else if is_shift o then eval_shift o (promote ta) x y
  else if is_cmp o then let t := uac ta tb in Some (eval_cmp o (conv t x) (conv t y))
  else None.

Definition eval_unval (o : unop) (ta : ity) (x : Z) : option Z :=
  let t := promote ta in
  match o with
  | LogNot => Some (b2z (x =? 0))
  | Plus => Some x
  | Neg => arith_result t (- x)
  | BitNot => Some (conv t (Z.lnot x))
  end.

(* which operand chibicc evaluates first: the right one, except that a > b and a >= b are parsed as
   b < a and b <= a.  Irrelevant for the result whenever [norace] holds (meval_order_irrelevant). *)
Definition lhs_first (o : binop) : bool := match o with OGt | OGe => true | _ => false end.

(* the value of variable x: an object holds a value of its type *)
Definition read_var (G : tyenv) (env : venv) (x : nat) : option Z :=
  if in_range (vty G x) (vget env x) then Some (vget env x) else None.

Fixpoint meval (G : tyenv) (env : venv) (e : mexpr) : option (Z * venv) :=
  match e with
  | MLit t v => if in_range t v then Some (v, env) else None
  | MVar x => match read_var G env x with Some v => Some (v, env) | None => None end
  | MUn o a =>
    match meval G env a with
    | Some (x, env1) => match eval_unval o (mtype G a) x with Some v => Some (v, env1) | None => None end
    | None => None
    end
  | MBin LAnd a b =>
    match meval G env a with
    | Some (x, env1) =>
      if x =? 0 then Some (0, env1)
      else match meval G env1 b with Some (y, env2) => Some (b2z (negb (y =? 0)), env2) | None => None end
    | None => None
    end
  | MBin LOr a b =>
    match meval G env a with
    | Some (x, env1) =>
      if negb (x =? 0) then Some (1, env1)
      else match meval G env1 b with Some (y, env2) => Some (b2z (negb (y =? 0)), env2) | None => None end
    | None => None
    end
  | MBin o a b =>
    if norace a b then
      if lhs_first o then
        match meval G env a with
        | Some (x, env1) =>
          match meval G env1 b with
          | Some (y, env2) =>
            match eval_binval o (mtype G a) (mtype G b) x y with Some v => Some (v, env2) | None => None end
          | None => None
          end
        | None => None
        end
      else
        match meval G env b with
        | Some (y, env1) =>
          match meval G env1 a with
          | Some (x, env2) =>
            match eval_binval o (mtype G a) (mtype G b) x y with Some v => Some (v, env2) | None => None end
          | None => None
          end
        | None => None
        end
    else None
  | MCast t a => match meval G env a with Some (x, env1) => Some (conv t x, env1) | None => None end
  | MCond c a b =>
    match meval G env c with
    | Some (x, env1) =>
      let t := uac (mtype G a) (mtype G b) in
      match meval G env1 (if negb (x =? 0) then a else b) with
      | Some (y, env2) => Some (conv t y, env2)
      | None => None
      end
    | None => None
    end
  | MComma a b => match meval G env a with Some (_, env1) => meval G env1 b | None => None end
  | MAssign x a =>
    if mem_nat x (writes a) then None
    else match meval G env a with
         | Some (y, env1) => let v := conv (vty G x) y in Some (v, vset env1 x v)
         | None => None
         end
  | MOpAssign o x a =>
    if mem_nat x (writes a) || negb (is_arith o || is_shift o) then None
    else match meval G env a with
         | Some (y, env1) =>
           match read_var G env1 x with
           | Some xv =>
             match eval_binval o (vty G x) (mtype G a) xv y with
             | Some r => let v := conv (vty G x) r in Some (v, vset env1 x v)
             | None => None
             end
           | None => None
           end
         | None => None
         end
  | MIncDec post inc x =>
    match read_var G env x with
    | Some xv =>
      match eval_binval (if inc then Add else Sub) (vty G x) I32 xv 1 with
      | Some r => let v := conv (vty G x) r in Some ((if post then xv else v), vset env x v)
      | None => None
      end
    | None => None
    end
  end.

(* every variable mentioned is declared *)
Fixpoint vars_in (n : nat) (e : mexpr) : bool :=
  match e with
  | MLit _ _ => true
  | MVar x => (x <? n)%nat
  | MUn _ a | MCast _ a => vars_in n a
  | MBin _ a b | MComma a b => vars_in n a && vars_in n b
  | MCond c a b => vars_in n c && vars_in n a && vars_in n b
  | MAssign x a | MOpAssign _ x a => (x <? n)%nat && vars_in n a
  | MIncDec _ _ x => (x <? n)%nat
  end.

(* the pure fragment is C11Int's: an expression without variables evaluates as its [expr] image *)
Fixpoint to_expr (e : mexpr) : option expr :=
  match e with
  | MLit t v => Some (Lit t v)
  | MUn o a => match to_expr a with Some a' => Some (Un o a') | None => None end
  | MBin o a b => match to_expr a, to_expr b with Some a', Some b' => Some (Bin o a' b') | _, _ => None end
  | MCast t a => match to_expr a with Some a' => Some (Cast t a') | None => None end
  | MCond c a b => match to_expr c, to_expr a, to_expr b with Some c', Some a', Some b' => Some (Cond c' a' b') | _, _, _ => None end
  | MComma a b => match to_expr a, to_expr b with Some a', Some b' => Some (Comma a' b') | _, _ => None end
  | _ => None
  end.
