(* System V AMD64 psABI 3.5.7 (variable argument lists), transcribed.
   Register save area (figure 3.33): %rdi 0, %rsi 8, %rdx 16, %rcx 24, %r8 32, %r9 40,
   %xmm0 48, %xmm1 64, ... %xmm15 288 (16 bytes each).
   va_list (figure 3.34): { unsigned gp_offset; unsigned fp_offset; void *overflow_arg_area;
   void *reg_save_area; }.
   va_start: reg_save_area = start of the save area; overflow_arg_area = address of the first
   argument passed on the stack that is not a named one; gp_offset = 8 * number of GP registers
   the named parameters use; fp_offset = 48 + 16 * number of vector registers they use.
   va_arg(l, type):
    1. type not passed in registers (MEMORY, X87) -> 7
    2. num_gp / num_fp = registers needed
    3. l->gp_offset > 48 - num_gp * 8 or l->fp_offset > 176 - num_fp * 16 -> 7
    4. fetch from reg_save_area + gp_offset and / or + fp_offset (an aggregate is assembled
       eightbyte by eightbyte, each from the area of its class)
    5. gp_offset += num_gp * 8; fp_offset += num_fp * 16     6. return
    7. align overflow_arg_area up to 16 if the alignment of type exceeds 8
    8. fetch from overflow_arg_area   9. overflow_arg_area += sizeof(type)   10. align it up to 8.
   Meaning (C 7.16.1.1): in f(named..., v1, ..., vn), after va_start the i-th va_arg(ap, Ti)
   with Ti the promoted type of vi yields vi. *)
From Coq Require Import List ZArith Bool Arith.
From Chibicc Require Import Model.Abi Spec.AbiSpec Model.Vararg.
Import ListNotations.
Local Open Scope Z_scope.

(* figure 3.33 *)
Definition save_area_gp (i : nat) : Z := 8 * Z.of_nat i.
Definition save_area_xmm (i : nat) : Z := 48 + 16 * Z.of_nat i.

(* the machine state at the call according to the psABI placement (AbiSpec.psabi_place):
   (type, eightbytes) -> registers / stack words; a register never assigned has no value *)
Record sframe := SFrame { s_gp : list Z; s_fp : list Z; s_stk : list Z }.

Definition spec_pass_one (fr : sframe) (a : vty * list Z) : sframe :=
  let '(t, v) := a in
  match psabi_place (length (s_gp fr)) (length (s_fp fr)) (length (s_stk fr)) [to_arg t] with
  | InRegs _ _ :: _ =>
    SFrame (s_gp fr ++ map snd (filter (fun p => negb (fst p)) (combine (classes t) v)))
           (s_fp fr ++ map snd (filter (fun p => fst p) (combine (classes t) v))) (s_stk fr)
  | _ => SFrame (s_gp fr) (s_fp fr) (s_stk fr ++ v)
  end.
Definition spec_pass (args : list (vty * list Z)) : sframe := fold_left spec_pass_one args (SFrame [] [] []).

Record sva := SVa { s_gpo : Z; s_fpo : Z; s_ovf : Z }.   (* reg_save_area is fixed: offsets below are from it *)

(* va_start: from the frame the NAMED arguments alone produce; overflow in bytes from the first stack word *)
Definition spec_va_start (named : list (vty * list Z)) : sva :=
  let fr := spec_pass named in
  SVa (8 * Z.of_nat (length (s_gp fr))) (48 + 16 * Z.of_nat (length (s_fp fr))) (8 * Z.of_nat (length (s_stk fr))).

Definition rsa_load (fr : sframe) (off : Z) : option Z :=
  if (0 <=? off) && (off <? 48) && (off mod 8 =? 0) then nth_error (s_gp fr) (Z.to_nat (off / 8))
  else if (48 <=? off) && (off <? 176) && ((off - 48) mod 16 =? 0) then nth_error (s_fp fr) (Z.to_nat ((off - 48) / 16))
  else None.

Definition stk_load (fr : sframe) (off : Z) (n : nat) : option (list Z) :=
  if (0 <=? off) && (off mod 8 =? 0) then
    let l := firstn n (skipn (Z.to_nat (off / 8)) (s_stk fr)) in
    if (length l =? n)%nat then Some l else None
  else None.

Definition in_registers (t : vty) : bool := match t with VLdbl | VBig _ => false | _ => true end.
Definition count (b : bool) (l : list bool) : Z := Z.of_nat (length (filter (Bool.eqb b) l)).
Definition spec_align (t : vty) : Z := match t with VLdbl => 16 | _ => 8 end.
Definition spec_size (t : vty) : Z := 8 * Z.of_nat (words t).

(* step 4 for the eightbytes of classes cs *)
Fixpoint fetch (fr : sframe) (gpo fpo : Z) (cs : list bool) : option (list Z) :=
  match cs with
  | [] => Some []
  | c :: r =>
    match rsa_load fr (if c then fpo else gpo), fetch fr (if c then gpo else gpo + 8) (if c then fpo + 16 else fpo) r with
    | Some x, Some xs => Some (x :: xs)
    | _, _ => None
    end
  end.

Definition spec_va_arg (fr : sframe) (l : sva) (t : vty) : option (list Z) * sva :=
  let num_gp := count false (classes t) in
  let num_fp := count true (classes t) in
  if in_registers t && negb ((48 - num_gp * 8 <? s_gpo l) || (176 - num_fp * 16 <? s_fpo l)) then
    (fetch fr (s_gpo l) (s_fpo l) (classes t), SVa (s_gpo l + num_gp * 8) (s_fpo l + num_fp * 16) (s_ovf l))
  else
    let a := if 8 <? spec_align t then (s_ovf l + 15) / 16 * 16 else s_ovf l in
    (stk_load fr a (words t), SVa (s_gpo l) (s_fpo l) ((a + spec_size t + 7) / 8 * 8)).

Fixpoint spec_va_args (fr : sframe) (l : sva) (ts : list vty) : list (option (list Z)) :=
  match ts with
  | [] => []
  | t :: r => let '(x, l1) := spec_va_arg fr l t in x :: spec_va_args fr l1 r
  end.

(* what a psABI-conforming caller and a psABI-conforming callee would read *)
Definition spec_reads (named variadic : list (vty * list Z)) : list (option (list Z)) :=
  spec_va_args (spec_pass (named ++ variadic)) (spec_va_start named) (map fst variadic).

(* C 7.16.1.1: every va_arg yields the corresponding actual *)
Definition delivers (reads : list (option (list Z))) (variadic : list (vty * list Z)) : Prop :=
  reads = map (fun a => Some (snd a)) variadic.

(* the values are well formed: as many eightbytes as the type has *)
Definition wf_args (args : list (vty * list Z)) : Prop := Forall (fun a => length (snd a) = words (fst a)) args.
