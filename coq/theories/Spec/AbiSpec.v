(* System V AMD64 psABI 3.2.3 (parameter passing), transcribed:
   classification: each eightbyte of an aggregate of at most 16 bytes gets the merge of the
   classes of the fields it contains (NO_CLASS neutral, INTEGER wins over SSE);
   passing: INTEGER eightbytes use the next of 6 GP registers, SSE eightbytes the next of 8
   vector registers; "if there are no registers available for any eightbyte of an argument,
   the whole argument is passed on the stack" and registers already assigned to it are given
   back; MEMORY / X87 class arguments go to the stack; stack arguments are laid out in
   order, each in a whole number of eightbytes. *)
From Coq Require Import List ZArith Bool Arith.
From Chibicc Require Import Model.Abi.
Import ListNotations.
Local Open Scope Z_scope.

Inductive cls := NoClass | Integer | Sse.
Definition merge (a b : cls) : cls :=
  match a, b with
  | NoClass, x | x, NoClass => x
  | Integer, _ | _, Integer => Integer
  | Sse, Sse => Sse
  end.

(* the scalar fields of a type with their byte offsets *)
Fixpoint leaves (ty : aty) (off : Z) : list (Z * bool) :=
  match ty with
  | ASc f => [(off, f)]
  | AArr e esz n =>
    (fix go (i : nat) : list (Z * bool) :=
       match i with O => [] | S i' => go i' ++ leaves e (off + esz * Z.of_nat i') end) n
  | AAgg ms =>
    (fix go (l : list (Z * aty)) : list (Z * bool) :=
       match l with [] => [] | (o, m) :: r => leaves m (off + o) ++ go r end) ms
  end.

Definition eightbyte_class (ty : aty) (k : Z) : cls :=
  fold_left (fun (c : cls) (lf : Z * bool) => if (8 * k <=? fst lf) && (fst lf <? 8 * k + 8)
                         then merge c (if snd lf then Sse else Integer) else c)
            (leaves ty 0) NoClass.

(* register assignment with all-or-nothing roll-back *)
Fixpoint psabi_place (gp fp stack : nat) (args : list arg) : list loc :=
  match args with
  | [] => []
  | a :: r =>
    let need : option (nat * nat) :=
                match a with
                | AInt => Some (1%nat, 0%nat) | AFlt => Some (0%nat, 1%nat)
                | ASmall g f _ => Some (g, f)
                | ALdbl | ABig _ => None                (* X87 / MEMORY *)
                end in
    match need with
    | Some (g, f) =>
      if (gp + g <=? 6)%nat && (fp + f <=? 8)%nat
      then InRegs gp fp :: psabi_place (gp + g) (fp + f) stack r
      else OnStack stack :: psabi_place gp fp (stack + words_of a) r
    | None => OnStack stack :: psabi_place gp fp (stack + words_of a) r
    end
  end.
