(* C11 6.4.4.1p5: "The type of an integer constant is the first of the corresponding list in
   which its value can be represented", for LP64 where long and long long have the same
   size and signedness (the property asks for size and signedness). *)
From Coq Require Import List NArith Bool.
From Chibicc Require Import Model.IntLit.
Import ListNotations.
Local Open Scope N_scope.

Definition fits (t : lit_ty) (v : N) : bool :=
  match t with
  | TInt => v <? 2147483648
  | TUInt => v <? 4294967296
  | TLong => v <? 9223372036854775808
  | TULong => v <? 18446744073709551616
  end.

(* the table of 6.4.4.1p5; [l] stands for either l/L or ll/LL *)
Definition candidates (decimal l u : bool) : list lit_ty :=
  match decimal, u, l with
  | true,  false, false => [TInt; TLong; TLong]
  | true,  true,  false => [TUInt; TULong; TULong]
  | true,  false, true  => [TLong; TLong]
  | true,  true,  true  => [TULong; TULong]
  | false, false, false => [TInt; TUInt; TLong; TULong; TLong; TULong]
  | false, true,  false => [TUInt; TULong; TULong]
  | false, false, true  => [TLong; TULong; TLong; TULong]
  | false, true,  true  => [TULong; TULong]
  end.

Definition first_fit (l : list lit_ty) (v : N) : option lit_ty := find (fun t => fits t v) l.
Definition c11_literal_type (decimal l u : bool) (v : N) : option lit_ty :=
  first_fit (candidates decimal l u) v.
