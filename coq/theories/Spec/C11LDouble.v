(* long double (x86-64: the 80-bit extended format, 64-bit significand, Flocq's binary_float 64 16384) on top of
   Spec/C11Float.v: 6.3.1.8p1 first rule ("if the corresponding real type of either operand is long double, the
   other operand is converted to long double"), 6.3.1.4 / 6.3.1.5 conversions (into long double every value of
   every other arithmetic type is exact; out of it: rounding to nearest-even for float / double, truncation
   for integers), FLT_EVAL_METHOD 0 arithmetic in the 64-bit significand, IEEE comparisons and truth.
   The trees: long double operations over long double constants, long double objects and operands of the other
   arithmetic types (any expression tree of C11Float.v, converted).  What is done with the long double value at
   the root (returning it, comparing two of them, testing it, converting it) is stated per consumer. *)
From Coq Require Import ZArith Bool List.
From Flocq Require Import Core Binary Bits.
From Chibicc Require Import Spec.C11Int Spec.C11Float.
Local Open Scope Z_scope.

Definition binary80 := binary_float 64 16384.
Definition prec80 : Prec_gt_0 64 := eq_refl.
Definition emax80 : BinarySingleNaN.Prec_lt_emax 64 16384 := eq_refl.

(* some NaN: which one is not specified by C *)
Definition nan80 : { x : binary80 | is_nan 64 16384 x = true } := exist _ (B754_nan 64 16384 false 1 eq_refl) eq_refl.

(* ---------- conversions ---------- *)
Definition l_of_int (z : Z) : binary80 := binary_normalize 64 16384 prec80 emax80 mode_NE z 0 false.
Definition l_of_fp {prec emax} (x : binary_float prec emax) : binary80 :=
  match x with
  | B754_zero _ _ s => B754_zero 64 16384 s
  | B754_infinity _ _ s => B754_infinity 64 16384 s
  | B754_nan _ _ _ _ _ => proj1_sig nan80
  | B754_finite _ _ s m e _ => binary_normalize 64 16384 prec80 emax80 mode_NE (cond_Zopp s (Zpos m)) e s
  end.
Definition l_of_val (v : val) : binary80 :=
  match v with VI z => l_of_int z | VS x => l_of_fp x | VD x => l_of_fp x end.

Definition s_of_l (x : binary80) : binary32 :=
  match x with
  | B754_zero _ _ s => B754_zero 24 128 s
  | B754_infinity _ _ s => B754_infinity 24 128 s
  | B754_nan _ _ _ _ _ => proj1_sig default_nan_pl32
  | B754_finite _ _ s m e _ => binary_normalize 24 128 prec32 emax32 mode_NE (cond_Zopp s (Zpos m)) e s
  end.
Definition d_of_l (x : binary80) : binary64 :=
  match x with
  | B754_zero _ _ s => B754_zero 53 1024 s
  | B754_infinity _ _ s => B754_infinity 53 1024 s
  | B754_nan _ _ _ _ _ => proj1_sig default_nan_pl64
  | B754_finite _ _ s m e _ => binary_normalize 53 1024 prec64 emax64 mode_NE (cond_Zopp s (Zpos m)) e s
  end.

(* long double -> any other arithmetic type *)
Definition convert_l (to : ty) (x : binary80) : option val :=
  match to with
  | TI IBool => Some (VI (b2z (negb (is_zero x))))
  | TI t => to_int t (int_part x)
  | TF32 => Some (VS (s_of_l x))
  | TF64 => Some (VD (d_of_l x))
  end.

(* ---------- operators ---------- *)
Definition arith_l (o : binop) (x y : binary80) : option binary80 :=
  match o with
  | Add => Some (Bplus 64 16384 prec80 emax80 (fun _ _ => nan80) mode_NE x y)
  | Sub => Some (Bminus 64 16384 prec80 emax80 (fun _ _ => nan80) mode_NE x y)
  | Mul => Some (Bmult 64 16384 prec80 emax80 (fun _ _ => nan80) mode_NE x y)
  | Div => Some (Bdiv 64 16384 prec80 emax80 (fun _ _ => nan80) mode_NE x y)
  | _ => None
  end.
Definition opp_l (x : binary80) : binary80 := Bopp 64 16384 (fun _ => nan80) x.
Definition cmp_l (o : binop) (x y : binary80) : Z := fcmp o (Bcompare 64 16384 x y).

(* ---------- trees ---------- *)
Inductive lexpr :=
| LLit (x : binary80)                   (* a long double constant *)
| LVar (n : nat)                        (* the value of long double object number n *)
| LOf (e : fexpr)                       (* an operand of another arithmetic type, converted to long double *)
| LNeg (a : lexpr)
| LBin (o : binop) (a b : lexpr).       (* + - * / *)

Section Eval.
Variable rho : nat -> val.               (* the objects of the other types *)
Variable lrho : nat -> binary80.         (* the long double objects *)

Fixpoint leval (e : lexpr) : option binary80 :=
  match e with
  | LLit x => Some x
  | LVar n => Some (lrho n)
  | LOf e => match feval rho e with Some v => Some (l_of_val v) | None => None end
  | LNeg a => match leval a with Some x => Some (opp_l x) | None => None end
  | LBin o a b => match leval a, leval b with Some x, Some y => arith_l o x y | _, _ => None end
  end.

(* what is done with long double values *)
Definition leval_cmp (o : binop) (a b : lexpr) : option val :=            (* a == b, a < b, ... : int *)
  match leval a, leval b with Some x, Some y => Some (VI (cmp_l o x y)) | _, _ => None end.
Definition leval_not (a : lexpr) : option val :=                           (* !a : int *)
  match leval a with Some x => Some (VI (b2z (is_zero x))) | None => None end.
Definition leval_cast (t : ty) (a : lexpr) : option val :=                 (* (t)a *)
  match leval a with Some x => convert_l t x | None => None end.
End Eval.

Fixpoint lwell_typed (e : lexpr) : bool :=
  match e with
  | LLit _ | LVar _ => true
  | LOf e => well_typed e
  | LNeg a => lwell_typed a
  | LBin o a b => lwell_typed a && lwell_typed b
  end.
