(* What is demanded of the text written by -E (independent of how the printer works).

   The text is read again by translation phases 1-3 (C11 5.1.1.2p1).  It is a faithful rendering of
   the preprocessing-token sequence the compiler proper consumes when
     (1) phase 3 ("the source file is decomposed into preprocessing tokens and sequences of
         white-space characters") decomposes it into exactly these preprocessing tokens - same kinds,
         same spellings, same number, same order (so that phases 5-7 see the same program),
     (2) no token of it is taken for the beginning of a preprocessing directive: by C11 6.10p2 a
         directive begins with a `#` that is the first token of a line, while a `#` that is still
         present after macro replacement is not one (6.10.3.4p3), and
     (3) phases 1 and 2 leave the text as it is, so that phase 3 really sees these bytes: phase 2
         deletes every backslash immediately followed by a new-line; phase 1 is implementation-defined,
         and the readers at hand (chibicc's tokenize_file, gcc, clang) drop a leading UTF-8 byte order
         mark EF BB BF and turn CR and CR LF into LF.
   The tokenizer is a parameter: the statement is about any phase-3 function returning tokens with
   their kind, spelling and the beginning-of-line mark. *)
From Coq Require Import List NArith Bool.
From Chibicc Require Import Model.Lexer.
Import ListNotations.
Local Open Scope N_scope.

Definition kind_eqb (a b : tkind) : bool :=
  match a, b with
  | LIdent, LIdent | LPunct, LPunct | LNum, LNum | LStr, LStr | LChr, LChr => true
  | _, _ => false
  end.

Fixpoint bytes_eqb (a b : list N) : bool :=
  match a, b with
  | [], [] => true
  | x :: a', y :: b' => (x =? y) && bytes_eqb a' b'
  | _, _ => false
  end.

(* a preprocessing token as far as the later phases are concerned: kind and spelling *)
Definition pptoken : Type := tkind * list N.
Definition pptoken_of (t : tok) : pptoken := (t_kind t, t_text t).

Fixpoint pptokens_eqb (a b : list pptoken) : bool :=
  match a, b with
  | [], [] => true
  | (k, x) :: a', (k', y) :: b' => kind_eqb k k' && bytes_eqb x y && pptokens_eqb a' b'
  | _, _ => false
  end.

(* 6.10p2: `#` first on its line *)
Definition begins_directive (t : tok) : bool :=
  t_bol t && match t_text t with [c] => c =? 35 | _ => false end.

Definition no_directive (l : list tok) : bool := forallb (fun t => negb (begins_directive t)) l.

(* (3) *)
Definition begins_with_bom (text : list N) : bool :=
  match text with a :: b :: c :: _ => (a =? 239) && (b =? 187) && (c =? 191) | _ => false end.
Fixpoint has_splice (text : list N) : bool :=
  match text with
  | [] => false
  | c :: r => ((c =? 92) && match r with d :: _ => d =? 10 | [] => false end) || has_splice r
  end.
Definition has_cr (text : list N) : bool := existsb (fun c => c =? 13) text.
Definition survives_phases_1_2 (text : list N) : bool :=
  negb (begins_with_bom text) && negb (has_splice text) && negb (has_cr text).

Section Spec.
Variable phase3 : list N -> lexres.

(* (1) *)
Definition same_tokens (text : list N) (given : list pptoken) : Prop :=
  exists l, phase3 text = LexOk l /\ map pptoken_of l = given.
(* (1), (2) and (3) *)
Definition faithful (text : list N) (given : list pptoken) : Prop :=
  exists l, phase3 text = LexOk l /\ map pptoken_of l = given /\ no_directive l = true /\
            survives_phases_1_2 text = true.

(* the same, executable (used by the tie on the bytes the real compiler wrote) *)
Definition same_tokens_b (text : list N) (given : list pptoken) : bool :=
  match phase3 text with LexOk l => pptokens_eqb (map pptoken_of l) given | LexErr => false end.
Definition faithful_b (text : list N) (given : list pptoken) : bool :=
  match phase3 text with
  | LexOk l => pptokens_eqb (map pptoken_of l) given && no_directive l && survives_phases_1_2 text
  | LexErr => false
  end.
End Spec.
