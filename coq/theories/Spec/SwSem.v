(* C03 (package sw): the structured semantics of the statements of C11 6.8 whose meaning is control:
   compound statements, if, for / while, do, break, continue, switch with case / default labels
   anywhere in its body (6.8.4.2), labelled statements and goto (6.8.1, 6.8.6.1).

   Style of Model/Lowering.v: the only observable actions are markers; every controlling
   expression is a marker (its evaluation is observable) followed by the consumption of one value
   from an oracle, so every statement about a run holds for EVERY sequence of outcomes of the
   controlling expressions.  An oracle value is a number: a condition is true iff it is not 0
   (6.8.4.1p2, 6.8.5p4); for a switch it names the case label whose constant the (promoted)
   controlling value matches (that the compare chain picks that label - widths, ranges, order - is
   Control.v / C03_switch_dispatch), a number that no case of the switch carries selects
   `default`, or nothing when there is none.

   This file does not mention jumps, positions or instruction lists.  "Jump to a label" is given
   its meaning by a SEEK mode: to execute a statement from label t is to skip - without evaluating
   anything - every part of it that precedes the label, to execute normally from the labelled
   statement on, and to complete every enclosing statement the way it completes when control
   reaches that point from inside (falling into the next statement of a block, into the next
   label, leaving an if, going round a loop: 6.8.5p4 "the loop body is executed repeatedly until the
   controlling expression compares equal to 0" holds no matter how the body was entered).
     switch (E) body   evaluates E, then executes body from `case v`; if there is no such label,
                       from `default`; if there is none, nothing (6.8.4.2p5).  A break in the body
                       ends the switch, a continue is not for the switch to handle (6.8.6.2/3).
                       Case labels inside a nested switch belong to that switch (6.8.4.2p2,p3).
     goto l            abandons every enclosing statement up to the function body, which is then
                       executed from label l (6.8.6.1p2: "an unconditional jump to the statement
                       prefixed by the named label in the enclosing function"); a named label is
                       visible everywhere in the function, also inside nested switches.
     goto *T[E]        [GNU labels as values] with T a table of label addresses &&l: evaluates E and
                       is goto l for the label whose address T holds at that index (the idiom of
                       threaded dispatch; an index outside the table has no meaning). *)
From Coq Require Import List Arith Bool.
Import ListNotations.

Inductive sstmt :=
| SMark (n : nat)
| SSkip
| SSeq (a b : sstmt)
| SIf (k : nat) (a b : sstmt)                                    (* if (E(k)) a else b *)
| SFor (init : list nat) (k : option nat) (inc : list nat) (body : sstmt)
      (* for (init; E(k); inc) body - init and inc are expressions (marker lists); while is for without them *)
| SDo (body : sstmt) (k : nat)                                   (* do body while (E(k)) *)
| SBreak
| SContinue
| SSwitch (k : nat) (body : sstmt)                               (* switch (E(k)) body *)
| SCase (c : nat) (s : sstmt)                                    (* case c: s *)
| SDefault (s : sstmt)                                           (* default: s *)
| SLabel (l : nat) (s : sstmt)                                   (* l: s *)
| SGoto (l : nat)                                                (* goto l; *)
| SGotoInd (k : nat) (tab : list nat).                           (* goto *T[E(k)];  with  T[] = { &&tab_0, &&tab_1, ... } *)

(* what a statement can be entered at, other than its beginning *)
Inductive starget := TCase (c : nat) | TDefault | TLabel (l : nat).

Definition starget_eqb (a b : starget) : bool :=
  match a, b with
  | TCase x, TCase y => x =? y
  | TDefault, TDefault => true
  | TLabel x, TLabel y => x =? y
  | _, _ => false
  end.

(* RSeek: the label looked for is not in this statement - nothing was evaluated, keep looking *)
Inductive soutcome := RNormal | RBreak | RCont | RGoto (l : nat) | RSeek.
Definition strace := list nat.
Definition soracle := list nat.
Definition sres := (strace * soracle * soutcome)%type.

(* mode: None = execute normally, Some t = looking for label t *)
Definition smode := option starget.

(* reaching the label `here` while in mode m *)
Definition sarrive (m : smode) (here : starget) : smode :=
  match m with
  | Some t => if starget_eqb t here then None else m
  | None => None
  end.

Definition spre (t : strace) (r : option sres) : option sres :=
  match r with Some (t1, o1, out) => Some (t ++ t1, o1, out) | None => None end.

(* a break in the body of a switch ends the switch *)
Definition sswitch_end (r : option sres) : option sres :=
  match r with Some (t, o, RBreak) => Some (t, o, RNormal) | _ => r end.

Section Loops.
Variable ex : sstmt -> soracle -> option sres.      (* normal execution of a statement *)

(* for: what follows one execution of the body (however it was entered), `loop` being the iteration
   from the controlling expression on *)
Definition sfor_after (loop : soracle -> option sres) (inc : list nat) (r : option sres) : option sres :=
  match r with
  | None => None
  | Some (t1, o1, RBreak) => Some (t1, o1, RNormal)
  | Some (t1, o1, RNormal) | Some (t1, o1, RCont) => spre (t1 ++ inc) (loop o1)
  | Some (t1, o1, out) => Some (t1, o1, out)             (* goto leaves the loop; label not in the body *)
  end.
(* one unit of fuel per iteration *)
Fixpoint sfor_loop (fuel : nat) (k : option nat) (inc : list nat) (body : sstmt) (o : soracle) : option sres :=
  match fuel with
  | O => None
  | S f =>
    match k with
    | None => sfor_after (sfor_loop f k inc body) inc (ex body o)
    | Some kk => match o with
                 | [] => None
                 | v :: o' => if v =? 0 then Some ([kk], o', RNormal)
                              else spre [kk] (sfor_after (sfor_loop f k inc body) inc (ex body o'))
                 end
    end
  end.

(* do: what follows one execution of the body *)
Definition sdo_after (loop : soracle -> option sres) (k : nat) (r : option sres) : option sres :=
  match r with
  | None => None
  | Some (t1, o1, RBreak) => Some (t1, o1, RNormal)
  | Some (t1, o1, RNormal) | Some (t1, o1, RCont) =>
    match o1 with
    | [] => None
    | v :: o2 => if v =? 0 then Some (t1 ++ [k], o2, RNormal) else spre (t1 ++ [k]) (loop o2)
    end
  | Some (t1, o1, out) => Some (t1, o1, out)
  end.
Fixpoint sdo_loop (fuel : nat) (body : sstmt) (k : nat) (o : soracle) : option sres :=
  match fuel with
  | O => None
  | S f => sdo_after (sdo_loop f body k) k (ex body o)
  end.
End Loops.

(* None = out of fuel or oracle exhausted *)
Fixpoint sexec (fuel : nat) (m : smode) (s : sstmt) (o : soracle) : option sres :=
  match fuel with
  | O => None
  | S f =>
    match s with
    | SMark n => match m with None => Some ([n], o, RNormal) | Some _ => Some ([], o, RSeek) end
    | SSkip => match m with None => Some ([], o, RNormal) | Some _ => Some ([], o, RSeek) end
    | SBreak => match m with None => Some ([], o, RBreak) | Some _ => Some ([], o, RSeek) end
    | SContinue => match m with None => Some ([], o, RCont) | Some _ => Some ([], o, RSeek) end
    | SGoto l => match m with None => Some ([], o, RGoto l) | Some _ => Some ([], o, RSeek) end
    | SGotoInd k tab =>
      match m with
      | None => match o with
                | [] => None
                | v :: o1 => match nth_error tab v with
                             | Some l => Some ([k], o1, RGoto l)   (* the operand is the address of label l *)
                             | None => None                        (* read past the table: undefined *)
                             end
                end
      | Some _ => Some ([], o, RSeek)
      end
    | SSeq a b =>
      match sexec f m a o with
      | Some (t1, o1, RNormal) => spre t1 (sexec f None b o1)
      | Some (t1, o1, RSeek) => spre t1 (sexec f m b o1)          (* not in a: look in b *)
      | r => r
      end
    | SIf k a b =>
      match m with
      | None => match o with
                | [] => None
                | v :: o1 => spre [k] (sexec f None (if v =? 0 then b else a) o1)
                end
      | Some _ => match sexec f m a o with                        (* the controlling expression is not evaluated *)
                  | Some (t1, o1, RSeek) => spre t1 (sexec f m b o1)
                  | r => r                                        (* found in a: at the end of a the if is complete *)
                  end
      end
    | SFor init k inc body =>
      match m with
      | None => spre init (sfor_loop (sexec f None) f k inc body o)
      | Some _ => sfor_after (sfor_loop (sexec f None) f k inc body) inc (sexec f m body o)
      end
    | SDo body k => sdo_after (sdo_loop (sexec f None) f body k) k (sexec f m body o)
    | SSwitch k body =>
      match m with
      | None => match o with
                | [] => None
                | v :: o1 =>
                  spre [k] (match sexec f (Some (TCase v)) body o1 with
                            | Some (_, _, RSeek) =>
                              match sexec f (Some TDefault) body o1 with
                              | Some (_, _, RSeek) => Some ([], o1, RNormal)
                              | r => sswitch_end r
                              end
                            | r => sswitch_end r
                            end)
                end
      | Some (TLabel _) => sswitch_end (sexec f m body o)
      | Some _ => Some ([], o, RSeek)                             (* its case labels are its own *)
      end
    | SCase c s1 => sexec f (sarrive m (TCase c)) s1 o
    | SDefault s1 => sexec f (sarrive m TDefault) s1 o
    | SLabel l s1 => sexec f (sarrive m (TLabel l)) s1 o
    end
  end.

(* a function body: run it; on goto l run it again from label l.  None also when a break / continue
   has nothing to bind to or a goto names a label the function does not have (constraint
   violations 6.8.6.1p1, 6.8.6.2p1, 6.8.6.3p1). *)
Fixpoint srun (fuel : nat) (m : smode) (body : sstmt) (o : soracle) : option (strace * soracle) :=
  match fuel with
  | O => None
  | S f =>
    match sexec f m body o with
    | Some (t, o1, RNormal) => Some (t, o1)
    | Some (t, o1, RGoto l) => match srun f (Some (TLabel l)) body o1 with
                               | Some (t2, o2) => Some (t ++ t2, o2)
                               | None => None
                               end
    | _ => None
    end
  end.

(* ---------- constraints of 6.8.1p3 and 6.8.4.2p3 (label names unique in the function; no two
   case constants of one switch equal; at most one default per switch) ---------- *)
(* case constants / default labels of the switch whose body this is (not those of nested switches) *)
Fixpoint scvals (s : sstmt) : list nat :=
  match s with
  | SSeq a b | SIf _ a b => scvals a ++ scvals b
  | SFor _ _ _ body | SDo body _ => scvals body
  | SCase c s1 => scvals s1 ++ [c]                  (* the order is immaterial here *)
  | SDefault s1 | SLabel _ s1 => scvals s1
  | _ => []
  end.
Fixpoint sndef (s : sstmt) : nat :=
  match s with
  | SSeq a b | SIf _ a b => sndef a + sndef b
  | SFor _ _ _ body | SDo body _ => sndef body
  | SDefault s1 => S (sndef s1)
  | SCase _ s1 | SLabel _ s1 => sndef s1
  | _ => 0
  end.
Fixpoint slabnames (s : sstmt) : list nat :=
  match s with
  | SSeq a b | SIf _ a b => slabnames a ++ slabnames b
  | SFor _ _ _ body | SDo body _ | SSwitch _ body => slabnames body
  | SLabel l s1 => slabnames s1 ++ [l]
  | SCase _ s1 | SDefault s1 => slabnames s1
  | _ => []
  end.
Fixpoint snodup (l : list nat) : bool :=
  match l with [] => true | x :: r => negb (existsb (Nat.eqb x) r) && snodup r end.
Fixpoint swf (s : sstmt) : bool :=
  match s with
  | SSeq a b | SIf _ a b => swf a && swf b
  | SFor _ _ _ body | SDo body _ => swf body
  | SSwitch _ body => snodup (scvals body) && (sndef body <=? 1) && swf body
  | SCase _ s1 | SDefault s1 | SLabel _ s1 => swf s1
  | _ => true
  end.
Definition swf_fn (body : sstmt) : bool := swf body && snodup (slabnames body).

(* ---------- constraints on where the jump statements and labels may stand ---------- *)
(* 6.8.6.2p1 continue only in a loop body; 6.8.6.3p1 break only in a loop body or switch body;
   6.8.4.2p2... case / default only in a switch body; 6.8.6.1p1 the label of a goto is one of the
   function.  inloop / inbrk / insw: a loop / a loop or switch / a switch encloses the statement. *)
Fixpoint sgoto_names (s : sstmt) : list nat :=
  match s with
  | SSeq a b | SIf _ a b => sgoto_names a ++ sgoto_names b
  | SFor _ _ _ body | SDo body _ | SSwitch _ body => sgoto_names body
  | SCase _ s1 | SDefault s1 | SLabel _ s1 => sgoto_names s1
  | SGoto l => [l]
  | SGotoInd _ tab => tab
  | _ => []
  end.
Fixpoint splaced (inloop inbrk insw : bool) (s : sstmt) : bool :=
  match s with
  | SSeq a b | SIf _ a b => splaced inloop inbrk insw a && splaced inloop inbrk insw b
  | SFor _ _ _ body | SDo body _ => splaced true true insw body
  | SSwitch _ body => splaced inloop true true body
  | SCase _ s1 | SDefault s1 => insw && splaced inloop inbrk insw s1
  | SLabel _ s1 => splaced inloop inbrk insw s1
  | SBreak => inbrk
  | SContinue => inloop
  | _ => true
  end.
Definition svalid_fn (body : sstmt) : bool :=
  splaced false false false body && forallb (fun l => existsb (Nat.eqb l) (slabnames body)) (sgoto_names body).
