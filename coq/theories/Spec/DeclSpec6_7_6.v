(* C08 (package decl): C11 6.7.6 "Declarators" - the abstract syntax of declarators and abstract declarators,
   how they are written (token lists), the type the standard assigns to the declared identifier, parameter
   type adjustment (6.7.6.3p7-8), and sizeof / _Alignof of the resulting type on the LP64 System V psABI.
   Written from the standard, independently of parse.c.

   Grammar (6.7.6p1, 6.7.7p1), with the identifier optional so that one syntax covers declarators
   (identifier present) and abstract declarators (identifier omitted):

       declarator         :  pointer_opt direct-declarator
       pointer            :  * type-qualifier-list_opt  |  * type-qualifier-list_opt pointer
       direct-declarator  :  identifier  |  ( declarator )
                          |  direct-declarator [ assignment-expression_opt ]
                          |  direct-declarator ( parameter-type-list )  |  direct-declarator ( )
       parameter-type-list:  parameter-list  |  parameter-list , ...
       parameter-declaration: declaration-specifiers declarator | declaration-specifiers abstract-declarator_opt

   Not represented: `static` / type qualifiers / `*` inside [ ] (they do not change the array type; Model/Declarator.v
   has the tokens, Proofs/DeclaratorRefute.v shows that parse.c skips them), K&R identifier lists,
   variable length arrays, _Atomic as a pointer qualifier, attributes. *)
From Coq Require Import List ZArith Bool.
From Chibicc Require Import Spec.DeclSyntax.
Import ListNotations.
Local Open Scope Z_scope.

(* ------------------------------------------------------------------ types (6.2.5p20: derived types) *)

Inductive fkind :=
| FNoProto      (* ( )            : no information about the parameters (6.7.6.3p14) *)
| FProto        (* (void) / (T1, .., Tn) *)
| FVariadic.    (* (T1, .., Tn, ...) *)

Inductive ty :=
| TLeaf (l : leaf)
| TPtr (q : list qual) (t : ty)            (* q-qualified pointer to t *)
| TArr (n : option Z) (t : ty)             (* array of n t / array of unknown bound of t *)
| TFun (ret : ty) (ps : list ty) (k : fkind).   (* function returning ret; ps = the ADJUSTED parameter types *)

(* ------------------------------------------------------------------ syntax *)

Inductive decl :=
| DPtr (q : list qual) (d : decl)    (* * q d *)
| DDirect (dd : direct)
with direct :=
| DIdent (x : option ident)                (* identifier, or nothing in an abstract declarator *)
| DParen (d : decl)                  (* ( d ) *)
| DArray (dd : direct) (n : option Z)      (* dd [ n ] ,  dd [ ] *)
| DFunc (dd : direct) (ps : params)        (* dd ( ps ) *)
with params :=
| PUnspec                                  (* ( ) *)
| PVoid                                    (* (void) *)
| PList (l : plist) (variadic : bool)      (* (p1, .., pn)  /  (p1, .., pn, ...) , n >= 1 *)
with plist :=
| POne (p : param)
| PCons (p : param) (l : plist)
with param :=
| Param (b : leaf) (d : decl).       (* declaration-specifiers (abstract-)declarator *)

Scheme decl_mind := Induction for decl Sort Prop
  with direct_mind := Induction for direct Sort Prop
  with params_mind := Induction for params Sort Prop
  with plist_mind := Induction for plist Sort Prop
  with param_mind := Induction for param Sort Prop.
Combined Scheme decl_mutind from decl_mind, direct_mind, params_mind, plist_mind, param_mind.

(* how a declarator is written *)
Fixpoint print_decl (d : decl) : list tok :=
  match d with
  | DPtr q d' => TStar :: map TQual q ++ print_decl d'
  | DDirect dd => print_dd dd
  end
with print_dd (dd : direct) : list tok :=
  match dd with
  | DIdent (Some x) => [TIdent x]
  | DIdent None => []
  | DParen d => TLParen :: print_decl d ++ [TRParen]
  | DArray dd' (Some n) => print_dd dd' ++ [TLBrack; TNum n; TRBrack]
  | DArray dd' None => print_dd dd' ++ [TLBrack; TRBrack]
  | DFunc dd' ps => print_dd dd' ++ TLParen :: print_params ps ++ [TRParen]
  end
with print_params (ps : params) : list tok :=
  match ps with
  | PUnspec => []
  | PVoid => [TBase LVoid]
  | PList l v => print_plist l ++ (if v then [TComma; TEllipsis] else [])
  end
with print_plist (l : plist) : list tok :=
  match l with
  | POne p => print_param p
  | PCons p l' => print_param p ++ TComma :: print_plist l'
  end
with print_param (p : param) : list tok :=
  match p with Param b d => TBase b :: print_decl d end.

(* the declared identifier *)
Fixpoint name_of (d : decl) : option ident :=
  match d with DPtr _ d' => name_of d' | DDirect dd => name_of_dd dd end
with name_of_dd (dd : direct) : option ident :=
  match dd with
  | DIdent x => x
  | DParen d => name_of d
  | DArray dd' _ => name_of_dd dd'
  | DFunc dd' _ => name_of_dd dd'
  end.

(* ------------------------------------------------------------------ the type of the identifier
   6.7.6p3-5 and 6.7.6.1-3 speak of the "derived-declarator-type-list" of a declarator D: the sequence of
   derivations such that the identifier declared by `T D` has type `derived-declarator-type-list T`.
     6.7.6p4     D = ident             the type is T                             (empty list)
     6.7.6p6     D = ( D' )            as for D'
     6.7.6.1p1   D = * q D'            if `T D'` gives `dtl T`, `T D` gives `dtl q-pointer to T`
     6.7.6.2p3   D = D' [n] / D' []    ...                      `dtl array of T`
     6.7.6.3p5   D = D' (params)       ...                      `dtl function(params) returning T`
   [dtl d] is that list, outermost derivation first (read as the English phrase reads). *)

Inductive deriv :=
| DvPtr (q : list qual)
| DvArr (n : option Z)
| DvFun (ps : list ty) (k : fkind).

Definition derive (s : deriv) (t : ty) : ty :=
  match s with
  | DvPtr q => TPtr q t
  | DvArr n => TArr n t
  | DvFun ps k => TFun t ps k
  end.

(* `l T` : "array of pointer to T" = array of (pointer to T) *)
Definition apply_dtl (l : list deriv) (t : ty) : ty := fold_right derive t l.

(* 6.7.6.3p7: "array of type" -> "qualified pointer to type" (the qualifiers are those written inside [ ], which
   this syntax does not carry: none); p8: "function returning type" -> "pointer to function returning type" *)
Definition adjust (t : ty) : ty :=
  match t with
  | TArr _ e => TPtr [] e
  | TFun _ _ _ => TPtr [] t
  | _ => t
  end.

Definition kind_of (ps : params) : fkind :=
  match ps with
  | PUnspec => FNoProto
  | PVoid => FProto                          (* 6.7.6.3p10: (void) = no parameters *)
  | PList _ v => if v then FVariadic else FProto
  end.

Fixpoint dtl (d : decl) : list deriv :=
  match d with
  | DPtr q d' => dtl d' ++ [DvPtr q]
  | DDirect dd => dtl_dd dd
  end
with dtl_dd (dd : direct) : list deriv :=
  match dd with
  | DIdent _ => []
  | DParen d => dtl d
  | DArray dd' n => dtl_dd dd' ++ [DvArr n]
  | DFunc dd' ps => dtl_dd dd' ++ [DvFun (param_types ps) (kind_of ps)]
  end
with param_types (ps : params) : list ty :=
  match ps with
  | PUnspec => []
  | PVoid => []
  | PList l _ => plist_types l
  end
with plist_types (l : plist) : list ty :=
  match l with
  | POne p => [param_type p]
  | PCons p l' => param_type p :: plist_types l'
  end
with param_type (p : param) : ty :=
  match p with Param b d => adjust (apply_dtl (dtl d) (TLeaf b)) end.

(* the type of the identifier declared by `T d` (of the type name `T d` if d is abstract, 6.7.7p2) *)
Definition type_of (T : ty) (d : decl) : ty := apply_dtl (dtl d) T.

(* ------------------------------------------------------------------ sizeof / _Alignof, LP64 psABI
   psABI Figure 3.1: char 1/1, short 2/2, int 4/4, long 8/8, double 8/8, any pointer 8/8; 3.1.2: an array
   uses the alignment of its elements and n times their size.  C11 6.5.3.4p1: sizeof and _Alignof are not
   applicable to function types and incomplete types (void, array of unknown bound): None.
   The alignment of an array of unknown bound is still that of its element (it is what a flexible array
   member or an `extern T a[];` object is aligned to). *)

Definition leaf_sizeof (l : leaf) : option Z :=
  match l with
  | LVoid => None | LChar => Some 1 | LShort => Some 2 | LInt => Some 4 | LLong => Some 8 | LDouble => Some 8
  | LAgg s _ => Some s
  end.
Definition leaf_alignof (l : leaf) : option Z :=
  match l with
  | LVoid => None | LChar => Some 1 | LShort => Some 2 | LInt => Some 4 | LLong => Some 8 | LDouble => Some 8
  | LAgg _ a => Some a
  end.

Fixpoint sizeof (t : ty) : option Z :=
  match t with
  | TLeaf l => leaf_sizeof l
  | TPtr _ _ => Some 8
  | TArr (Some n) e => match sizeof e with Some s => Some (n * s) | None => None end
  | TArr None _ => None
  | TFun _ _ _ => None
  end.

Fixpoint alignof (t : ty) : option Z :=
  match t with
  | TLeaf l => leaf_alignof l
  | TPtr _ _ => Some 8
  | TArr _ e => alignof e
  | TFun _ _ _ => None
  end.

(* ------------------------------------------------------------------ an implementation limit (C11 5.2.4.1)
   An implementation may limit the size of objects.  chibicc keeps sizes in a C int and (since fix fbdf355) rejects,
   with the diagnostic "array too large", every array derivation WRITTEN in a declarator - parameters included,
   before their adjustment - whose bound times the element size exceeds INT32_MAX, a zero-sized element counting
   as one byte.  [oversize d T]: `T d` contains such a derivation.  [elems_ok d T]: every array derivation in `T d`
   has a complete object type as element type (6.7.6.2p1) - only then is "the element size" defined - and the base
   types of the parameters are in range. *)
Definition esize (t : ty) : Z := match sizeof t with Some s => Z.max s 1 | None => 1 end.
Definition array_too_big (n : option Z) (elem : ty) : bool :=
  match n with Some k => k * esize elem >? 2147483647 | None => false end.
Definition is_complete (t : ty) : bool := match sizeof t with Some _ => true | None => false end.
(* a base type given by numbers ([LAgg]) is itself an object of less than 2 GiB *)
Definition leaf_in_range (l : leaf) : bool :=
  match l with LAgg s _ => (0 <=? s) && (s <=? 2147483647) | _ => true end.

Fixpoint oversize (d : decl) (T : ty) : bool :=
  match d with
  | DPtr q d' => oversize d' (TPtr q T)
  | DDirect dd => oversize_dd dd T
  end
with oversize_dd (dd : direct) (T : ty) : bool :=
  match dd with
  | DIdent _ => false
  | DParen d => oversize d T
  | DArray dd' n => array_too_big n T || oversize_dd dd' (TArr n T)
  | DFunc dd' ps => oversize_params ps || oversize_dd dd' (TFun T (param_types ps) (kind_of ps))
  end
with oversize_params (ps : params) : bool :=
  match ps with
  | PUnspec => false
  | PVoid => false
  | PList l _ => oversize_plist l
  end
with oversize_plist (l : plist) : bool :=
  match l with
  | POne p => oversize_param p
  | PCons p l' => oversize_param p || oversize_plist l'
  end
with oversize_param (p : param) : bool :=
  match p with Param b d => oversize d (TLeaf b) end.

Fixpoint elems_ok (d : decl) (T : ty) : bool :=
  match d with
  | DPtr q d' => elems_ok d' (TPtr q T)
  | DDirect dd => elems_ok_dd dd T
  end
with elems_ok_dd (dd : direct) (T : ty) : bool :=
  match dd with
  | DIdent _ => true
  | DParen d => elems_ok d T
  | DArray dd' n => is_complete T && elems_ok_dd dd' (TArr n T)
  | DFunc dd' ps => elems_ok_params ps && elems_ok_dd dd' (TFun T (param_types ps) (kind_of ps))
  end
with elems_ok_params (ps : params) : bool :=
  match ps with
  | PUnspec => true
  | PVoid => true
  | PList l _ => elems_ok_plist l
  end
with elems_ok_plist (l : plist) : bool :=
  match l with
  | POne p => elems_ok_param p
  | PCons p l' => elems_ok_param p && elems_ok_plist l'
  end
with elems_ok_param (p : param) : bool :=
  match p with Param b d => leaf_in_range b && elems_ok d (TLeaf b) end.

(* ------------------------------------------------------------------ which declarators are C11 *)

Definition is_fun (t : ty) : bool := match t with TFun _ _ _ => true | _ => false end.
Definition is_arr (t : ty) : bool := match t with TArr _ _ => true | _ => false end.
Definition is_void_ty (t : ty) : bool := match t with TLeaf LVoid => true | _ => false end.
Definition is_func_dd (dd : direct) : bool := match dd with DFunc _ _ => true | _ => false end.
Definition is_empty_decl (d : decl) : bool :=
  match d with DDirect (DIdent None) => true | _ => false end.

(* the syntactic side:
   - ( ) never encloses nothing: `( abstract-declarator )` needs an abstract declarator (6.7.7p1);
   - 6.7.6.3p1 "a function declarator shall not specify a return type that is a function type or an array type",
     as far as it can be seen in the declarator itself: no [ ] or ( ) suffix directly behind a parameter list;
   - 6.7.6.2p1 the bound, if present, is greater than zero (zero is accepted too, a common extension);
   - 6.7.6.3p10 `void` is a parameter type only as the whole list `(void)`. *)
Fixpoint c11_ok (d : decl) : bool :=
  match d with
  | DPtr _ d' => c11_ok d'
  | DDirect dd => c11_ok_dd dd
  end
with c11_ok_dd (dd : direct) : bool :=
  match dd with
  | DIdent _ => true
  | DParen d => negb (is_empty_decl d) && c11_ok d
  | DArray dd' n => negb (is_func_dd dd') && c11_ok_dd dd' && match n with Some k => 0 <=? k | None => true end
  | DFunc dd' ps => negb (is_func_dd dd') && c11_ok_dd dd' && c11_ok_params ps
  end
with c11_ok_params (ps : params) : bool :=
  match ps with
  | PUnspec => true
  | PVoid => true
  | PList l _ => c11_ok_plist l
  end
with c11_ok_plist (l : plist) : bool :=
  match l with
  | POne p => c11_ok_param p
  | PCons p l' => c11_ok_param p && c11_ok_plist l'
  end
with c11_ok_param (p : param) : bool :=
  match p with Param b d => c11_ok d && negb (is_void b && match dtl d with [] => true | _ => false end) end.

(* the semantic side, on types: 6.7.6.2p1 (no arrays of functions), 6.7.6.3p1 (no functions returning arrays or
   functions); parameter types are adjusted and not void *)
Fixpoint valid_ty (t : ty) : bool :=
  match t with
  | TLeaf _ => true
  | TPtr _ t' => valid_ty t'
  | TArr n e => negb (is_fun e) && valid_ty e && match n with Some k => 0 <=? k | None => true end
  | TFun r ps k =>
      negb (is_fun r) && negb (is_arr r) && valid_ty r &&
      forallb (fun p => negb (is_fun p) && negb (is_arr p) && negb (is_void_ty p) && valid_ty p) ps &&
      match k, ps with
      | FNoProto, [] => true
      | FNoProto, _ :: _ => false
      | FProto, _ => true
      | FVariadic, [] => false
      | FVariadic, _ :: _ => true
      end
  end.

(* ------------------------------------------------------------------ every type has a declarator (unparse)
   [decl_for t inner]: the base type and the declarator that give `inner`'s identifier the type
   `dtl(inner) t`; with inner = a plain identifier (or nothing) this is how the type t is written in C. *)

Definition as_direct (d : decl) : direct :=
  match d with DDirect dd => dd | DPtr _ _ => DParen d end.

Fixpoint decl_for (t : ty) (inner : decl) {struct t} : leaf * decl :=
  match t with
  | TLeaf l => (l, inner)
  | TPtr q t' => decl_for t' (DPtr q inner)
  | TArr n t' => decl_for t' (DDirect (DArray (as_direct inner) n))
  | TFun r ps k =>
      let param_for (p : ty) : param :=
        let bd := decl_for p (DDirect (DIdent None)) in Param (fst bd) (snd bd) in
      let pl := (fix go (p : ty) (l : list ty) {struct l} : plist :=
                   match l with
                   | [] => POne (param_for p)
                   | p' :: l' => PCons (param_for p) (go p' l')
                   end) in
      let pars := match ps with
                  | [] => match k with FProto => PVoid | _ => PUnspec end
                  | p :: l => PList (pl p l) (match k with FVariadic => true | _ => false end)
                  end in
      decl_for r (DDirect (DFunc (as_direct inner) pars))
  end.

Definition declarator_of (t : ty) (x : option ident) : leaf * decl :=
  decl_for t (DDirect (DIdent x)).
