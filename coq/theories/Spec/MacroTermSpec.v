(* What C11 6.10.3.4 demands of rescanning, as far as termination is concerned, stated on results:
   (1) preprocessing a text comes to an end with a token list or a diagnosed error ([decided]);
       for a fuelled evaluator this means: some amount of fuel is enough, and more fuel changes nothing;
   (2) it comes to an end because nothing is left to replace, not because replacement was given up:
       6.10.3.4p1 "the resulting preprocessing token sequence is rescanned, along with all subsequent
       preprocessing tokens of the source file, for more macro names to replace" - so a name of an
       object-like macro survives in the result only if it was met during the rescan of its own
       replacement (6.10.3.4p2: "it is not replaced ... no longer available for further replacement");
       such tokens are the ones marked with their own name ([exempt]).
   (A function-like macro name may survive unmarked: it is replaced only if the NEXT token is "(",
   6.10.3p10, and that token may appear only later, e.g. as the replacement of another macro.) *)
From Coq Require Import List NArith Bool.
From Chibicc Require Import Model.Lexer Model.Macro.
Import ListNotations.

Definition decided {A} (r : mres A) : bool := match r with MOk _ | MErr => true | _ => false end.

(* marked as met inside its own replacement *)
Definition exempt (t : mtok) : bool := hs_contains (m_hs t) (m_txt t).

Definition objlike_name (e : env) (t : mtok) : bool :=
  match find_macro e t with Some m => mc_obj m | None => false end.

(* nothing replaceable is left among the object-like macro names of the result *)
Definition settled_tok (e : env) (t : mtok) : bool := negb (objlike_name e t) || exempt t.
Definition settled (e : env) (out : list mtok) : bool := forallb (settled_tok e) out.

Definition mres_eqb (a b : mres (list mtok)) : bool :=
  match a, b with
  | MOk x, MOk y => (Nat.eqb (length x) (length y)) && forallb (fun p => txt_eqb (m_txt (fst p)) (m_txt (snd p))) (combine x y)
  | MErr, MErr | MFuel, MFuel | MUnsup, MUnsup => true
  | _, _ => false
  end.

(* the verdict on one evaluation: run f = result with fuel f *)
Definition terminated_at (run : nat -> mres (list mtok)) (f : nat) : bool :=
  decided (run f) && mres_eqb (run f) (run (2 * f)%nat).
