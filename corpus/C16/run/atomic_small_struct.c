// b6c913b: compare-exchange / exchange on an _Atomic struct of <= 8 bytes compared the address, not the contents
// LIBS: -latomic
#include <stdatomic.h>
int printf(const char *, ...);
struct S { int a, b; }; _Atomic struct S s = {1, 2}; struct T { char c[3]; char d; }; _Atomic struct T t = {{1, 2, 3}, 4};
int main(void) { struct S e = {1, 2}, n = {3, 4}, w = {9, 9}; int ok = atomic_compare_exchange_strong(&s, &e, n); struct S r = s;
  int ok2 = atomic_compare_exchange_strong(&s, &w, e); struct S o = atomic_exchange(&s, e); struct S r2 = s;
  struct T te = {{1, 2, 3}, 4}, tn = {{5, 6, 7}, 8}; int ok3 = atomic_compare_exchange_strong(&t, &te, tn); struct T tr = t;
  printf("%d %d %d | %d %d %d | %d %d %d %d | %d %d %d\n", ok, r.a, r.b, ok2, w.a, w.b, o.a, o.b, r2.a, r2.b, ok3, tr.c[2], tr.d); return 0; }
