// seeded/C05_4: a braced list walks positionally across a RUN of unnamed bit-fields (6.7.9p9: unnamed members do not take part in initialization)
int printf(const char *, ...);
struct A { int a : 3; int : 5; int : 0; int b; int c; };
struct B { unsigned x : 4; unsigned : 2; unsigned : 3; unsigned : 1; unsigned y : 5; int : 7; int : 0; long z; char w; };
struct C { char p; struct A in; struct { int m : 2; int : 2; int : 2; int n : 2; } an; int q; };
struct A ga = { 1, 2, 3 }, gd = { .a = 2, 20, 30 }; struct B gb = { 9, 17, 123456789012L, 'w' }; struct C gc = { 'p', { 1, 2, 3 }, { 1, -2 }, 77 }; struct C ge = { 'p', 1, 2, 3, 1, -2, 77 };
int main(void) { struct A la = { 1, 2, 3 }, ld = { .a = 2, 20, 30 }; struct B lb = { 9, 17, 123456789012L, 'w' }; struct C lc = { 'p', { 1, 2, 3 }, { 1, -2 }, 77 }; struct C le = { 'p', 1, 2, 3, 1, -2, 77 };
  printf("%d %d %d | %d %d %d | %d %d %ld %c | %c %d %d %d %d %d %d | %c %d %d %d %d %d %d\n", ga.a, ga.b, ga.c, gd.a, gd.b, gd.c, gb.x, gb.y, gb.z, gb.w, gc.p, gc.in.a, gc.in.b, gc.in.c, gc.an.m, gc.an.n, gc.q, ge.p, ge.in.a, ge.in.b, ge.in.c, ge.an.m, ge.an.n, ge.q);
  printf("%d %d %d | %d %d %d | %d %d %ld %c | %c %d %d %d %d %d %d | %c %d %d %d %d %d %d\n", la.a, la.b, la.c, ld.a, ld.b, ld.c, lb.x, lb.y, lb.z, lb.w, lc.p, lc.in.a, lc.in.b, lc.in.c, lc.an.m, lc.an.n, lc.q, le.p, le.in.a, le.in.b, le.in.c, le.an.m, le.an.n, le.q); return 0; }
