// e: an expression of struct type initializes the first subobject of ITS type (brace elision, 6.7.9p13/p20); static union bit-field (masked)
int printf(const char *, ...);
typedef struct In { int x, y; } In; struct Mid { In in; int w; }; struct Out { struct Mid m; int z; };
const In ci = { 8, 9 }; union U { unsigned a : 4; unsigned b; }; union U gu = { 0xff }; union V { int : 3; signed f : 5; long l; }; union V gv = { -3 };

int main(void) { In i = { 5, 4 }; struct Mid mm = { i, 3 }; struct Out o = { i, 6, 7 }, o2 = { mm, 1 }, o3 = { { i, 2 }, 3 }; struct Mid m2 = { ci, 1 }; volatile In vi = { 1, 2 }; In copy = i; struct Out o4 = o;
  union U lu = { 0xff }; union V lv = { -3 }; printf("%u %u %d %d | ", gu.b, lu.b, gv.f, lv.f);
  printf("%d %d %d %d | %d %d %d %d | %d %d %d | %d %d %d | %d %d\n", o.m.in.x, o.m.in.y, o.m.w, o.z, o2.m.in.x, o2.m.in.y, o2.m.w, o2.z, o3.m.in.y, o3.m.w, o3.z, m2.in.x, m2.in.y, m2.w, copy.y, o4.z); return 0; }
