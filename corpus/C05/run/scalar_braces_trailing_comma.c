// dec9531: a trailing comma inside the braces of a scalar initializer
int printf(const char*,...); int s = {3,}; int main(void){ int l = {4,}; double d = {1.5,}; char *p = {"x",}; printf("%d %d %g %s\n", s, l, d, p); return 0; }
