// 43bd8ea nested range designator continues after the END of the range; 50fe612 a string reaching a char array by elision through an array
int printf(const char *, ...);
int x[2][6] = { [1][2 ... 4] = 7, 8 }; int y[2][3] = { [0][1 ... 2] = 5, 6 };
struct A { char s[2][3]; } ga = { "ab" }; struct B { char *names[2]; int n; } gb = { "a", "b", 3 }; char m[2][2][3] = { "ab", "cd", "ef" };
int main(void) { int lx[2][6] = { [1][2 ... 4] = 7, 8 }; struct A la = { "ab", "c" }; struct B lb = { "a", "b", 3 };
  for (int i = 0; i < 12; i++) printf("%d %d ", ((int *)x)[i], ((int *)lx)[i]); for (int i = 0; i < 6; i++) printf("%d ", ((int *)y)[i]);
  printf("| %s %d %s %s %d %s %s %d %s %s %s\n", ga.s[0], ga.s[1][0], gb.names[0], gb.names[1], gb.n, la.s[0], la.s[1], lb.n, m[0][0], m[0][1], m[1][0]); return 0; }
