// 666798d: a function returning a struct in memory must return the buffer address in %rax
// TWO: struct_return_rax.aux.c
int printf(const char *, ...);
struct Big { long a[5]; };
struct Big fbig(int k) { struct Big b = { { k, k + 1, k + 2, k + 3, k + 4 } }; return b; }
struct F3 { float x, y, z; };
struct F3 *edge;
struct F3 f3(void) { return *edge; }
long probe(void);
int main(void) { printf("%ld\n", probe()); return 0; }
