// defac1e / 91ac827: va_start after named stack parameters; a va_list handed to libc
#include <stdarg.h>
int printf(const char *, ...); int vsnprintf(char *, unsigned long, const char *, va_list);
long sum7(int a, int b, int c, int d, int e, int f, int g, ...) { va_list ap; va_start(ap, g); long s = a + b + c + d + e + f + g; s += va_arg(ap, int); s += (long)va_arg(ap, double); s += va_arg(ap, int); va_end(ap); return s; }
double dsum(double a, double b, double c, double d, double e, double f, double g, double h, double i, ...) { va_list ap; va_start(ap, i); double s = a + i; s += va_arg(ap, double); s += va_arg(ap, int); va_end(ap); return s; }
void pr(char *buf, const char *fmt, ...) { va_list ap; va_start(ap, fmt); vsnprintf(buf, 100, fmt, ap); va_end(ap); }
int main(void) { char b[100]; pr(b, "%g %g %g %d %g %s %g %g %g %g %g %d", 1.0, 2.0, 3.0, 4, 5.0, "s", 6.0, 7.0, 8.0, 9.0, 10.0, 11); printf("%ld %g %s\n", sum7(1, 2, 3, 4, 5, 6, 7, 8, 9.0, 10), dsum(1, 2, 3, 4, 5, 6, 7, 8, 9, 10.0, 11), b); return 0; }
