// b13f5ac / c33cf90: va_arg of small structs passed in registers; va_start after named struct / long double parameters
#include <stdarg.h>
int printf(const char *, ...);
struct P { int a, b; }; struct D { double d; }; struct M { long l; double d; }; struct B { long a, b, c; }; struct F2 { float x, y; };
int f(int n, ...) { va_list ap; va_start(ap, n); struct P p = va_arg(ap, struct P); struct D d = va_arg(ap, struct D); int k = va_arg(ap, int); struct M m = va_arg(ap, struct M); struct B b = va_arg(ap, struct B); struct F2 q = va_arg(ap, struct F2); double z = va_arg(ap, double); va_end(ap);
  return p.a + p.b + (int)d.d + k + (int)m.l + (int)m.d + (int)b.c + (int)(q.x + q.y) + (int)z; }
int g(struct P p, ...) { va_list ap; va_start(ap, p); int a = va_arg(ap, int); double d = va_arg(ap, double); va_end(ap); return p.a * 100 + a * 10 + (int)d; }
int h(long double x, ...) { va_list ap; va_start(ap, x); int a = va_arg(ap, int); double d = va_arg(ap, double); va_end(ap); return (int)x * 100 + a * 10 + (int)d; }
int k(struct D s, struct M m, ...) { va_list ap; va_start(ap, m); int a = va_arg(ap, int); double d = va_arg(ap, double); long double ld = va_arg(ap, long double); va_end(ap); return (int)s.d * 1000 + (int)m.d * 100 + a * 10 + (int)d + (int)ld; }
int many(int a1, int a2, int a3, int a4, int a5, struct P p, ...) { va_list ap; va_start(ap, p); struct P q = va_arg(ap, struct P); int z = va_arg(ap, int); va_end(ap); return a5 + p.b * 10 + q.a * 100 + z * 1000; }
int main(void) { struct P p = {1, 2}; struct D d = {3.0}; struct M m = {5, 6.0}; struct B b = {7, 8, 9}; struct F2 q = {1.5f, 2.5f};
  printf("%d %d %d %d %d\n", f(3, p, d, 4, m, b, q, 10.0), g(p, 3, 4.0), h(2.0L, 3, 4.0), k(d, m, 3, 4.0, 5.0L), many(1, 2, 3, 4, 5, p, p, 7)); return 0; }
