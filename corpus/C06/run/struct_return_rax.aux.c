#include <sys/mman.h>
struct Big { long a[5]; }; struct F3 { float x, y, z; }; extern struct F3 *edge; struct F3 f3(void);
long probe(void) {
  struct Big buf; void *ret;
  __asm__ volatile("mov %1, %%rdi\n\tmov $7, %%esi\n\tcall fbig\n\tmov %%rax, %0" : "=r"(ret) : "r"(&buf) : "rdi", "rsi", "rax", "rcx", "rdx", "r8", "r9", "r10", "r11", "memory", "cc");
  long ok = (ret == (void *)&buf) * 100 + buf.a[4];
  /* 90e414a: a 12-byte struct of three floats at the very end of a mapped page */
  char *pg = mmap(0, 8192, PROT_READ | PROT_WRITE, MAP_PRIVATE | MAP_ANONYMOUS, -1, 0); mprotect(pg + 4096, 4096, PROT_NONE);
  edge = (struct F3 *)(pg + 4096 - sizeof(struct F3)); edge->x = 1; edge->y = 2; edge->z = 3;
  struct F3 r = f3();
  return ok * 10 + (long)(r.x + r.y + r.z);
}
