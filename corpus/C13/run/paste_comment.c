// dda2440: tokens ending a paste buffer / line comment without a new-line
// EXPECT: 3 1\n
int printf(const char *, ...);
#define CAT(a, b) a##b
#define DIV(a, b) a / b // trailing comment in a definition
int main(void) { int CAT(x, 1) = 6; printf("%d %d\n", DIV(x1, 2), CAT(0x, 1)); return 0; }
