// 92d0418: an empty struct (GNU) passed or returned by value: internal error / assertion
int printf(const char *, ...);
struct E {}; struct E ge;
int f(int a, struct E e, int b) { return a * 10 + b; }
struct E g(int x) { struct E r; return r; }
int main(void) { struct E e; e = g(1); printf("%d %d\n", f(1, e, 2), (int)sizeof(struct E)); return 0; }
