// seeded/C13_4: constants between 2^31 and 2^32 (and around them) in every position where the code generator may write an immediate: the output must assemble
int printf(const char *, ...);
static int sw(long x) { switch (x) { case 0x7fffffffL: return 1; case 0x80000000L: return 2; case 0xffffffffL: return 3; case 0x100000000L: return 4; case -0x80000000L: return 5; case -0x80000001L: return 6; case 0x80000001L ... 0x80000005L: return 7; default: return 0; } }
static int swu(unsigned long x) { switch (x) { case 4294967295UL: return 1; case 2147483648UL: return 2; case 18446744073709551615UL: return 3; default: return 0; } }
struct B { long f : 33; unsigned long g : 40; long h : 63; } b;
static long tab[4] = { 0x80000000L, 0xffffffffL, -0x80000000L, 0x123456789L };
int main(void) { volatile long v = 0x80000000L; long a = v + 0x80000000L, c = v & 0xffffffffL, d = v * 0x80000001L, e = v - 0xffffffffL, f = v | 0x100000000L, g = v ^ 0x80000000L; unsigned long h = (unsigned long)v / 0x80000000UL;
  b.f = 0xffffffffL; b.g = 0xffffffffffUL; b.h = -1; long off = tab[0] + tab[1] + tab[2] + tab[3];
  printf("%d %d %d %d %d %d %d %d | %d %d %d | %ld %ld %ld %ld %ld %ld %lu | %ld %lu %ld %ld %d\n", sw(0x7fffffffL), sw(0x80000000L), sw(0xffffffffL), sw(0x100000000L), sw(-0x80000000L), sw(-0x80000001L), sw(0x80000003L), sw(5),
         swu(4294967295UL), swu(2147483648UL), swu(-1UL), a, c, d, e, f, g, h, (long)b.f, (unsigned long)b.g, (long)b.h, off, (int)(v == 0x80000000L)); return 0; }
