// seeded/C04_4: an object whose struct type ends in a flexible array member occupies at least sizeof(struct) bytes, also when the
// initialized flexible part is shorter than the tail padding: a whole-struct store through a pointer must not touch the neighbours
// EXPECT: ok 16 16\n
int printf(const char *, ...);
struct S { long n; char c; char d[]; };
char g0 = 0x11; struct S a = { 1, 2, { 3, 4, 5 } }; char g1 = 0x22; short g2 = 0x3333; struct S b = { 7, 8 }; char g3 = 0x44; int g4 = 0x55555555; struct S c = { 9, 10, { 1 } }; char g5 = 0x66;
struct S src = { 100, 101 };
int main(void) { struct S *p = &a, *q = &b, *r = &c; *p = src; *q = src; *r = src;
  int ok = g0 == 0x11 && g1 == 0x22 && g2 == 0x3333 && g3 == 0x44 && g4 == 0x55555555 && g5 == 0x66 && a.n == 100 && b.c == 101 && c.n == 100;
  printf("%s %d %d\n", ok ? "ok" : "CLOBBERED", (int)sizeof(struct S), (int)sizeof *p); return 0; }
