// c0003a9: difference of pointers to VLA rows; 53503c2: alloca takes a 64-bit size
int printf(const char *, ...); void *alloca(unsigned long);
int main(void) { volatile int n = 5, m = 7; int a[n][m]; int (*p)[m] = &a[4], (*q)[m] = &a[1]; int t[n][m][3]; volatile unsigned long big = 0x100000000UL + 48;
  char *x = alloca(big - 0x100000000UL); x[47] = 1; printf("%ld %ld %ld %ld %d\n", (long)(p - q), (long)(q - p), (long)(&a[3] - &a[0]), (long)(&t[4] - &t[2]), x[47]); return 0; }
