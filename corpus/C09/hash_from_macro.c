#define H #
#define ID(x) x
int a; H define X 1
ID(H) define Y 2
X Y
