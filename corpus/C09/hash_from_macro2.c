#define H #
#define EMPTY
#define ID(x) x
int a;
H define X 1
EMPTY # define Y 2
ID(#) define Z 3
H include "nonexistent.h"
X Y Z
