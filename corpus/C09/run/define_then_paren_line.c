// 730c5b4: a line that begins with "(" right after "#define NAME" is not a parameter list
int printf(const char *, ...);
int main(void) { int c = 1;
#define NOTHING
(c) = 2;
#define G (3)
#define F(x) ((x) + 1)
  printf("%d %d %d\n", c, G, F(G) NOTHING); return 0; }
