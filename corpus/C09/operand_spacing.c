#define G(x) #x
#define F(p) G(a p ## 1 (p##2) # p)
F(b)
