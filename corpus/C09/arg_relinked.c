#define O1 b
#define F(x) x #x x
F(1 O1)
