#define CAT x ## y
#define H # a
CAT H
#define S(x) #x
S(a
 b   c
d)
#define f(a) a*g
#define g(a) f(a)
f(2)(9)
