#define G(p)
#define X 1
O2 G
(F1)
#undef X
X
