// a floating initializer of a static integer object is converted to the type of the object (was routed through int64_t)
int printf(const char*,...); static unsigned long x = 1.8e19; unsigned long y = 1.8e19f; static unsigned char c = 200.9; static long n = -3.99; static unsigned u = 4294967295.5; int main(){ unsigned long lx = 1.8e19; printf("%lx %lx %d %ld %u %lx\n", x, y, c, n, u, lx); }
