// seeded/C07_4 (and C03_4): a case constant is converted to the PROMOTED type of the controlling expression (6.8.4.2p5), not to its own type
int printf(const char *, ...);
static int sel_uc(unsigned char c) { switch (c) { case -1: return 1; case 300: return 2; case 255: return 3; case 44: return 4; case 250 ... 254: return 5; case 256 ... 260: return 6; default: return 0; } }
static int sel_sc(signed char c) { switch (c) { case 128: return 1; case -128: return 2; case 0x17f: return 3; case 127: return 4; default: return 0; } }
static int sel_sh(short c) { switch (c) { case 0x10001: return 1; case 1: return 2; case 65535: return 3; case -1: return 4; default: return 0; } }
static int sel_b(_Bool b) { switch (b) { case 2: return 1; case 1: return 2; case 0: return 3; default: return 0; } }
static int sel_us(unsigned short c) { switch (c) { case -1: return 1; case 65535: return 2; case 0x1fffe ... 0x1ffff: return 3; default: return 0; } }
enum { E1 = (unsigned char)300 == 44, E2 = (signed char)128 == -128 };
int main(void) { printf("%d %d %d %d %d | %d %d %d | %d %d %d | %d %d | %d %d %d | %d %d\n", sel_uc(255), sel_uc(44), sel_uc(251), sel_uc(2), sel_uc(0), sel_sc(-128), sel_sc(127), sel_sc(0x7f), sel_sh(1), sel_sh(-1), sel_sh(0),
  sel_b(1), sel_b(0), sel_us(65535), sel_us(65534), sel_us(0), E1, E2); return 0; }
