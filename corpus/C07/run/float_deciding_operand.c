// 2319e8f: a floating operand deciding && || ?: in an array bound
int printf(const char *, ...);
int main(void) { volatile int n = 3; char a[0.5 && n]; char b[0.5 ? n : 1]; char c[0.25 || n]; int d[(_Bool)0.5 + 1]; printf("%d %d %d %d\n", (int)sizeof a, (int)sizeof b, (int)sizeof c, (int)sizeof d); return 0; }
