// 2049a24 extern with initializer is a definition; 85373f4 inline + extern inline / plain declaration = external definition; 62ebd1d statics of dead static inline functions
// TWO: extern_init_and_inline.aux.c
int printf(const char *, ...);
extern int e1 = 5; int e2; extern int e2 = 6;
inline int f1(void) { return 1; } extern inline int f1(void);
int f2(void); inline int f2(void) { return 2; }
static inline int h(void) { return 7; }
static inline int dead(void) { static int (*p)(void) = h; return p(); }
int other(void);
int main(void) { printf("%d\n", other()); return 0; }
