extern int e1, e2; int f1(void); int f2(void);
int other(void) { return e1 * 1000 + e2 * 100 + f1() * 10 + f2(); }
