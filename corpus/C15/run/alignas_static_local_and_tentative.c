// ec870ff / 82bbc19: _Alignas on a block-scope static; _Alignas of an earlier tentative definition kept
int printf(const char *, ...);
_Alignas(64) int t; int t; char pad1; _Alignas(32) char u; char u;
int main(void) { static char pad2; static _Alignas(16) int x; static _Alignas(128) char y = 1; printf("%d %d %d %d\n", (int)((unsigned long)&t % 64), (int)((unsigned long)&u % 32), (int)((unsigned long)&x % 16), (int)((unsigned long)&y % 128) + pad1 + pad2); return 0; }
