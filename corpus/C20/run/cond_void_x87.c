// 94b5c35: `c ? ldf() : (void)0;` left the long double on the x87 stack (one register per execution)
int printf(const char *, ...);
long double ldf(void) { return 1.5L; }
int main(void) { volatile int c = 1; for (int i = 0; i < 20; i++) { c ? ldf() : (void)0; c ? (void)0 : ldf(); (void)(c ? ldf() : 2.0L); } long double r = ldf() + 1.0L; printf("%d\n", (int)(r * 2)); return 0; }
