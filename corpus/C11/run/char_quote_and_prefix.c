// 6181ddd: a multi-character constant containing an escaped quote; character constants around it
// EXPECT: 97 39 92 97 39 1\n
int printf(const char *, ...);
int main(void) { printf("%d %d %d %d %d %d\n", 'a\'', '\'', '\\', 'ab', L'\'', (int)sizeof('a\'') == (int)sizeof(int)); return 0; }
