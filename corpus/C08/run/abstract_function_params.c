// 8507b9f / 053b61b / 02474a3: abstract function declarators and qualified array brackets in parameters; array types in _Generic
int printf(const char *, ...);
int one(void) { return 1; } int inc(int x) { return x + 1; }
int g1(int ()); int g2(int (int)); int g3(int (void)); int f1(int a[const 3]); int f2(int a[static 2]); int f3(int n, int a[restrict 3]);
int g1(int p()) { return sizeof(p) == 8 ? p() : -1; } int g2(int p(int)) { return p(4); } int g3(int p(void)) { return p(); }
int f1(int a[const 3]) { return a[2]; } int f2(int a[static 2]) { return a[1]; } int f3(int n, int a[restrict 3]) { return a[n - 1]; }
int main(void) { int v[3] = { 7, 8, 9 }; int (*p)[3] = &v; int m[2][3];
  printf("%d %d %d %d %d %d | %d %d %d\n", g1(one), g2(inc), g3(one), f1(v), f2(v), f3(3, v),
         _Generic(p, int(*)[3]: 1, default: 0), _Generic(p, int(*)[4]: 1, default: 0), _Generic(m[0], int *: 1, default: 0)); return 0; }
