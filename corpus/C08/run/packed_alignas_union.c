// 43d8c26 _Alignas member inside a packed struct; 20d74ad packed union (was the open finding C08-packed-union)
int printf(const char *, ...);
struct __attribute__((packed)) PA { char a; _Alignas(4) int b; char c; };
union __attribute__((packed)) PU { int a; char c[5]; };
struct H { char c; union PU u; char d; struct PA p; };
int main(void) { printf("%d %d %d | %d %d | %d %d %d %d\n", (int)sizeof(struct PA), (int)_Alignof(struct PA), (int)(long)&((struct PA *)0)->b, (int)sizeof(union PU), (int)_Alignof(union PU),
  (int)sizeof(struct H), (int)(long)&((struct H *)0)->u, (int)(long)&((struct H *)0)->d, (int)(long)&((struct H *)0)->p); return 0; }
