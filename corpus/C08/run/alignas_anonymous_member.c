// seeded/C08: _Alignas on an anonymous struct / union member must take effect like on a named member
int printf(const char *, ...);
struct A { char c; _Alignas(16) struct { char x; int y; }; char d; };
struct B { char c; _Alignas(8) union { char u; short v; }; char d; _Alignas(32) struct { char q; }; };
union C { char c; _Alignas(16) struct { char x; }; };
int main(void) { struct A a; struct B b; printf("%d %d %d %d | %d %d %d %d %d | %d %d\n", (int)sizeof a, (int)_Alignof(struct A), (int)((char *)&a.x - (char *)&a), (int)((char *)&a.d - (char *)&a),
  (int)sizeof b, (int)_Alignof(struct B), (int)((char *)&b.u - (char *)&b), (int)((char *)&b.d - (char *)&b), (int)((char *)&b.q - (char *)&b), (int)sizeof(union C), (int)_Alignof(union C)); return 0; }
