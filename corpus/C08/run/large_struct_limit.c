// aaaed53: struct layouts below the limit are exact (bits are counted in an int: 2^31 bits = 256 MiB)
int printf(const char *, ...);
struct Ok { char a[200000000]; char b; long c; };
struct Ok2 { char a[268435440]; char b; };
int main(void) { printf("%ld %ld %ld | %ld %ld\n", (long)sizeof(struct Ok), (long)&((struct Ok *)0)->b, (long)&((struct Ok *)0)->c, (long)sizeof(struct Ok2), (long)&((struct Ok2 *)0)->b); return 0; }
