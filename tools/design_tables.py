#!/usr/bin/env python3
"""Regenerate the tables of DESIGN.md 10.5 (repaired defects), 10.6 (open findings) and 10.7 (seeded changes)
from known_findings.jsonl and seeded/*/meta.json, so that the document cannot drift from the files the checks read."""
import json, os, re, glob
V = os.path.dirname(os.path.dirname(os.path.abspath(__file__)))
kf = [json.loads(l) for l in open(os.path.join(V, 'known_findings.jsonl')) if l.strip()]
def esc(s): return str(s).replace('|', '\\|').replace('\n', ' ')
fixed = [k for k in kf if k.get('status') == 'fixed']
openf = [k for k in kf if k.get('status') == 'open']
t5 = ['| property | commit | what failed |', '|---|---|---|']
for k in fixed:
    w = re.sub(r'^fixed: property=\S+ \S+ ', '', k['what'])
    t5.append('| %s | %s | %s |' % (k['property'], k.get('commit', ''), esc(w)))
t6 = ['| id | what fails | matched on |', '|---|---|---|']
for k in openf: t6.append('| %s | %s | %s |' % (k['id'], esc(k['what']), esc(json.dumps(k.get('match', {})))))
t7 = ['| seed | change (abridged) | caught by |', '|---|---|---|']
for d in sorted(glob.glob(os.path.join(V, 'seeded', 'C??*'))):
    try: m = json.load(open(os.path.join(d, 'meta.json')))
    except Exception: continue
    t7.append('| %s | %s | %s |' % (os.path.basename(d), esc(m.get('summary', ''))[:230], esc(m.get('confirmed_by_me', {}).get('detected_by', ''))))
p = os.path.join(V, 'DESIGN.md'); s = open(p).read()
def put(s, heading, table):
    i = s.index(heading); j = s.index('\n| ', i) + 1          # first table row after the heading
    k = j
    while k < len(s) and s[k] == '|': k = s.index('\n', k) + 1
    return s[:j] + '\n'.join(table) + '\n' + s[k:]
s = put(s, '### 10.5 ', t5); s = put(s, '### 10.6 ', t6); s = put(s, '### 10.7 ', t7)
s = re.sub(r'\d+ defects were repaired by \d+ small', '%d defects were repaired by %d small' % (len(fixed), len(set(k.get('commit') for k in fixed))), s)
open(p, 'w').write(s)
print('10.5: %d fixed, 10.6: %d open, 10.7: %d seeds' % (len(fixed), len(openf), len(t7) - 2))
