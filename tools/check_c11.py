#!/usr/bin/env python3
"""C11 - literals have the C11 value, type and encoding.
   proofs (UTF-8 round trip / RFC 3629, UTF-16, Annex D tables, integer-literal ladder) +
   translator (identifier tables) + exhaustive unit correspondence of unicode.c against the
   extracted model + generated literal programs (types from the proved spec, values and
   encodings cross-checked with gcc as reference compiler)."""
import os, sys, time, random, json
sys.path.insert(0, os.path.dirname(os.path.abspath(__file__)))
from vlib import *
import gen_unicode

PID = 'C11'
THEOREMS = ['C11_utf8_roundtrip', 'C11_utf8_is_rfc3629', 'C11_utf8_decode', 'C11_decode_rejects_lone_continuation',
            'C11_decode_rejects_bad_continuation', 'C11_utf16_bmp', 'C11_utf16_surrogates',
            'C11_ident_start_ranges', 'C11_ident_cont_ranges', 'C11_int_literal_type', 'C11_nonvacuous',
            # package escapes (Properties_C11_escapes.v)
            'C11_escape_value', 'C11_escape_value_exact', 'C11_escape_rejects_bare_x', 'C11_string_stored', 'C11_string_literal', 'C11_string_unclosed', 'C11_char_constant', 'C11_char_constant_stored', 'C11_char_unclosed', 'C11_char_multichar', 'C11_char_multichar_escaped_quote', 'C11_escapes_nonvacuous', 'C11_int_suffix_iff', 'C11_int_constant', 'C11_int_constant_iff', 'C11_int_rejects_dot', 'C11_int_doubled_prefix', 'C11_int_overflow_saturates', 'C11_int_recogniser', 'C11_ucn_replaced', 'C11_ucn_string_literal', 'C11_ucn_char_constant', 'C11_ucn_zero_kept', 'C11_escapes_nonvacuous_int_ucn']
MODELRUN = os.path.join(VERIF, 'ocaml/modelrun')
PRINTF = 'int printf(const char *, ...);\n'
SUFFIXES = ['', 'u', 'U', 'l', 'L', 'll', 'LL', 'ul', 'uL', 'Ul', 'UL', 'lu', 'lU', 'Lu', 'LU',
            'ull', 'uLL', 'Ull', 'ULL', 'llu', 'llU', 'LLu', 'LLU']
TYINFO = {'int': (4, 1), 'uint': (4, 0), 'long': (8, 1), 'ulong': (8, 0)}

def spell(rng, base, v):
    if base == 'dec': return str(v)
    if base == 'oct': return '0' + format(v, 'o')
    if base == 'hex':
        h = format(v, 'x')
        h = ''.join(c.upper() if rng.random() < 0.4 else c for c in h)
        return rng.choice(['0x', '0X']) + h
    return rng.choice(['0b', '0B']) + format(v, 'b')

def int_literal_cases(rng, nrand):
    vals = [0, 1, 7, 8, 9, 10, 2**31 - 1, 2**31, 2**31 + 1, 2**32 - 1, 2**32, 2**32 + 1,
            2**63 - 1, 2**63, 2**63 + 1, 2**64 - 1]
    for _ in range(nrand):
        vals.append(rng.getrandbits(rng.choice([5, 16, 31, 32, 33, 47, 63, 64])))
    cases = []
    for base in ['dec', 'oct', 'hex', 'bin']:
        for sfx in SUFFIXES:
            for v in vals:
                if base == 'dec' and v == 0: continue      # "0" is an octal constant
                cases.append((base, sfx, v, spell(rng, base, v) + sfx))
    return cases

def run_int_literals(run, src, wd, cases):
    """returns number evaluated; violations recorded"""
    q = '\n'.join('%d %d %d %d' % (b == 'dec', 'l' in s.lower(), 'u' in s.lower(), v) for b, s, v, _ in cases) + '\n'
    rc, out, err = sh([MODELRUN, 'lit'], input=q)
    mt = [l.split() for l in out.strip().split('\n')]
    keep = [(c, m) for c, m in zip(cases, mt) if m[1] != 'none']
    body = ''.join('  printf("%%d %%d %%lx\\n", (int)sizeof(%s), ((typeof(%s))-1 < 0), (unsigned long)(%s));\n' % (c[3], c[3], c[3]) for c, _ in keep)
    f = os.path.join(wd, 'intlit.c')
    open(f, 'w').write(PRINTF + 'int main(void) {\n' + body + '  return 0;\n}\n')
    st, got = compile_run([os.path.join(src, 'chibicc')], f, os.path.join(wd, 'intlit.exe'))
    stg, ref = compile_run(['gcc', '-std=gnu11', '-w', '-Dtypeof=__typeof__'], f, os.path.join(wd, 'intlit.gcc'))
    refl = ref.strip().split('\n') if stg == 'ok' else []
    spec_ref_dis = 0
    if st != 'ok':
        run.violation(dict(kind='int-literal-program', what=st, input_file=write_replay(PID, 'intlit.c', open(f).read())))
        return len(keep), 0
    gl = got.strip().split('\n')
    nontriv = set()
    for i, ((base, sfx, v, sp), (mty, sty)) in enumerate(keep):
        exp = '%d %d %x' % (TYINFO[sty][0], TYINFO[sty][1], v)
        if i < len(refl) and refl[i] != exp:
            spec_ref_dis += 1; continue                      # harness self-test: never reported as a violation
        if mty != sty:
            run.corr_broken.append('model ladder differs from the proved spec on %s' % sp)
        g = gl[i] if i < len(gl) else 'missing'
        if g != exp:
            run.violation(dict(kind='int-literal', literal=sp, got=g, expected=exp, meaning='sizeof, is_signed, value(hex)',
                               replay_program='int printf(const char*,...); int main(){ printf("%%d %%d %%lx\\n",(int)sizeof(%s),((typeof(%s))-1<0),(unsigned long)(%s)); }' % (sp, sp, sp)),
                          dict(area='int-literal', base=base, suffix=sfx.lower()))
        if v >= 2**31 - 1: nontriv.add((base, sfx.lower(), v))
    return len(keep), len(nontriv), spec_ref_dis

# ---------------- character and string literals (gcc as reference) ----------------
CPS = [0x24, 0x41, 0x7f, 0x80, 0xe9, 0x7ff, 0x800, 0x20ac, 0xd7ff, 0xe000, 0xfffd, 0xffff, 0x10000, 0x1f600, 0x10ffff]

def gen_string_program(rng, n):
    esc = ['\\a', '\\b', '\\f', '\\n', '\\r', '\\t', '\\v', '\\\\', "\\'", '\\"', '\\?', '\\0', '\\7', '\\12', '\\101', '\\377',
           '\\x0', '\\x41', '\\x7f', '\\xff', '\\e']
    lines = []
    def piece(prefix):
        r = rng.random()
        # an escaped backslash followed by text that would be another escape if the pair were mis-scanned (\\u00e9 is SIX characters),
        # runs of backslashes of even and odd length in front of a universal character name
        if r < 0.08: return rng.choice(['\\\\u00e9', '\\\\U0001F600', '\\\\x41', '\\\\101', '\\\\n', '\\\\\\u00e9', '\\\\\\\\u20ac', '\\\\\\\\\\U0001F600', '\\\\\\\\', '\\\\u', '\\\\U', '?\\?/', '\\\\\\n'])
        if r < 0.35: return rng.choice('abcxyzABC 019_$#@!~')
        if r < 0.6:
            e = rng.choice(esc)
            return e + ('' if not (e.startswith('\\x') or e[1].isdigit()) else '" "' if False else '')
        cp = rng.choice(CPS + [rng.randrange(0xa0, 0xd7ff), rng.randrange(0x10000, 0x10ffff)])
        if r < 0.8 or cp < 0xa0: return chr(cp)
        return ('\\u%04x' % cp) if cp < 0x10000 else ('\\U%08x' % cp)
    k = 0
    for i in range(n):
        prefix = rng.choice(['', '', 'u8', 'u', 'U', 'L'])
        parts = []
        for _ in range(rng.randint(1, 3)):
            body = ''
            for _ in range(rng.randint(0, 5)):
                p = piece(prefix)
                # a hex/octal escape must not swallow a following hex digit: end the piece list there
                body += p
                if p.startswith('\\x') or (p[0] == '\\' and p[1].isdigit()): break
            pre = prefix if rng.random() < 0.7 else ''
            parts.append(pre + '"' + body + '"')
        if not any(p.startswith(prefix + '"') for p in parts) or prefix == '':
            parts[0] = prefix + parts[0].lstrip('u8UL')
        lit = ' '.join(parts)
        lines.append('  { static typeof(%s[0]) a[] = %s; printf("S%d %%d %%d:", (int)sizeof(a), (int)sizeof(a[0])); '
                     'for (int i = 0; i < (int)(sizeof(a)/sizeof(a[0])); i++) printf(" %%lx", (unsigned long)(a[i]) & (sizeof(a[0]) == 1 ? 0xff : sizeof(a[0]) == 2 ? 0xffff : 0xffffffff)); printf("\\n"); }' % (lit, lit, k))
        k += 1
    chars = ["'a'", "'\\n'", "'\\0'", "'\\377'", "'\\x41'", "'\\xff'", "'\\''", "'\\\\'", "'\\e'", "'~'", "u'a'", "u'\\xffff'", "u'\\u00e9'",
             "U'a'", "U'\\U0001F600'", "L'a'", "L'\\x7fffffff'", "u'\\u20ac'", "U'\\xffffffff'", "L'\\u00e9'"]
    for c in chars:
        lines.append('  printf("C%d %%d %%d %%lx\\n", (int)sizeof(%s), ((typeof(%s))-1 < 0), (unsigned long)(long)(%s));' % (k, c, c, c)); k += 1
    # universal character names in identifiers
    lines.append('  { int \\u00e9x = 41; int caf\\u00e9 = \\u00e9x + 1; printf("I %d\\n", caf\\u00e9); }')
    return PRINTF + 'int main(void) {\n' + '\n'.join(lines) + '\n  return 0;\n}\n'

def diff_outputs(got, ref):
    g, r = got.strip().split('\n'), ref.strip().split('\n')
    for i in range(max(len(g), len(r))):
        a = g[i] if i < len(g) else '<missing>'; b = r[i] if i < len(r) else '<missing>'
        if a != b: return i, a, b
    return None

def main():
    run = Run(PID, THEOREMS)
    rng = run.rng
    evals = 0; nontriv = 0; samples = []
    try:
        src = build_impl()
    except BuildFailed as e:
        run.proof_broken.append('scratch build of /repo failed: ' + str(e)[-800:])
        return run.finish(dict(evaluations=0), [], [])
    wd = scratch_dir()
    ok, err = link_harness(src, os.path.join(VERIF, 'harness/unicode_h.c'), os.path.join(wd, 'uni_h'))
    if not ok: run.corr_broken.append('unicode harness does not link: ' + err[-300:])
    try:
        gen_unicode.gen(REPO, os.path.join(COQ, 'theories/Gen/UnicodeTables.v'))
    except GenError as e:
        run.proof_broken.append('translator: ' + str(e))
    run.check_proofs(deps=['theories/Model/Unicode.vo', 'theories/Spec/IntLitSpec.vo', 'theories/Spec/Utf.vo'], extra=['escapes'])
    NCORPUS = run_corpus(run, PID, src)          # minimised past failures first
    rc, o, e = sh([os.path.join(VERIF, 'ocaml/build.sh')], timeout=900)
    model_ok = rc == 0
    if not model_ok: run.corr_broken.append('extracted model does not build: ' + (o + e)[-300:])

    # --- exhaustive unit correspondence: every code point below 2^21, every identifier class below 0x110400
    unit_evals = 0
    if ok and model_ok:
        hi = 0x200000
        chunks = [(a, min(a + 0x10000, hi)) for a in range(0, hi, 0x10000)]
        def one(ch):
            a, b = ch
            r1 = sh([os.path.join(wd, 'uni_h'), 'utf', str(a), str(b)], timeout=300)
            r2 = sh([MODELRUN, 'utf', str(a), str(b)], timeout=300)
            if r1[0] != 0: return ('impl-died', a, r1[2][-200:])
            if r1[1] == r2[1]: return None
            for x, y in zip(r1[1].split('\n'), r2[1].split('\n')):
                if x != y: return ('diff', x, y)
            return ('diff', 'length', '')
        for ch, r in zip(chunks, pmap(one, chunks)):
            unit_evals += ch[1] - ch[0]
            if r is not None:
                if r[0] == 'diff':
                    cp = int(r[1].split(':')[0]) if ':' in r[1] else -1
                    # the model is proved equal to RFC 3629 / round-tripping, so a difference is a failing input
                    run.violation(dict(kind='utf8-unit', code_point=cp, implementation=r[1], proved_model=r[2],
                                       meaning='code point: encode_utf8 bytes | decode_utf8(bytes ++ "A") as value+remaining'),
                                  dict(area='utf8', code_point=cp))
                else:
                    run.violation(dict(kind='utf8-unit-died', chunk=r[1], what=r[2]))
        r1 = sh([os.path.join(wd, 'uni_h'), 'ident', '0', str(0x110400)], timeout=300)
        ich = [(a, min(a + 0x8000, 0x110400)) for a in range(0, 0x110400, 0x8000)]
        def cat(which):
            outs = pmap(lambda ch: sh([MODELRUN, which, str(ch[0]), str(ch[1])], timeout=600)[1].strip(), ich)
            return (0, ''.join(outs) + '\n', '')
        r2 = cat('ident'); r3 = cat('identspec')
        unit_evals += 0x110400
        if r1[1] != r3[1]:          # implementation against the Annex D specification itself
            for i, (x, y) in enumerate(zip(r1[1], r3[1])):
                if x != y:
                    run.violation(dict(kind='identifier-class', code_point=i, code_point_hex=hex(i), implementation=x, annex_d_spec=y,
                                       meaning='2 = may start an identifier, 1 = may continue one'), dict(area='ident', code_point=i))
                    break
        if r1[1] != r2[1]:
            i = next((i for i, (x, y) in enumerate(zip(r1[1], r2[1])) if x != y), -1)
            run.corr_broken.append('is_ident1/is_ident2 differ from the regenerated model at code point %d' % i)
        samples.append({'utf8-unit': sh([os.path.join(wd, 'uni_h'), 'utf', '8364', '8365'])[1].strip()})
    evals += unit_evals

    # --- integer literal typing: all bases x all suffix spellings x thresholds +-1 + random magnitudes
    cases = int_literal_cases(rng, 6 if run.quick() else 40)
    r = run_int_literals(run, src, wd, cases)
    evals += r[0]; nontriv += r[1]; spec_ref = r[2] if len(r) > 2 else 0
    samples.append({'int-literal': cases[len(cases) // 2][3]})

    # --- floating constants (6.4.4.2): value rounded ONCE to the type the suffix gives (float / double / long double), decimal and hexadecimal,
    # values within a fraction of an ulp of a rounding boundary of each format; object bytes and sizeof = gcc
    import check_c02
    flits = []
    for sv in check_c02.FVALS: flits += [sv, sv + 'f', sv + 'L', sv + 'F', sv + 'l']
    flits += ['1.00000000000000011102230246251565404236316680908203126', '1.00000000000000011102230246251565404236316680908203124', '0.1f', '1e-45f', '7.0064923216240853546186479164495807e-46f', '3.4028235677973366e38f',
              '1.000000059604644775390625000000000000001f', '1.0000000596046447763f', '1.000000178813934326171874999999999999999f', '-8.0000004768371582031250000000001f', '1.0000000596046447753906250f', '1.00000017881393432617187500f',
              '1.7976931348623158e308', '4.9406564584124654e-324', '2.4703282292062328e-324', '0x.8p1', '0xAp-1', '0XA.8P0f', '1.e2', '.5e-2L', '1E+3', '0x1.fffffffffffff8p0', '0x1.ffffffffffffffffp0L', '1e4932L', '3.3621031431120935063e-4932L',
              '0x1.000001000000000001p0f', '0x1.0000010000000000000000001p0f', '0x1.000002ffffffffffffp0f', '1.0000000000000002220446049250313080847263336181640625000001', '9007199254740993.0000000001', '0.30000001192092895507812500000000001f']
    ftext = PRINTF + 'static void dump(int id, void *p, int n) { printf("F%d ", id); for (int i = 0; i < n; i++) printf("%02x", ((unsigned char *)p)[i]); printf("\\n"); }\nint main(void) {\n'
    fl = []
    for i, l in enumerate(flits):
        hexa = 'x' in l.lower()[:3]
        if l[-1] in 'fF' and hexa and 'p' not in l.lower(): continue            # 0x1f is an integer
        t = 'float' if l[-1] in 'fF' and (not hexa or 'p' in l.lower()) else 'long double' if l[-1] in 'lL' else 'double'
        n = {'float': 4, 'double': 8, 'long double': 10}[t]
        ftext += '  { %s r = %s; static %s s = %s; dump(%d, &r, %d); dump(%d, &s, %d); int sz = sizeof(%s); dump(%d, &sz, 4); }\n' % (t, l, t, l, 3 * i, n, 3 * i + 1, n, l, 3 * i + 2); fl.append((i, l, t))
    ftext += '  return 0; }\n'
    ff = os.path.join(wd, 'flits.c'); open(ff, 'w').write(ftext)
    stg, refo = compile_run(['gcc', '-std=gnu11', '-w', '-O0', '-frounding-math'], ff, ff + '.gcc'); stc, goto_ = compile_run([os.path.join(src, 'chibicc')], ff, ff + '.exe')
    if stg != 'ok': run.corr_broken.append('floating-constant program fails under gcc: ' + stg[:200])
    elif stc != 'ok': run.violation(dict(kind='floating-constant-program', what=stc[:300], input_file=write_replay(PID, 'flits.c', ftext)), dict(area='float-literal', what='rejected'))
    else:
        gd = dict(x.split(' ') for x in refo.strip().split('\n') if x.startswith('F')); cd = dict(x.split(' ') for x in goto_.strip().split('\n') if x.startswith('F'))
        for (i, l, t) in fl:
            evals += 1; nontriv += 1
            for k, what in ((3 * i, 'automatic object'), (3 * i + 1, 'static object'), (3 * i + 2, 'sizeof')):
                if cd.get('F%d' % k) != gd.get('F%d' % k):
                    run.violation(dict(kind='floating-constant', constant=l, type=t, position=what, chibicc_bytes=cd.get('F%d' % k), gcc_bytes=gd.get('F%d' % k)), dict(area='float-literal', construct=what)); break

    # --- character / string literals, concatenation, UCNs: gcc is the reference
    str_dis = 0
    for i in range(3 if run.quick() else 20):
        text = gen_string_program(rng, 60)
        f = os.path.join(wd, 'str%d.c' % i); open(f, 'w', encoding='utf-8').write(text)
        stg, ref = compile_run(['gcc', '-std=gnu11', '-w', '-Dtypeof=__typeof__'], f, os.path.join(wd, 'str.gcc'))
        st, got = compile_run([os.path.join(src, 'chibicc')], f, os.path.join(wd, 'str.exe'))
        evals += 81
        if stg != 'ok':
            str_dis += 1; continue
        if st != 'ok':
            run.violation(dict(kind='string-literal-program', what=st, input_file=write_replay(PID, 'str%d.c' % i, text)), dict(area='string', what=st.split(':')[0]))
            continue
        d = diff_outputs(got, ref)
        if d is not None:
            line = text.split('\n')[2 + d[0]] if 2 + d[0] < len(text.split('\n')) else ''
            run.violation(dict(kind='string-literal', statement=line.strip()[:400], got=d[1], reference=d[2], input_file=write_replay(PID, 'str%d.c' % i, text)),
                          dict(area='string'))
        nontriv += 1
        # source normalisation: BOM, CRLF and line splices must not change the program
        t2 = '﻿' + text.replace('printf("S', 'pri\\\nntf("S').replace('\n', '\r\n')
        f2 = os.path.join(wd, 'norm%d.c' % i); open(f2, 'w', encoding='utf-8', newline='').write(t2)
        st2, got2 = compile_run([os.path.join(src, 'chibicc')], f2, os.path.join(wd, 'norm.exe'))
        evals += 1
        if st2 != 'ok' or got2 != ref:
            run.violation(dict(kind='source-normalisation', what=st2, first_difference=diff_outputs(got2, ref) if st2 == 'ok' else None,
                               input_file=write_replay(PID, 'norm%d.c' % i, t2)), dict(area='normalise'))

    # --- malformed UTF-8 in a wide literal is diagnosed, not accepted
    for bad, name in [(b'\x80', 'lone-continuation'), (b'\xc3(', 'bad-continuation'), (b'\xe2\x82(', 'bad-continuation-3')]:
        f = os.path.join(wd, 'bad.c'); open(f, 'wb').write(b'int x[] = U"' + bad + b'";\n')
        rc, o, e = sh([os.path.join(src, 'chibicc'), '-S', '-o', '/dev/null', f]); evals += 1
        if rc != 1 or 'invalid UTF-8' not in e:
            run.violation(dict(kind='malformed-utf8-accepted', bytes=bad.hex(), exit=rc, stderr=e[-200:]), dict(area='decode-reject'))

    # ---------------- tie of package escapes: cases evaluated by the Coq spec and model (one coqc call) and by the real compiler ----------------
    tie_dist = {}; tie_e = tie_n = 0; tie_samples = []
    if not os.environ.get('VERIF_SKIP_PROOFS'):
        tie_e, tie_n, tie_dist, tie_samples = run_tie(run, 'escapes', src, 300 if run.quick() else 1500, 'literal')
    cov = dict(evaluations=evals, distinct_nontrivial=nontriv + (0x110000 if ok and model_ok else 0), exhaustive=bool(ok and model_ok),
               rule='exhaustive: every code point < 2^21 through encode_utf8/decode_utf8 and every value < 0x110400 through is_ident1/is_ident2 of the linked unicode.c against the extracted proved model; integer literals: 4 bases x 23 suffix spellings x thresholds 2^31/2^32/2^63/2^64 +-1 + random magnitudes (non-trivial = value >= 2^31-1); generated string/char literal programs incl. concatenation, UCNs, BOM/CRLF/splice variants against gcc',
               samples=samples, traces_validated_against_impl=unit_evals, spec_vs_reference_disagreements=spec_ref + str_dis)
    cov['rule'] = cov.get('rule', '') + ' ' + '(g) package escapes: ~2 200 literal spellings on the case splits (every simple escape, octal of 1-4 digits, \\\\x with 1-20 digits, values at 255/256/65535/65536/2^32 per prefix, escaped backslashes before u/x/digits, all suffix spellings valid and invalid, bases with leading zeros, maxima +-1): sizeof, every element and the type class printed by the compiled program (invalid ones must be rejected) = Coq spec = Coq model'; cov['tie_escapes'] = tie_dist; cov['evaluations'] = cov.get('evaluations', 0) + tie_e; cov['distinct_nontrivial'] = cov.get('distinct_nontrivial', 0) + tie_n
    return run.finish(cov,
        ['gcc 12 is the reference compiler for escape sequences, concatenation and UCN spelling (its disagreement with the proved spec is counted, never reported)',
         'long long is identified with long (same size and signedness on LP64)'],
        ['Coq 8.16.1 kernel (vm_compute for the breakpoint sweep of the identifier tables; no native_compute)',
         'no axioms (Print Assumptions: closed under the global context for every theorem)',
         'tools/gen_unicode.py (translator for the is_ident1/is_ident2 tables; checks the shape of in_range)',
         'hand-written models Model/Unicode.v, Model/IntLit.v tied by harness/unicode_h.c (exhaustive) and generated programs',
         'extraction with ExtrOcamlBasic only; ocaml/modelrun.ml'])

if __name__ == '__main__':
    sys.exit(main())
