#!/usr/bin/env python3
"""C15 - linkage, storage duration and symbol emission are correct in every configuration.
   proofs (tentative definitions merge to exactly one unless a real definition exists; real
   definitions and extern declarations pass through; only reachable static inline functions are
   marked live, for any call graph) + correspondence:
   (a) generated translation units (declaration sequences per object name: tentative / defined /
       extern / static / thread-local, repeated in any valid order; call graphs of static inline,
       static and external functions with cycles and forward declarations whose later definition
       omits `static`): symbols of the object file (nm: name, binding, section kind, size) =
       extracted model (which definitions survive, which static inline functions are live) = gcc;
   (b) generated multi-unit programs linked as default, -fno-common, -fPIC, -fPIC shared library
       and -static builds: identical output, = gcc."""
import os, sys, time, random, json, re
sys.path.insert(0, os.path.dirname(os.path.abspath(__file__)))
from vlib import *

PID = 'C15'
THEOREMS = ['C15_tentative_merged', 'C15_real_definitions_kept', 'C15_live_only_if_reachable', 'C15_live_if_reachable', 'C15_marking_monotone', 'C15_nonvacuous',
            # package emit (Properties_C15_emit.v)
            'C15_emit_symtab', 'C15_emit_live_exists', 'C15_emit_closure_live', 'C15_emit_symbols', 'C15_emit_pic_same_symbols', 'C15_emit_no_redefinition', 'C15_emit_blocks_independent', 'C15_emit_anonymous_objects', 'C15_emit_anonymous_objects_model', 'C15_emit_gen_addr_table', 'C15_emit_extern_init_static_refuted', 'C15_emit_extern_init_now_defined', 'C15_emit_inline_first_now_external', 'C15_emit_dead_static_not_placed', 'C15_emit_fun_addr_now_emitted', 'C15_emit_fun_addr2_now_emitted', 'C15_emit_static_tls_local_now_tls', 'C15_emit_alignas_carried', 'C15_emit_nonvacuous']
MODELRUN = os.path.join(VERIF, 'ocaml/modelrun')

def nm_syms(obj):
    rc, o, e = sh(['nm', '-S', '--defined-only', obj]) ; d = {}
    for l in o.strip().split('\n'):
        p = l.split()
        if len(p) == 4: d[p[3]] = (p[2], int(p[1], 16))
        elif len(p) == 3: d[p[2]] = (p[1], None)
    rc, o, e = sh(['nm', '-u', obj]); und = set(l.split()[-1] for l in o.strip().split('\n') if l.strip())
    return d, und

class UnitGen:
    def __init__(self, rng, uid): self.rng = rng; self.uid = uid
    def objects(self):
        """returns (lines, model items per name, expectations)"""
        rng = self.rng; lines = []; info = {}
        for i in range(rng.randint(2, 6)):
            n = 'o%d_%d' % (self.uid, i)
            kind = rng.choice(['ext', 'ext', 'static', 'tls', 'static_tls'])
            seq = []
            has_def = rng.random() < 0.4
            k = rng.randint(1, 4)
            defpos = rng.randrange(k) if has_def else None
            for j in range(k):
                if kind == 'ext':
                    if j == defpos: seq.append(('def', 'int %s = %d;' % (n, 100 + i)))
                    else:
                        c = rng.random()
                        if c < 0.6: seq.append(('tent', 'int %s;' % n))
                        else: seq.append(('extern', 'extern int %s;' % n))
                elif kind == 'static':
                    if j == defpos: seq.append(('def', 'static int %s = %d;' % (n, 200 + i)))
                    elif j > 0 and rng.random() < 0.3: seq.append(('extern', 'extern int %s;' % n))      # keeps internal linkage
                    else: seq.append(('tent', 'static int %s;' % n))
                elif kind == 'tls':
                    if j == defpos: seq.append(('def', '_Thread_local int %s = %d;' % (n, 300 + i)))
                    else: seq.append(('tent', '_Thread_local int %s;' % n) if rng.random() < 0.7 else ('extern', 'extern _Thread_local int %s;' % n))
                else:
                    if j == defpos: seq.append(('def', 'static _Thread_local int %s = %d;' % (n, 400 + i)))
                    else: seq.append(('tent', 'static _Thread_local int %s;' % n))
            if kind in ('static', 'static_tls') and seq[0][0] == 'extern': seq[0] = ('tent', 'static %sint %s;' % ('_Thread_local ' if 'tls' in kind else '', n))
            for _, t in seq: lines.append(t)
            info[n] = (kind, [s for s, _ in seq])
        return lines, info
    def functions(self):
        rng = self.rng; lines = []; fs = []
        n = rng.randint(3, 8)
        # names that are proper prefixes of each other, in random order: a name table keyed by anything less than the whole name confuses them
        stems = ['s', 'sc', 'sca', 'scale', 'scale_', 'scale_add', 'scale_add2', 'x', 'x1', 'x10']; rng.shuffle(stems)
        names = ['f%d_%s' % (self.uid, stems[i]) for i in range(n)]
        kinds = []
        for i in range(n):
            kinds.append(rng.choice(['static inline', 'static inline', 'static inline', 'static', 'plain']))
        kinds[0] = 'plain'
        fwd_static = set(i for i in range(n) if kinds[i].startswith('static') and rng.random() < 0.3)
        protos = []
        for i in range(n):
            q = {'static inline': 'static inline ', 'static': 'static ', 'plain': ''}[kinds[i]]
            protos.append('%sint %s(int);' % (q, names[i]))
        lines += protos
        for i in range(n):
            refs = [j for j in range(n) if rng.random() < 0.3]; rng.shuffle(refs)
            calls = ' + '.join('%s(x - 1)' % names[j] for j in refs) or '0'
            addr = ''
            if rng.random() < 0.15 and n > 1:
                j = rng.randrange(n); refs.append(j); addr = ' int (*p)(int) = %s; if (x == -99) return p(0);' % names[j]
            q = {'static inline': 'static inline ', 'static': 'static ', 'plain': ''}[kinds[i]]
            if i in fwd_static: q = q.replace('static ', '')      # the definition omits `static`: linkage comes from the first declaration (C11 6.2.2p5)
            lines.append('%sint %s(int x) {%s if (x <= 0) return %d; return %s; }' % (q, names[i], addr, i + 1, calls))
            fs.append((names[i], kinds[i], [names[j] for j in refs]))
            # a reference from a FILE-SCOPE initializer (between two function definitions, or after the last): it makes its target a root
            if rng.random() < 0.2:
                j = rng.randrange(n)
                lines.append('int (*fp%d_%d)(int) = %s%s;' % (self.uid, i, rng.choice(['', '&']), names[j]))
                fs.append(('@init%d' % i, 'plain', [names[j]]))
        return lines, fs

def main():
    run = Run(PID, THEOREMS)
    rng = run.rng
    try:
        src = build_impl()
    except BuildFailed as e:
        run.proof_broken.append('scratch build of /repo failed: ' + str(e)[-800:])
        return run.finish(dict(evaluations=0), [], [])
    wd = scratch_dir()
    run.check_proofs(deps=['theories/Model/Linkage.vo', 'theories/Proofs/LinkageProofs.vo', 'theories/Proofs/LinkageComplete.vo'], extra=['emit'])
    NCORPUS = run_corpus(run, PID, src)          # minimised past failures first
    rc, o, e = sh([os.path.join(VERIF, 'ocaml/build.sh')], timeout=900)
    if rc != 0:
        run.corr_broken.append('extracted model does not build: ' + (o + e)[-300:])
        return run.finish(dict(evaluations=0), [], [])
    chibi = os.path.join(src, 'chibicc')
    evals = 0; nontriv = 0; dist = {}; samples = []
    def count(k, n=1): dist[k] = dist.get(k, 0) + n

    # ---------------- (a) per-unit symbol tables ----------------
    NA = 60 if run.quick() else 500
    units = []
    for k in range(NA):
        g = UnitGen(rng, k)
        ol, info = g.objects(); fl, fs = g.functions()
        use = ['int use%d(void) { return %s; }' % (k, ' + '.join(list(info) + ['%s(3)' % fs[0][0]]))]
        text = '\n'.join(ol + fl + use) + '\n'
        f = os.path.join(wd, 'u%d.c' % k); open(f, 'w').write(text); units.append((f, text, info, fs))
    def one_a(u):
        f, text, info, fs = u
        r = {}
        for cc, cmd in (('chibicc', [chibi, '-c', '-o', f + '.c.o', f]), ('gcc', ['gcc', '-w', '-O0', '-fcommon', '-c', '-o', f + '.g.o', f])):
            rc, o, e = sh(cmd, timeout=60)
            r[cc] = nm_syms(f + ('.c.o' if cc == 'chibicc' else '.g.o')) if rc == 0 else ('ERR', e[-300:])
        return u, r
    # model queries
    q = []; names = {}
    for (f, text, info, fs) in units:
        idx = {n: i + 1 for i, n in enumerate(info)}
        items = []
        for n, (kind, seq) in info.items():
            for s in seq: items.append('%d:%d:%d' % (idx[n], 0 if s == 'extern' else 1, 1 if s == 'tent' else 0))
        q.append('G ' + ' '.join(items))
        fidx = {n: i + 1 for i, (n, _, _) in enumerate(fs)}
        q.append('F ' + ' '.join('%d:%d:%s' % (fidx[n], 0 if k == 'static inline' else 1, ','.join(str(fidx[r]) for r in refs)) for n, k, refs in fs))
    rc, mo, me = sh([MODELRUN, 'link'], input='\n'.join(q) + '\n', timeout=120)
    mo = mo.split('\n')
    for ui, (u, r) in enumerate(pmap(one_a, units)):
        f, text, info, fs = u
        evals += 1
        if r['gcc'][0] == 'ERR':
            run.corr_broken.append('generated unit rejected by gcc: %s %s' % (os.path.basename(f), r['gcc'][1])); write_replay(PID, 'unit_' + os.path.basename(f), text); continue
        if r['chibicc'][0] == 'ERR':
            run.violation(dict(kind='valid-unit-rejected', unit=text, stderr=r['chibicc'][1]), dict(area='unit', construct='rejected')); continue
        nontriv += 1; count('unit')
        (cs, cu), (gs, gu) = r['chibicc'], r['gcc']
        # objects: binding and section kind must agree with gcc; size 4
        for n, (kind, seq) in info.items():
            a, b = cs.get(n), gs.get(n)
            norm = lambda t: None if t is None else (t[0], t[1])
            if norm(a) != norm(b):
                run.violation(dict(kind='object-symbol', unit=text, name=n, declarations=seq, chibicc=a, gcc=b, how='nm -S --defined-only of the object file: (type letter, size)'), dict(area='unit', construct='object-symbol'))
        # model: which object names are defined at all
        gl = mo[2 * ui].split() if 2 * ui < len(mo) else []
        idx = {n: i + 1 for i, n in enumerate(info)}
        mdef = {}
        for it in gl:
            n, d, t = it.split(':')
            if d == '1': mdef[int(n)] = mdef.get(int(n), 0) + 1
        for n in info:
            if (n in cs) != (idx[n] in mdef) or mdef.get(idx[n], 0) > 1:
                run.corr_broken.append('definitions of %s in %s: model keeps %d, chibicc %s' % (n, os.path.basename(f), mdef.get(idx[n], 0), 'defines it' if n in cs else 'does not define it'))
        # functions
        live = set(int(x) for x in (mo[2 * ui + 1].split() if 2 * ui + 1 < len(mo) else []))
        fidx = {n: i + 1 for i, (n, _, _) in enumerate(fs)}
        for n, k, refs in fs:
            if n.startswith('@'): continue          # pseudo root: a file-scope initializer
            a, b = cs.get(n), gs.get(n)
            if (a is None) != (b is None) or (a and b and a[0] != b[0]):
                run.violation(dict(kind='function-symbol', unit=text, name=n, declared=k, chibicc=a, gcc=b, how='nm --defined-only: is the function emitted, and with which binding (T global / t local)'), dict(area='unit', construct='function-symbol'))
            if (n in cs) != (fidx[n] in live):
                run.corr_broken.append('liveness of %s in %s: model %s, chibicc %s' % (n, os.path.basename(f), fidx[n] in live, n in cs))
        if len(samples) < 2: samples.append(dict(unit=text[:400]))

    # ---------------- (b) multi-unit programs in every configuration ----------------
    NB = 10 if run.quick() else 80
    for k in range(NB):
        d = os.path.join(wd, 'm%d' % k); os.makedirs(d)
        nshared = rng.randint(1, 4)
        dup_tent = rng.random() < 0.5
        u1 = ['int printf(const char *, ...);']; u2 = []; u3 = []
        for i in range(nshared):
            n = 'sh%d' % i
            c = rng.random()
            if c < 0.4 and dup_tent: u1.append('int %s;' % n); u2.append('int %s;' % n); u3.append('extern int %s;' % n)        # common in two units
            elif c < 0.7: u1.append('extern int %s;' % n); u2.append('int %s = %d;' % (n, 10 + i)); u3.append('int %s;' % n if dup_tent else 'extern int %s;' % n)
            else: u1.append('int %s; int %s;' % (n, n)); u2.append('extern int %s;' % n); u3.append('extern int %s;' % n)
        for u, tag in ((u1, 1), (u2, 2), (u3, 3)):
            u.append('static int priv = %d; static int bump(void) { static int calls; return ++calls + priv; }' % (tag * 100))
            u.append('_Thread_local int tl%d = %d; static _Thread_local int stl = %d;' % (tag, tag, tag * 7))
            u.append('static inline int helper%d(int x) { return x * %d; }' % (tag, tag + 1))
            u.append('const char *str%d(void) { return "unit%d"; }' % (tag, tag))
            u.append('int tget%d(void) { static _Thread_local int per = %d; static int shared; per += 1; shared += 1; stl += 1000; return per * 100 + shared + stl; }' % (tag, tag * 3))
            u.append('int get%d(void) { int s = bump() + bump() + tl%d + stl + helper%d(2); %s return s; }' % (tag, tag, tag, ' '.join('s += sh%d++;' % i for i in range(nshared))))
        u1.append('int get2(void); int get3(void); const char *str2(void); const char *str3(void); extern _Thread_local int tl2;')
        u1.append('int tget2(void); int tget3(void); typedef unsigned long pthread_t; int pthread_create(pthread_t *, void *, void *(*)(void *), void *); int pthread_join(pthread_t, void **);')
        u1.append('static void *th(void *p) { int *r = p; r[0] = tget1(); r[1] = tget2(); r[2] = tget3(); return 0; }')
        u1.append('int main(void) { int a = get1(), b = get2(), c = get3(), e = get1(); tl2 += 5; printf("%d %d %d %d %d %s %s %s\\n", a, b, c, e, get2(), str1(), str2(), str3());'
                  ' int m1[3] = { tget1(), tget2(), tget3() }, t[3]; pthread_t id; pthread_create(&id, 0, th, t); pthread_join(id, 0); int m2[3] = { tget1(), tget2(), tget3() };'
                  ' printf("%d %d %d | %d %d %d | %d %d %d\\n", m1[0], m1[1], m1[2], t[0], t[1], t[2], m2[0], m2[1], m2[2]); return 0; }')
        for nm_, u in (('a.c', u1), ('b.c', u2), ('c.c', u3)): open(os.path.join(d, nm_), 'w').write('\n'.join(u) + '\n')
        def build(cc, cfg):
            comp = [chibi] if cc == 'chibicc' else ['gcc', '-w', '-O0'] + (['-fcommon'] if cfg != 'nocommon' else [])
            exe = 'prog_%s_%s' % (cc, cfg)
            if cfg == 'default': cmd = comp + ['-o', exe, 'a.c', 'b.c', 'c.c']
            elif cfg == 'nocommon': cmd = comp + ['-fno-common', '-o', exe, 'a.c', 'b.c', 'c.c']
            elif cfg == 'pic': cmd = comp + ['-fPIC', '-o', exe, 'a.c', 'b.c', 'c.c']
            elif cfg == 'static': cmd = comp + ['-static', '-o', exe, 'a.c', 'b.c', 'c.c']
            else:
                rc, o, e = sh(comp + ['-fPIC', '-shared', '-o', 'lib%s.so' % cc, 'b.c', 'c.c'], cwd=d, timeout=60)
                if rc != 0: return None, 'shared library: ' + e[-300:]
                cmd = comp + ['-fPIC', '-o', exe, 'a.c', './lib%s.so' % cc]
            rc, o, e = sh(cmd, cwd=d, timeout=120)
            if rc != 0: return None, 'link: ' + e[-300:]
            rc, o, e = sh(['./' + exe], cwd=d, timeout=20)
            return (o if rc == 0 else None), 'exit %d' % rc
        ref, why = build('gcc', 'default')
        texts = {n: open(os.path.join(d, n)).read() for n in ('a.c', 'b.c', 'c.c')}
        if ref is None: run.corr_broken.append('multi-unit program %d does not build with gcc: %s' % (k, why)); continue
        for cfg in ['default', 'nocommon', 'pic', 'shared', 'static']:
            evals += 1
            g, gw = build('gcc', cfg) if cfg != 'default' else (ref, '')
            c, cw = build('chibicc', cfg)
            if g is None:
                # e.g. duplicate tentative definitions under -fno-common: chibicc must fail too
                count('config-gcc-fails-' + cfg)
                if c is not None: run.violation(dict(kind='link-should-fail', config=cfg, gcc=gw, chibicc_output=c, units=texts), dict(area='link', construct=cfg))
                continue
            nontriv += 1; count('config-' + cfg)
            if c != g:
                run.violation(dict(kind='multi-unit-behaviour', config=cfg, chibicc=c if c is not None else cw, gcc=g, units=texts,
                                   how='a.c b.c c.c built as: default | -fno-common | -fPIC | -fPIC with b.c c.c in a shared library | -static; program output'), dict(area='link', construct=cfg))

    # ---------------- tie of package emit: cases evaluated by the Coq spec and model (one coqc call) and by the real compiler ----------------
    tie_dist = {}; tie_e = tie_n = 0; tie_samples = []
    if not os.environ.get('VERIF_SKIP_PROOFS'):
        tie_e, tie_n, tie_dist, tie_samples = run_tie(run, 'emit', src, 60 if run.quick() else 600, 'unit')
    cov = dict(evaluations=evals, distinct_nontrivial=nontriv, input_distribution=dist, samples=samples,
               rule='(a) %d generated units: 2-6 object names each declared 1-4 times as tentative / defined / extern in external, static, thread-local and static thread-local flavours (valid orders only), 3-8 functions (static inline, static, external; forward declarations whose definition omits static; references by call and by address; cycles): nm symbol type and size of every name = gcc -fcommon; which objects are defined and which static inline functions are emitted = extracted model; (b) %d three-unit programs (common symbols in several units, extern references, same-named statics, static locals, TLS, string literals, static inline helpers) built five ways: output = gcc; builds gcc rejects must be rejected' % (NA, NB),
               traces_validated_against_impl=nontriv)
    cov['rule'] = cov.get('rule', '') + ' ' + '(c) package emit: translation units generated from abstract declaration lists (2-8 names, 1-4 declarations each, every valid specifier combination incl. function-address initializers, TLS and _Alignas block statics), compiled under {-fcommon, -fno-common} x {non-PIC, -fPIC}: readelf symbol table = Coq spec = Coq model of GNU as on the modelled directives; -S directive and address-sequence skeleton = model'; cov['tie_emit'] = tie_dist; cov['evaluations'] = cov.get('evaluations', 0) + tie_e; cov['distinct_nontrivial'] = cov.get('distinct_nontrivial', 0) + tie_n
    return run.finish(cov,
        ['gcc 12 -O0 -fcommon (chibicc defaults to -fcommon) is the reference for symbol binding/section kind and for program behaviour; plain `inline` and `extern inline` (whose C11 semantics chibicc does not claim) are not generated',
         'the system linker and libc are trusted'],
        ['Coq 8.16.1 kernel, no axioms', 'hand-written Model/Linkage.v (scan_globals, mark_live) tied by (a)',
         'codegen of symbol directives (.globl/.local/.comm/.tbss, GOTPCREL, TLS sequences) is not modelled: (a)/(b) are differential'])

if __name__ == '__main__':
    sys.exit(main())
