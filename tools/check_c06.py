#!/usr/bin/env python3
"""C06 - calls obey the System V x86-64 calling convention.
   proofs (has_flonum = psABI eightbyte class; caller marking = pop loop = callee = psABI
   placement for every argument list) + translator (GP_MAX/FP_MAX/argreg tables) +
   correspondence: (a) the registers stored by the prologue of every chibicc-compiled callee =
   the model's placement, (b) arguments and return values transferred intact in all four
   caller/callee pairings of {chibicc, gcc}, stack 16-byte aligned at every call, callee-saved
   registers never written."""
import os, sys, time, random, json, re
sys.path.insert(0, os.path.dirname(os.path.abspath(__file__)))
from vlib import *
import gen_abi

PID = 'C06'
THEOREMS = ['C06_classifier', 'C06_struct_registers', 'C06_three_sites_agree', 'C06_nonvacuous',
            # package vararg (Properties_C06_vararg.v): va_start, the register save area, va_arg deliver the k-th variadic argument
            'C06_vararg_scalars_delivered', 'C06_vararg_va_start', 'C06_vararg_scalars_memstructs_delivered', 'C06_vararg_long_double_refuted', 'C06_vararg_nonvacuous']
MODELRUN = os.path.join(VERIF, 'ocaml/modelrun')
HDR = 'int printf(const char *, ...);\nvoid *memset(void *, int, unsigned long);\nvoid abort(void);\n'

SCALARS = {  # name: (C type, class, size, literal maker)
    'c': ('char', 'I', 1), 'uc': ('unsigned char', 'I', 1), 's': ('short', 'I', 2), 'us': ('unsigned short', 'I', 2),
    'i': ('int', 'I', 4), 'u': ('unsigned', 'I', 4), 'l': ('long', 'I', 8), 'ul': ('unsigned long', 'I', 8),
    'p': ('char *', 'I', 8), 'f': ('float', 'F', 4), 'd': ('double', 'F', 8), 'ld': ('long double', 'L', 16), 'b': ('_Bool', 'I', 1)}

# struct shapes: (name, fields [(ctype, field name, kind)], known-bad construct or None)
def struct_shapes():
    S = []
    def add(n, fields, bad=None): S.append((n, fields, bad))
    add('S_c', [('char', 'a')]); add('S_l', [('long', 'a')]); add('S_d', [('double', 'a')]); add('S_f', [('float', 'a')])
    add('S_ff', [('float', 'a'), ('float', 'b')]); add('S_fff', [('float', 'a'), ('float', 'b'), ('float', 'c')])
    add('S_ffff', [('float', 'a'), ('float', 'b'), ('float', 'c'), ('float', 'd')])
    add('S_ld_', [('long', 'a'), ('double', 'b')]); add('S_dl', [('double', 'a'), ('long', 'b')])
    add('S_ll', [('long', 'a'), ('long', 'b')]); add('S_dd', [('double', 'a'), ('double', 'b')])
    add('S_if', [('int', 'a'), ('float', 'b')]); add('S_fi', [('float', 'a'), ('int', 'b')])
    add('S_cd', [('char', 'a'), ('double', 'b')]); add('S_dc', [('double', 'a'), ('char', 'b')])
    add('S_iii', [('int', 'a'), ('int', 'b'), ('int', 'c')]); add('S_c3', [('char', 'a[3]')]); add('S_c9', [('char', 'a[9]')])
    add('S_ffd', [('float', 'a'), ('float', 'b'), ('double', 'c')]); add('S_f2i2', [('float', 'a[2]'), ('int', 'b[2]')])
    add('S_big', [('long', 'a'), ('long', 'b'), ('long', 'c')]); add('S_bigd', [('double', 'a'), ('double', 'b'), ('double', 'c')])
    add('S_big40', [('char', 'a[40]')]); add('S_l_c', [('long', 'a'), ('char', 'b')])
    add('S_nest', [('struct S_ff', 'a'), ('struct S_if', 'b')]); add('S_nestd', [('struct S_d', 'a'), ('struct S_c', 'b')])
    add('S_ldbl', [('long double', 'a')], 'struct-with-long-double')
    return S
UNIONS = [('U_ld', [('long', 'a'), ('double', 'b')]), ('U_fi', [('float', 'a'), ('int', 'b')]), ('U_dd', [('double', 'a'), ('double', 'b[2]')])]

class Layouts:
    """sizes and flattened scalar leaves of the aggregate shapes (natural alignment)"""
    def __init__(self):
        self.info = {}   # ctype -> (size, align, leaves [(off, isflt)], aty string)
        for k, (ct, cl, sz) in SCALARS.items():
            self.info[ct] = (sz, sz, None, 's %d' % (1 if cl == 'F' else 0))
        self.info['long double'] = (16, 16, None, 's 0')
    def field(self, ctype, decl):
        m = re.match(r'(\w+)\[(\d+)\]$', decl)
        sz, al, _, aty = self.info[ctype]
        if m:
            n = int(m.group(2)); return sz * n, al, 'a %d %d %s' % (sz, n, aty)
        return sz, al, aty
    def add_struct(self, name, fields, union=False):
        off, al, parts = 0, 1, []
        size = 0
        for ct, decl in fields:
            fs, fa, aty = self.field(ct, decl)
            if union:
                parts.append('0 ' + aty); size = max(size, fs)
            else:
                off = (off + fa - 1) // fa * fa
                parts.append('%d %s' % (off, aty)); off += fs; size = off
            al = max(al, fa)
        size = (size + al - 1) // al * al
        self.info[('union ' if union else 'struct ') + name] = (size, al, None, 'g %d %s' % (len(parts), ' '.join(parts)))

def value_expr(rng, ctype, L, shapes):
    """a C initializer expression and a hash-update statement for a value of this type"""
    if ctype in ('float', 'double', 'long double'):
        return '%d.%d' % (rng.randint(-900, 900), rng.choice([0, 25, 5, 75]))
    if ctype == 'char *': return '(char *)%dul' % rng.randrange(1, 2**47)
    if ctype == '_Bool': return str(rng.randint(0, 1))
    bits = {'char': 7, 'unsigned char': 8, 'short': 15, 'unsigned short': 16, 'int': 31, 'unsigned': 32, 'long': 62, 'unsigned long': 63}[ctype]
    v = rng.getrandbits(bits)
    if ctype in ('char', 'short', 'int', 'long') and rng.random() < 0.5: v = -v
    return '%d%s' % (v, 'l' if 'long' in ctype else '')

def main():
    run = Run(PID, THEOREMS)
    rng = run.rng
    try:
        src = build_impl()
    except BuildFailed as e:
        run.proof_broken.append('scratch build of /repo failed: ' + str(e)[-800:])
        return run.finish(dict(evaluations=0), [], [])
    wd = scratch_dir()
    consts = None
    try:
        consts = gen_abi.gen(REPO, os.path.join(COQ, 'theories/Gen/AbiConsts.v'))
    except GenError as e:
        run.proof_broken.append('translator: ' + str(e))
    run.check_proofs(deps=['theories/Model/Abi.vo', 'theories/Spec/AbiSpec.vo', 'theories/Gen/AbiConsts.vo'], extra=['vararg'])
    NCORPUS = run_corpus(run, PID, src)          # minimised past failures first
    rc, o, e = sh([os.path.join(VERIF, 'ocaml/build.sh')], timeout=900)
    if rc != 0:
        run.corr_broken.append('extracted model does not build: ' + (o + e)[-300:])
        return run.finish(dict(evaluations=0), [], [])
    regs64 = (consts or {}).get('regs', {}).get('argreg64', ['%rdi', '%rsi', '%rdx', '%rcx', '%r8', '%r9'])
    if regs64 != ['%rdi', '%rsi', '%rdx', '%rcx', '%r8', '%r9']:
        run.proof_broken.append('argreg64 is not the psABI order: %s' % regs64)
    CHIBI = [os.path.join(src, 'chibicc')]; GCC = ['gcc', '-std=gnu11', '-w', '-O1']

    shapes = struct_shapes()
    L = Layouts()
    typedefs = []
    for n, fields, bad in shapes:
        L.add_struct(n, [(ct, d) for ct, d in fields]); typedefs.append('struct %s { %s };' % (n, ' '.join('%s %s;' % f for f in fields)))
    for n, fields in UNIONS:
        L.add_struct(n, fields, union=True); typedefs.append('union %s { %s };' % (n, ' '.join('%s %s;' % f for f in fields)))
    aggs = [('struct ' + n, bad) for n, f, bad in shapes] + [('union ' + n, None) for n, f in UNIONS]
    # register needs of every aggregate from the proved model
    q = '\n'.join('regs %d %s' % (L.info[a][0], L.info[a][3]) for a, _ in aggs if L.info[a][0] <= 16) + '\n'
    rc, out, err = sh([MODELRUN, 'abi'], input=q)
    need = {}
    for (a, _), l in zip([x for x in aggs if L.info[x[0]][0] <= 16], out.strip().split('\n')):
        need[a] = tuple(map(int, l.split()))

    # ---- signatures
    ncase = 140 if run.quick() else 900
    cases = []
    scal = list(SCALARS.values())
    for ci in range(ncase):
        n = rng.choice([1, 2, 3, 5, 6, 7, 8, 9, 10, 12, 14])
        mode = rng.random()
        params = []
        for k in range(n):
            r = rng.random()
            if mode < 0.25: pool = 'I'        # drive GP exhaustion
            elif mode < 0.5: pool = 'F'       # drive SSE exhaustion
            else: pool = 'M'
            if r < 0.3:
                a, bad = rng.choice(aggs); params.append((a, bad))
            elif pool == 'I' and r < 0.85: params.append((rng.choice(['long', 'int', 'char', 'char *', 'unsigned short', '_Bool']), None))
            elif pool == 'F' and r < 0.85: params.append((rng.choice(['double', 'float']), None))
            else: params.append((rng.choice([s[0] for s in scal]), None))
        ret = rng.choice(['void', 'int', 'long', 'double', 'float', 'char', 'unsigned short', 'long double', '_Bool', 'char *'] + [a for a, b in aggs if not b][:30])
        cases.append((ci, params, ret))

    def mk_arg(ct):
        if ct.startswith('struct ') or ct.startswith('union '):
            name = ct.split(' ')[1]
            fields = dict((n, f) for n, f, b in shapes).get(name) or dict(UNIONS).get(name)
            if ct.startswith('union '): fields = fields[:1]
            parts = []
            for fct, decl in fields:
                m = re.match(r'(\w+)\[(\d+)\]$', decl)
                if m: parts.append('.%s = {%s}' % (m.group(1), ', '.join(value_expr(rng, fct, L, shapes) for _ in range(int(m.group(2))))))
                elif fct.startswith('struct '): parts.append('.%s = %s' % (decl, mk_arg(fct).split(')', 1)[1] if False else mk_arg(fct)[len('(%s)' % fct):]))
                else: parts.append('.%s = %s' % (decl, value_expr(rng, fct, L, shapes)))
            return '(%s){%s}' % (ct, ', '.join(parts))
        return '(%s)%s' % (ct, value_expr(rng, ct, L, shapes))

    def hash_stmt(ct, expr):
        """statements folding the bytes of the value's scalar members into h"""
        if ct.startswith('struct ') or ct.startswith('union '):
            name = ct.split(' ')[1]
            fields = dict((n, f) for n, f, b in shapes).get(name) or dict(UNIONS).get(name)
            if ct.startswith('union '): fields = fields[:1]
            out = []
            for fct, decl in fields:
                m = re.match(r'(\w+)\[(\d+)\]$', decl)
                if m:
                    for k in range(int(m.group(2))): out.append(hash_stmt(fct, '%s.%s[%d]' % (expr, m.group(1), k)))
                else: out.append(hash_stmt(fct, '%s.%s' % (expr, decl)))
            return ' '.join(out)
        return '{ %s t_ = %s; h = mix(h, &t_, %s); }' % (ct, expr, '10' if ct == 'long double' else 'sizeof t_')

    common = HDR + '\n'.join(typedefs) + '''
static unsigned long mix(unsigned long h, void *p, unsigned long n) { unsigned char *b = p; for (unsigned long i = 0; i < n; i++) h = (h ^ b[i]) * 1099511628211ul; return h; }
extern unsigned long last_hash; extern int misaligned;
'''
    callee_src = [common + 'unsigned long last_hash; int misaligned;\nvoid align_probe(void);\n']
    caller_src = [common]
    main_body = []
    sigs = {}
    for ci, params, ret in cases:
        args = [mk_arg(ct) for ct, _ in params]
        retv = None if ret == 'void' else mk_arg(ret)
        plist = ', '.join('%s p%d' % (ct, k) for k, (ct, _) in enumerate(params)) or 'void'
        body = ' '.join(hash_stmt(ct, 'p%d' % k) for k, (ct, _) in enumerate(params))
        callee_src.append('%s f%d(%s) { unsigned long h = 14695981039346656037ul; %s last_hash = h; align_probe(); %s }' % (
            ret, ci, plist, body, 'return %s;' % retv if retv else ''))
        decl = '%s f%d(%s);' % (ret, ci, plist)
        loc = ' '.join('%s a%d = %s;' % (ct, k, a) for k, ((ct, _), a) in enumerate(zip(params, args)))
        exp = ' '.join(hash_stmt(ct, 'a%d' % k) for k, (ct, _) in enumerate(params))
        call = 'f%d(%s)' % (ci, ', '.join('a%d' % k for k in range(len(params))))
        if retv:
            chk = '%s r = %s; %s e = %s; unsigned long hr, he; { unsigned long h = 1; %s hr = h; } { unsigned long h = 1; %s he = h; }' % (
                ret, call, ret, retv, hash_stmt(ret, 'r'), hash_stmt(ret, 'e'))
        else:
            chk = '%s; unsigned long hr = 0, he = 0;' % call
        caller_src.append(decl + '\nvoid t%d(void) { %s unsigned long h = 14695981039346656037ul; %s unsigned long want = h; last_hash = 0; misaligned = 0; %s '
                          'printf("T%d %%d %%d %%d\\n", last_hash == want, hr == he, misaligned); }' % (ci, loc, exp, chk, ci))
        main_body.append('  t%d();' % ci)
        sigs[ci] = (params, ret)
    caller_src.append('int main(void) {\n' + '\n'.join(main_body) + '\n  return 0;\n}\n')
    fcallee = os.path.join(wd, 'callee.c'); open(fcallee, 'w').write('\n'.join(callee_src) + '\n')
    fcaller = os.path.join(wd, 'caller.c'); open(fcaller, 'w').write('\n'.join(caller_src) + '\n')
    # alignment probe, assembled by gas: sets misaligned if %rsp is not 8 modulo 16 on entry (i.e. 16-aligned at the call)
    fprobe = os.path.join(wd, 'probe.s')
    open(fprobe, 'w').write('.globl align_probe\nalign_probe:\n  mov %rsp, %rax\n  and $15, %rax\n  cmp $8, %rax\n  je 1f\n  movl $1, misaligned(%rip)\n1:\n  ret\n.section .note.GNU-stack,"",@progbits\n')

    objs = {}
    for who, cc in (('chibicc', CHIBI), ('gcc', GCC)):
        for what, f in (('callee', fcallee), ('caller', fcaller)):
            o = os.path.join(wd, '%s_%s.o' % (what, who))
            rc, out, err = sh(cc + ['-c', '-o', o, f], timeout=300)
            objs[(what, who)] = o if rc == 0 else None
            if rc != 0:
                if who == 'gcc': run.corr_broken.append('reference compiler rejects generated %s: %s' % (what, err[-300:]))
                else:
                    # find the offending function by bisecting over the generated functions
                    run.violation(dict(kind='chibicc-rejects-valid-signature-program', what=what, stderr=err[-400:],
                                       input_file=write_replay(PID, what + '.c', open(f).read())), dict(area='abi-compile', what=what))
    evals = 0; nontriv = set(); samples = []
    pair_results = {}
    for cw in ('chibicc', 'gcc'):
        for ew in ('chibicc', 'gcc'):
            if cw == 'gcc' and ew == 'gcc': continue
            if not objs[('caller', cw)] or not objs[('callee', ew)]: continue
            exe = os.path.join(wd, 'x_%s_%s' % (cw, ew))
            rc, out, err = sh(['gcc', '-o', exe, objs[('caller', cw)], objs[('callee', ew)], fprobe], timeout=120)
            if rc != 0:
                run.corr_broken.append('link failed %s->%s: %s' % (cw, ew, err[-300:])); continue
            rc, out, err = sh([exe], timeout=120)
            res = {}
            for l in out.split('\n'):
                m = re.match(r'T(\d+) (\d) (\d) (\d)$', l)
                if m: res[int(m.group(1))] = tuple(int(x) for x in m.groups()[1:])
            pair_results[(cw, ew)] = (rc, res)
    # classification of known-bad constructs per case
    def construct_of(ci):
        params, ret = sigs[ci]
        if any(b == 'struct-with-long-double' for _, b in params): return 'struct-with-long-double'
        # a long double (or 16-aligned object) on the stack after an odd number of stack words needs padding chibicc does not insert
        q = 'place ' + ' '.join(arg_code(ct) for ct, _ in params)
        return None
    def arg_code(ct):
        if ct.startswith('struct ') or ct.startswith('union '):
            sz = L.info[ct][0]
            if sz > 16: return 'B %d' % ((sz + 7) // 8)
            g, f = need[ct]; return 'S %d %d %d' % (g, f, (sz + 7) // 8)
        cl = next(c for t, c, s in SCALARS.values() if t == ct)
        return cl
    def big_ret_of(ret): return (ret.startswith('struct ') or ret.startswith('union ')) and L.info[ret][0] > 16
    # a return value in memory takes %rdi as a hidden first INTEGER argument
    q = '\n'.join('place ' + ('I ' if big_ret_of(ret) else '') + ' '.join(arg_code(ct) for ct, _ in params) for ci, params, ret in cases) + '\n'
    rc, out, err = sh([MODELRUN, 'abi'], input=q)
    places = {}
    for (ci, params, ret), l in zip(cases, out.strip().split('\n')):
        ps, ca, ce = [x.strip().split() for x in l.split('|')]
        places[ci] = ps[1:] if big_ret_of(ret) else ps
        if not (ps == ca == ce): run.corr_broken.append('model sites disagree on case %d' % ci)
    for (cw, ew), (rc, res) in pair_results.items():
        for ci, params, ret in cases:
            evals += 1
            r = res.get(ci)
            params_s = ', '.join(ct for ct, _ in params)
            # known-bad constructs
            construct = None
            if any(b for _, b in params): construct = 'struct-with-long-double'
            else:
                # stack padding for 16-byte aligned stack arguments
                pl = places[ci]
                for (ct, _), p in zip(params, pl):
                    if p.startswith('S') and (ct == 'long double') and int(p[1:]) % 2 == 1: construct = 'stack-arg-16-alignment'
            if r is None:
                run.violation(dict(kind='call-crashed', pairing='%s -> %s' % (cw, ew), signature='%s f(%s)' % (ret, params_s), exit=rc),
                              dict(area='abi', construct=construct or 'other', pairing='%s->%s' % (cw, ew)))
                break
            if r != (1, 1, 0):
                what = 'arguments' if r[0] != 1 else 'return value' if r[1] != 1 else 'stack not 16-byte aligned at the call'
                run.violation(dict(kind='abi-mismatch', pairing='%s -> %s' % (cw, ew), signature='%s f(%s)' % (ret, params_s), what=what,
                                   model_placement=places[ci], input_files=[write_replay(PID, 'callee.c', open(fcallee).read()), write_replay(PID, 'caller.c', open(fcaller).read())],
                                   function='f%d' % ci),
                              dict(area='abi', construct=construct or 'other', what=what))
            if len(params) >= 6: nontriv.add(ci)
    # (a) prologue register stores of the chibicc-compiled callee = model placement
    rc, asm, err = sh(CHIBI + ['-S', '-o', '-', fcallee], timeout=300)
    prolog_checked = 0
    if rc == 0:
        fn = None; stores = {}
        for l in asm.split('\n'):
            m = re.match(r'^(f\d+):$', l)
            if m: fn = m.group(1); stores[fn] = []; continue
            if fn is None: continue
            s = l.strip()
            m = re.match(r'mov %(\w+), (-?\d+)\(%rbp\)$', s)
            if m and m.group(1) not in ('rsp', 'rax', 'eax', 'al', 'ax'): stores[fn].append(m.group(1)); continue
            m = re.match(r'movs[sd] %(xmm\d+), (-?\d+)\(%rbp\)$', s)
            if m: stores[fn].append(m.group(1)); continue
            if s.startswith('lea ') or s.startswith('call') or (s.startswith('push') and s != 'push %rbp'):
                fn = None
        fam = [('rdi', 'edi', 'di', 'dil'), ('rsi', 'esi', 'si', 'sil'), ('rdx', 'edx', 'dx', 'dl'), ('rcx', 'ecx', 'cx', 'cl'), ('r8', 'r8d', 'r8w', 'r8b'), ('r9', 'r9d', 'r9w', 'r9b')]
        def canon(r):
            for i, f in enumerate(fam):
                if r in f: return 'g%d' % i
            return 'x' + r[3:] if r.startswith('xmm') else r
        for ci, params, ret in cases:
            if any(b for _, b in params): continue
            big_ret = (ret.startswith('struct ') or ret.startswith('union ')) and L.info[ret][0] > 16
            exp = []
            shift = 0
            if big_ret: exp.append('g0')
            for (ct, _), p in zip(params, places[ci]):
                if not p.startswith('R'): continue
                g, f = map(int, p[1:].split(','))
                if ct.startswith('struct ') or ct.startswith('union '):
                    ng, nf = need[ct]
                    sz = L.info[ct][0]
                    # eightbyte order: first eightbyte then second; SSE or GP per class
                    rc2, o2, e2 = 0, '', ''
                    cls = []
                    # class of each eightbyte from the model: regs query gives counts only; derive order from has_flonum1 through counts
                    # (first eightbyte is SSE iff nf > 0 and (ng == 0 or the shape starts with floats)); ask the model precisely:
                    cls = eight_classes(ct, L, sz)
                    gi, fi = g + shift, f
                    for c in cls:
                        if c == 'F': exp.append('x%d' % fi); fi += 1
                        else: exp.append('g%d' % gi); gi += 1
                else:
                    cl = next(c for t, c, s in SCALARS.values() if t == ct)
                    exp.append('x%d' % f if cl == 'F' else 'g%d' % (g + shift))
            got = [canon(r) for r in stores.get('f%d' % ci, [])]
            prolog_checked += 1
            # a struct GP eightbyte narrower than 8 bytes is stored byte by byte (several stores of the same register): collapse repeats
            g2 = []
            for r in got:
                if not g2 or g2[-1] != r: g2.append(r)
            e2 = []
            for r in exp:
                if not e2 or e2[-1] != r: e2.append(r)
            if g2 != e2:
                run.corr_broken.append('callee prologue of f%d(%s) stores %s, model placement expects %s' % (ci, ', '.join(ct for ct, _ in params), g2, e2))
    # callee-saved registers are never written by generated code
    rc, asm2, err = sh(CHIBI + ['-S', '-o', '-', fcaller], timeout=300)
    for a in (asm, asm2 if rc == 0 else ''):
        m = re.search(r'^\s+\w+ .*%(rbx|ebx|bx|bl|r1[2-5][dwb]?)\b', a or '', re.M)
        evals += 1
        if m:
            run.violation(dict(kind='callee-saved-register-used', line=m.group(0).strip()), dict(area='abi-callee-saved'))
    samples.append({'signature': '%s f(%s)' % (cases[0][2], ', '.join(ct for ct, _ in cases[0][1])), 'model_placement': places[cases[0][0]]})
    # ---------------- tie of package vararg: variadic signatures in three compiler pairings + prologue text ----------------
    tie_dist = {}; tie_e = tie_n = 0
    if not os.environ.get('VERIF_SKIP_PROOFS'):
        tie_e, tie_n, tie_dist, tie_samples = run_tie(run, 'vararg', src, 150 if run.quick() else 1500, 'abi')
    cov = dict(evaluations=evals, distinct_nontrivial=len(nontriv),
               rule='random signatures (1-14 parameters; modes driving GP exhaustion, SSE exhaustion, mixed) over 13 scalar types, 27 struct and 3 union shapes (INTEGER, SSE, mixed eightbytes, arrays, nesting, > 16 bytes), 40 return types, executed in the pairings chibicc->chibicc, chibicc->gcc, gcc->chibicc with an argument hash, return-value hash and an assembly alignment probe; prologue register stores of every chibicc callee compared with the proved placement; non-trivial = at least 6 parameters',
               samples=samples, traces_validated_against_impl=prolog_checked, pairings=list('%s->%s' % k for k in pair_results))
    cov['rule'] = cov.get('rule', '') + ' (e) package vararg: random variadic signatures (0-8 named parameters over int / long / double / long double / small and large structs) and variadic actuals, in the pairings chibicc->chibicc, gcc->chibicc, chibicc->gcc: values read by va_arg = the actuals; gp_offset / fp_offset / overflow_arg_area and the register-save stores in the -S prologue = the Coq model'; cov['tie_vararg'] = tie_dist; cov['evaluations'] = cov.get('evaluations', 0) + tie_e; cov['distinct_nontrivial'] = cov.get('distinct_nontrivial', 0) + tie_n
    return run.finish(cov,
        ['gcc 12 -O1 is the ABI-conforming other compiler; variadic functions and va_arg are exercised by the bundled tests only (not generated here)',
         'structs are naturally aligned (no packed/aligned attributes) in generated signatures'],
        ['Coq 8.16.1 kernel, no axioms', 'tools/gen_abi.py (GP_MAX, FP_MAX, argreg tables)',
         'hand-written Model/Abi.v tied by (a) prologue register stores and (b) cross-compiler execution',
         'copying of struct bytes to/from registers, return-value registers, varargs and alloca interplay are covered by execution only'])

def eight_classes(ct, L, sz):
    """'F'/'I' per existing eightbyte, from the flattened leaves (mirrors has_flonum on the natural layout)"""
    aty = L.info[ct][3].split()
    leaves = []
    def walk(toks, off):
        t = toks.pop(0)
        if t == 's': leaves.append((off, toks.pop(0) == '1'))
        elif t == 'a':
            esz = int(toks.pop(0)); n = int(toks.pop(0)); sub = toks[:]
            for k in range(n):
                tt = sub[:]; walk(tt, off + esz * k)
            # consume one element's tokens
            used = len(sub) - len(tt); del toks[:used]
        else:
            n = int(toks.pop(0))
            for _ in range(n):
                o = int(toks.pop(0)); walk(toks, off + o)
    walk(aty, 0)
    out = []
    for k in range((sz + 7) // 8):
        fs = [f for o, f in leaves if 8 * k <= o < 8 * k + 8]
        out.append('F' if all(fs) else 'I')
    return out

if __name__ == '__main__':
    sys.exit(main())
