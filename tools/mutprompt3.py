#!/usr/bin/env python3
"""Round-3 prompt for an independent mutation sub-agent: property text + the one-line summaries of the
changes earlier rounds already used (so that it looks elsewhere).  Nothing from /verif is shown."""
import json,sys,os
pid=sys.argv[1]; root=sys.argv[2] if len(sys.argv)>2 else '/tmp/mut3'
for l in open('/verif/properties.jsonl'):
    p=json.loads(l)
    if p['id']==pid: break
used=[]
for d in sorted(os.listdir('/verif/seeded')):
    if d.split('_')[0]==pid and os.path.exists(f'/verif/seeded/{d}/meta.json'):
        m=json.load(open(f'/verif/seeded/{d}/meta.json'))
        used.append((m.get('summary') or '')[:400])
print(f"""You are helping evaluate a verification effort by seeding ONE realistic bug into a small C compiler (rui314/chibicc).

Your private checkout is the git worktree {root}/{pid}/wt (build with `make -j4`, run the suite with `make test`). Work ONLY inside {root}/{pid}/wt and {root}/{pid}/out. Do NOT read or touch /verif or /repo (other than through your worktree), and do not look for any other verification material on this machine.

The property your change must break:

  Title: {p['title']}
  Statement: {p['statement']}
  Quantified over: {p['quantifier']['text']}

Task: make a small change to chibicc's source (the kind of plausible mistake a developer makes in a refactoring, an "optimisation", an off-by-one, a wrong table entry, a forgotten case, two sites that each look fine alone but no longer agree) such that
  1. chibicc still compiles (`make -j4`) without new warnings that would give it away;
  2. the whole existing test suite still passes (`make test` prints OK for every test and driver.sh passes) - run it and confirm;
  3. the property above is now violated for SOME input, but only one that needs something specific to manifest: an unusual input, a boundary value, a multi-step sequence of operations, a particular position relative to a threshold, a fault at a particular point, or two cooperating sites that each look fine alone - NOT something ordinary everyday use would expose at once.
The unchanged tree already contains some bugs of its own; your change must introduce NEW misbehaviour: your demonstration must PASS on the unchanged tree and FAIL with your change applied.

Earlier rounds already used the following changes; pick a DIFFERENT function / mechanism / clause of the property (ideally a part of the statement those do not touch):
""" + "\n".join(f"  - {u}" for u in used) + f"""

Deliverables, all in {root}/{pid}/out/ :
  - patch.diff   : output of `git diff` in the worktree (must apply cleanly with `git apply` to a clean checkout of the same commit)
  - demo.sh (+ any input files it needs, all inside that directory): `demo.sh <path-to-chibicc-checkout-dir>` uses <dir>/chibicc (and <dir>/include) and exits 0 if the behaviour is correct, non-zero (with a short message) if the property is violated. Keep it self-contained and offline (gcc is available for linking/reference). It must not depend on its own location being writable-relative: use mktemp -d for scratch and clean it up.
  - meta.json    : {{"property":"{pid}","summary":"what the change does","needs_to_manifest":"what specific input/sequence triggers it","files_changed":[...],"commands_run":[...],"demo_unchanged_exit":0,"demo_changed_exit":<n>}}

Verify yourself: demo passes on the clean worktree, fails with the patch; make test passes with the patch. When finished, restore the worktree to clean (`git -C {root}/{pid}/wt checkout -- .` and `make clean` there). Keep your final report to a few lines: what you changed and what triggers it, plus anything odd you noticed about the UNCHANGED tree's behaviour relative to the property.""")
