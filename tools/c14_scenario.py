#!/usr/bin/env python3
"""Runs INSIDE a private mount namespace (unshare -m): gives the process tree its own empty /tmp,
runs one driver scenario there and prints a JSON observation.
argv: <chibicc dir> <scenario json>"""
import os, sys, json, subprocess, shutil, stat
src, sc = sys.argv[1], json.loads(sys.argv[2])
binary = open(os.path.join(src, 'chibicc'), 'rb').read()     # the scratch build may itself live under /tmp
subprocess.run(['mount', '-t', 'tmpfs', 'none', '/tmp'], check=True)
os.makedirs('/tmp/bin'); open('/tmp/bin/chibicc', 'wb').write(binary); os.chmod('/tmp/bin/chibicc', 0o755); src = '/tmp/bin'
w = '/tmp/w'; os.makedirs(w); sh = '/tmp/shims'; os.makedirs(sh)
real_as = shutil.which('as'); real_ld = shutil.which('ld')
def shim(name, real, fail_at, how):
    p = os.path.join(sh, name)
    open(p, 'w').write('''#!/bin/sh
n=$(cat /tmp/shims/%s.count 2>/dev/null || echo 0); n=$((n+1)); echo $n > /tmp/shims/%s.count
if [ "$n" = "%s" ]; then %s; fi
exec %s "$@"
''' % (name, name, fail_at, 'kill -SEGV $$' if how == 'signal' else 'exit 1', real))
    os.chmod(p, 0o755)
shim('as', real_as, sc.get('as_fail', 0), sc.get('how', 'exit'))
shim('ld', real_ld, sc.get('ld_fail', 0), sc.get('how', 'exit'))
names = []
for i, k in enumerate(sc['kinds']):
    if k == 'C':
        n = 'in%d.c' % i
        body = 'int f%d(void) { return %d; }\n' % (i, i) if i != sc.get('main_at', -1) else 'int main(void) { return 0; }\n'
        if i == sc.get('bad_c', -1): body = ('#error bad translation unit\n' if sc['mode'] == 'E' else 'int f%d(void) { return @ ; }\n' % i)
        open(os.path.join(w, n), 'w').write(body)
    elif k == 'A' or (k == 'O' and sc['mode'] == 'E'):
        n = 'in%d.%s' % (i, 's' if k == 'A' else 'o')
        if i == sc.get('bad_c', -1): open(os.path.join(w, n), 'w').write('#error bad translation unit\n'); names.append(n); continue
        if sc['mode'] == 'E': open(os.path.join(w, n), 'w').write('int z%d;\n' % i)      # -E reads every input as C text
        else:
            sym = 'main' if i == sc.get('main_at', -1) else 'g%d' % i
            open(os.path.join(w, n), 'w').write('.globl %s\n%s:\n  xor %%eax, %%eax\n  ret\n.section .note.GNU-stack,"",@progbits\n' % (sym, sym))
    else:
        n = 'in%d.o' % i
        open(os.path.join(w, 'tmp_o.c'), 'w').write('int %s(void) { return 0; }\n' % ('main' if i == sc.get('main_at', -1) else 'h%d' % i))
        subprocess.run(['gcc', '-c', '-o', os.path.join(w, n), os.path.join(w, 'tmp_o.c')], check=True); os.unlink(os.path.join(w, 'tmp_o.c'))
    names.append(n)
if sc.get('unreadable', -1) >= 0: os.unlink(os.path.join(w, names[sc['unreadable']]))
if sc.get('in_is_dir', -1) >= 0:               # the input path exists but is a directory: open() succeeds, reading fails
    pth = os.path.join(w, names[sc['in_is_dir']]); os.unlink(pth); os.makedirs(pth)
# every path the command could write gets a sentinel first
cands = ['a.out', 'out.bin'] + ['in%d.s' % i for i, k in enumerate(sc['kinds']) if k == 'C'] + ['in%d.o' % i for i, k in enumerate(sc['kinds']) if k != 'O']
for c in cands:
    p = os.path.join(w, c)
    if not os.path.exists(p): open(p, 'w').write('OLD-CONTENT')
rd = lambda c: open(os.path.join(w, c), 'rb').read() if os.path.isfile(os.path.join(w, c)) else b'<dir>'
before = {c: rd(c) for c in os.listdir(w)}
if sc.get('out_is_dir'):                       # the output path exists and is a directory: it cannot be written, even by root
    tgt = os.path.join(w, sc['out_is_dir']); os.unlink(tgt) if os.path.exists(tgt) else None; os.makedirs(tgt)
args = [os.path.join(src, 'chibicc')] + {'E': ['-E'], 'S': ['-S'], 'C': ['-c'], 'L': []}[sc['mode']] + (['-o', sc.get('out_path', 'out.bin')] if sc['has_o'] else []) + names
env = dict(os.environ, PATH=sh + ':' + os.environ['PATH'])
if sc.get('stdout_full'):                     # standard output that cannot be written (short outputs sit in the stdio buffer until exit)
    p = subprocess.run(args, cwd=w, env=env, stdout=open('/dev/full', 'w'), stderr=subprocess.PIPE, timeout=60); p.stdout = b''
else:
    p = subprocess.run(args, cwd=w, env=env, capture_output=True, timeout=60)
after = {c: rd(c) for c in os.listdir(w)}
cnt = lambda n: int(open('/tmp/shims/%s.count' % n).read()) if os.path.exists('/tmp/shims/%s.count' % n) else 0
print(json.dumps(dict(exit=p.returncode, changed=sorted(c for c in after if before.get(c) != after[c]),
                      removed=sorted(c for c in before if c not in after),
                      leftover=sorted(x for x in os.listdir('/tmp') if x.startswith('chibicc-')),
                      as_calls=cnt('as'), ld_calls=cnt('ld'), stdout_len=len(p.stdout), stderr=p.stderr.decode(errors='replace')[-300:])))
