#!/usr/bin/env python3
"""C03 - control flow and lexical scoping follow the abstract machine.
   proofs (switch dispatch chain = the C11 6.8.4.2 case selection for every case list, value and
   controlling width/signedness; scope stack: innermost binding, block exit restores, separate name
   spaces) + correspondence:
   (a) generated switch statements (all controlling types, case values negative / beyond 32 bits /
       ranges, any default placement): the case entered by the compiled program = extracted dispatch
       model = the C11 selection computed independently;
   (b) generated structured programs (if/else, for/while/do, break/continue, switch with
       fall-through inside loops, goto both ways, computed goto, && || ?: comma, statement
       expressions) printing marker traces: chibicc = gcc;
   (c) generated shadowing programs (objects, typedef names, enumerators, struct/union/enum tags,
       labels; block, for-init, parameter and file scope): every use prints the binding it got:
       chibicc = the binding computed by the generator = gcc."""
import os, sys, time, random, json, re
sys.path.insert(0, os.path.dirname(os.path.abspath(__file__)))
from vlib import *

PID = 'C03'
THEOREMS = ['C03_switch_dispatch', 'C03_case_value_stored', 'C03_innermost_binding', 'C03_latest_declaration', 'C03_block_scope_restores', 'C03_name_spaces_separate', 'C03_nonvacuous',
            'C03_lowering_simulation', 'C03_lowered_program', 'C03_target_deterministic', 'C03_lowering_nonvacuous', 'C03_shortcircuit_lowering',
            # package sw (Properties_C03_sw.v): switch with fall-through / default anywhere / Duff's device, goto and labels, computed goto; parse.c's label bookkeeping; two semantics proved equivalent
            'C03_sw_lowering_simulates', 'C03_sw_program_simulates', 'C03_sw_function_simulates', 'C03_sw_program_run_unique', 'C03_sw_smrun_sound', 'C03_sw_loop_binds_break_continue', 'C03_sw_switch_binds_break',
            'C03_sw_duplicates_refuted', 'C03_sw_parse_labels_unique', 'C03_sw_parse_gen_is_sprogram', 'C03_sw_parsed_program_simulates', 'C03_sw_parse_accepts_iff', 'C03_sw_parse_rejects_stray',
            'C03_sw_seek_agrees_with_continuations', 'C03_sw_program_agrees_with_continuations', 'C03_sw_continuation_run_unique', 'C03_sw_crun_sound', 'C03_sw_semantics_equivalent',
            'C03_sw_code_simulates_continuation_semantics', 'C03_sw_parsed_code_simulates_continuation_semantics', 'C03_sw_duff_nonvacuous', 'C03_sw_mix_nonvacuous', 'C03_sw_seek_nonvacuous', 'C03_sw_parse_nonvacuous', 'C03_sw_cont_nonvacuous']
MODELRUN = os.path.join(VERIF, 'ocaml/modelrun')

CTYPES = [('signed char', 8, True), ('unsigned char', 8, False), ('short', 16, True), ('unsigned short', 16, False), ('int', 32, True), ('unsigned int', 32, False),
          ('long', 64, True), ('unsigned long', 64, False), ('_Bool', 1, False), ('long long', 64, True)]

def conv(bits, sgn, v):
    v %= 1 << bits
    return v - (1 << bits) if sgn and v >= 1 << (bits - 1) else v

# ------------------------------------------------------------ (a) switch
def gen_switch(rng):
    tname, bits, sgn = rng.choice(CTYPES)
    # promoted type: int for narrower than int
    pbits, psgn = (32, True) if bits < 32 else (bits, sgn)
    lo, hi = (-(1 << (pbits - 1)), (1 << (pbits - 1)) - 1) if psgn else (0, (1 << pbits) - 1)
    pts = sorted(set([lo, hi, 0, 1, -1 if psgn else hi - 1, 7, 100, 255, 256, 65535, 65536, (1 << 31) - 1, 1 << 31, (1 << 32) - 1, 1 << 32, (1 << 32) + 1, -(1 << 31), -(1 << 31) - 1, -(1 << 32) - 1,
                      (1 << 62), -(1 << 62)] + [rng.randint(lo, hi) for _ in range(4)]))
    pts = [p for p in pts if lo <= p <= hi]
    cases = []; used = []
    for _ in range(rng.randint(1, 7)):
        b = rng.choice(pts) + rng.randint(-2, 2)
        if not lo <= b <= hi: continue
        e = b if rng.random() < 0.6 else min(hi, b + rng.choice([1, 2, 5, 1000, 1 << 20, 1 << 33]))
        if any(not (e < ub or b > ue) for ub, ue in used): continue
        used.append((b, e)); cases.append((b, e))
    has_default = rng.random() < 0.6
    dpos = rng.randint(0, len(cases)) if has_default else None
    vals = set()
    for b, e in cases: vals.update([b - 1, b, b + 1, e - 1, e, e + 1, (b + e) // 2])
    vals.update([lo, hi, 0, 1, 5])
    # values of the ORIGINAL controlling type
    olo, ohi = (-(1 << (bits - 1)), (1 << (bits - 1)) - 1) if sgn else (0, (1 << bits) - 1)
    vals = sorted(v for v in vals if olo <= v <= ohi)
    return tname, bits, sgn, pbits, psgn, cases, dpos, vals

def lit(v):
    if v == -(1 << 63): return '(-9223372036854775807L-1)'
    if v >= 1 << 63: return '%dUL' % v
    if v >= 1 << 31 or v < -(1 << 31): return '%dL' % v
    return str(v)

def switch_program(cases_sets):
    out = ['int printf(const char *, ...);']
    for k, (tname, bits, sgn, pbits, psgn, cases, dpos, vals) in enumerate(cases_sets):
        body = []
        items = [('c', i) for i in range(len(cases))]
        if dpos is not None: items.insert(dpos, ('d', None))
        for kind, i in items:
            if kind == 'd': body.append('    default: return 100;')
            else:
                b, e = cases[i]
                body.append('    case %s%s: return %d;' % (lit(b), '' if b == e else ' ... ' + lit(e), i + 1))
        out.append('int sw%d(%s x) {\n  switch (x) {\n%s\n  }\n  return 0;\n}' % (k, tname, '\n'.join(body)))
    out.append('int main(void) {')
    for k, cs in enumerate(cases_sets):
        for v in cs[7]: out.append('  printf("%d %%d\\n", sw%d((%s)%s));' % (k, k, cs[0], lit(v)))
    out.append('  return 0;\n}')
    return '\n'.join(out) + '\n'

# ------------------------------------------------------------ (b) traces
class TraceGen:
    def __init__(self, rng): self.rng = rng; self.m = 0; self.v = 0; self.labels = 0; self.fn_labels = []
    def mark(self): self.m += 1; return 'M(%d);' % self.m
    def e(self, k, v):
        """an operand with the truth value v whose TYPE varies (int, long with all-zero low half, double, float, pointer, unsigned char):
        the test of each operand of && || ?: ! must be made in the operand's own type"""
        return '%s(%d, %d)' % (self.rng.choice(['E', 'E', 'EL', 'ED', 'EF', 'EP', 'EC']), k, v)
    def cond(self):
        r = self.rng.random()
        self.m += 2; a, b = self.m - 1, self.m
        if r < 0.3: return '(c%d++ %% 3)' % self.rng.randint(0, 3)
        if r < 0.5: return '(%s && %s)' % (self.e(a, self.rng.randint(0, 1)), self.e(b, self.rng.randint(0, 1)))
        if r < 0.7: return '(%s || %s)' % (self.e(a, self.rng.randint(0, 1)), self.e(b, self.rng.randint(0, 1)))
        if r < 0.8: return '(%s ? E(%d, 1) : E(%d, 0))' % (self.e(a, self.rng.randint(0, 1)), b, b)
        if r < 0.85: return '(!%s && !!%s)' % (self.e(a, self.rng.randint(0, 1)), self.e(b, self.rng.randint(0, 1)))      # sequenced operands only: == would leave the order unspecified
        if r < 0.9: return '(E(%d, 0), %s)' % (a, self.e(b, self.rng.randint(0, 1)))
        return '(({ M(%d); %s; }))' % (a, self.e(b, self.rng.randint(0, 1)))
    def stmt(self, depth, in_loop, in_switch):
        rng = self.rng; r = rng.random()
        if depth <= 0 or r < 0.25: return self.mark()
        if r < 0.38: return 'if %s { %s } else { %s }' % (self.cond(), self.stmt(depth - 1, in_loop, in_switch), self.stmt(depth - 1, in_loop, in_switch))
        if r < 0.48:
            self.v += 1; i = 'i%d' % self.v
            return 'for (int %s = 0; %s < %d; %s++) { %s %s }' % (i, i, rng.randint(0, 3), i, self.mark(), self.stmt(depth - 1, True, in_switch and False))
        if r < 0.56:
            self.v += 1; i = 'w%d' % self.v
            return '{ int %s = %d; while (%s-- > 0) { %s } }' % (i, rng.randint(0, 3), i, self.stmt(depth - 1, True, False))
        if r < 0.63:
            self.v += 1; i = 'd%d' % self.v
            return '{ int %s = 0; do { %s } while (++%s < %d); }' % (i, self.stmt(depth - 1, True, False), i, rng.randint(0, 3))
        if r < 0.70 and in_loop: return rng.choice(['break;', 'continue;']) if rng.random() < 0.6 else 'if %s break; else continue;' % self.cond()
        if r < 0.72 and in_switch: return 'break;'
        if r < 0.86:
            n = rng.randint(1, 4); vals = rng.sample(range(-2, 6), n)
            parts = []
            dpos = rng.randint(0, n) if rng.random() < 0.6 else None
            for j, v in enumerate(vals):
                if dpos == j: parts.append('default: %s %s' % (self.mark(), 'break;' if rng.random() < 0.5 else ''))
                rg = ' ... %d' % (v + 1) if rng.random() < 0.2 and (v + 1) not in vals else ''
                parts.append('case %d%s: %s %s' % (v, rg, self.stmt(depth - 1, in_loop, True), 'break;' if rng.random() < 0.6 else ''))
            if dpos == n: parts.append('default: %s' % self.mark())
            return 'switch (c%d++ %% 7 - 1) { %s }' % (rng.randint(0, 3), ' '.join(parts))
        if r < 0.93:
            self.labels += 1; l = 'L%d' % self.labels
            if rng.random() < 0.5:   # forward goto skipping a marker
                return 'if %s goto %s; %s %s: %s' % (self.cond(), l, self.mark(), l, self.mark())
            self.v += 1; g = 'g%d' % self.v   # backward goto bounded by a counter
            return '{ int %s = 0; %s: %s if (++%s < %d) goto %s; }' % (g, l, self.mark(), g, rng.randint(1, 3), l)
        if r < 0.97:
            self.labels += 2; a, b = 'L%d' % (self.labels - 1), 'L%d' % self.labels
            return '{ void *tab[2] = { &&%s, &&%s }; goto *tab[c%d++ %% 2]; %s: %s %s: %s }' % (a, b, self.rng.randint(0, 3), a, self.mark(), b, self.mark())
        return '{ %s %s }' % (self.stmt(depth - 1, in_loop, in_switch), self.stmt(depth - 1, in_loop, in_switch))
    HELPERS = ('int printf(const char *, ...);\nint c0, c1, c2, c3;\nstatic void M(int k) { printf("%d ", k); }\nstatic int E(int k, int v) { printf("%d ", k); return v; }\n'
               'static long EL(int k, int v) { printf("%d ", k); return (long)v << 32; }\nstatic double ED(int k, int v) { printf("%d ", k); return v ? 0.5 : 0.0; }\nstatic float EF(int k, int v) { printf("%d ", k); return v ? 1e-30f : -0.0f; }\n'
               'static char *EP(int k, int v) { printf("%d ", k); return v ? "p" : (char *)0; }\nstatic unsigned char EC(int k, int v) { printf("%d ", k); return v ? 128 : 0; }\n'
               'static long double EX(int k, int v) { printf("%d ", k); return v ? 1e-4000L : 0.0L; }\nstatic _Bool EB(int k, int v) { printf("%d ", k); return v; }\n')
    @staticmethod
    def typed_grid_programs():
        """every connective x every pair of operand TYPES x every pair of truth values: the test of each operand must be made in that operand's type"""
        ops = ['E', 'EL', 'ED', 'EF', 'EP', 'EC', 'EX', 'EB']
        progs = []
        for conn in ('&&', '||', '?:', 'stmt'):
            lines = []
            for a in ops:
                for b in ops:
                    for va in (0, 1):
                        for vb in (0, 1):
                            x, y = '%s(1, %d)' % (a, va), '%s(2, %d)' % (b, vb)
                            if conn == '?:': lines.append('  M(%s ? (%s ? 10 : 11) : (!%s ? 12 : 13)); printf("\\n");' % (x, y, y))
                            elif conn == 'stmt': lines.append('  if (%s) M(3); else M(4); { int n = 0; while (%s) { M(5); if (n++) break; } } { int n = 0; do { M(6); if (n++) break; } while (%s); } for (int n = 0; !%s; n++) { M(7); if (n) break; } printf("\\n");' % (x, y, x, y))
                            else: lines.append('  M(10 + (%s %s %s)); M(20 + !(%s %s !%s)); printf("\\n");' % (x, conn, y, y, conn, x))
            progs.append(TraceGen.HELPERS + 'int main(void) {\n' + '\n'.join(lines) + '\n  return 0; }\n')
        return progs
    def program(self):
        fns = []
        for f in range(self.rng.randint(1, 3)):
            body = ' '.join(self.stmt(self.rng.randint(2, 4), False, False) for _ in range(self.rng.randint(1, 3)))
            fns.append('void f%d(void) { %s }' % (f, body))
        return ('int printf(const char *, ...);\nint c0, c1, c2, c3;\nstatic void M(int k) { printf("%d ", k); }\nstatic int E(int k, int v) { printf("%d ", k); return v; }\n' +
                'static long EL(int k, int v) { printf("%d ", k); return (long)v << 32; }\nstatic double ED(int k, int v) { printf("%d ", k); return v ? 0.5 : 0.0; }\nstatic float EF(int k, int v) { printf("%d ", k); return v ? 1e-30f : -0.0f; }\n'
                'static char *EP(int k, int v) { printf("%d ", k); return v ? "p" : (char *)0; }\nstatic unsigned char EC(int k, int v) { printf("%d ", k); return v ? 128 : 0; }\n' +
                '\n'.join(fns) + '\nint main(void) { for (int r = 0; r < 3; r++) { ' + ' '.join('f%d();' % f for f in range(len(fns))) + ' } printf("\\n"); return 0; }\n')

# ------------------------------------------------------------ (c) scoping
class ScopeGen:
    """names from a small pool are declared as different kinds of things in nested scopes; every use prints what it
    is bound to.  env: stack of dict name -> (kind, value); tags: stack of dict name -> size"""
    def __init__(self, rng): self.rng = rng; self.exp = []; self.uid = 0
    def use(self, env, tags, out):
        for n in ['a', 'b', 'T']:
            for fr in reversed(env):
                if n in fr:
                    kind, val = fr[n]
                    if kind in ('var', 'enum'): out.append('P(%s);' % n); self.exp.append(val)
                    else: out.append('P(sizeof(%s));' % n); self.exp.append(val)
                    break
        for n in ['S', 'U']:
            for fr in reversed(tags):
                if n in fr:
                    kind, val = fr[n]
                    out.append('P(sizeof(%s %s));' % (kind, n)); self.exp.append(val); break
    def declare(self, env, tags, out):
        rng = self.rng; r = rng.random(); self.uid += 1; k = self.uid
        n = rng.choice(['a', 'b', 'T'])
        if n in env[-1] or r < 0.15:
            t = rng.choice(['S', 'U'])
            if t in tags[-1]: return
            kind = rng.choice(['struct', 'union']); sz = rng.randint(1, 40)
            out.append('%s %s { char c[%d]; };' % (kind, t, sz)); tags[-1][t] = (kind, sz); return
        if r < 0.5: out.append('int %s = %d;' % (n, 1000 + k)); env[-1][n] = ('var', 1000 + k)
        elif r < 0.7: sz = rng.randint(1, 30); out.append('typedef char %s[%d];' % (n, sz)); env[-1][n] = ('type', sz)
        elif r < 0.85: out.append('enum { %s = %d };' % (n, 2000 + k)); env[-1][n] = ('enum', 2000 + k)
        else: out.append('static int %s = %d;' % (n, 3000 + k)); env[-1][n] = ('var', 3000 + k)
    def block(self, env, tags, depth, out):
        rng = self.rng
        for _ in range(rng.randint(1, 5)):
            r = rng.random()
            if r < 0.35: self.declare(env, tags, out)
            elif r < 0.65: self.use(env, tags, out)
            elif r < 0.85 and depth > 0:
                out.append('{'); env.append({}); tags.append({}); self.block(env, tags, depth - 1, out); env.pop(); tags.pop(); out.append('}')
            elif depth > 0:
                self.uid += 1; n = rng.choice(['a', 'b']); v = 4000 + self.uid
                out.append('for (int %s = %d, once = 1; once; once = 0) {' % (n, v)); env.append({n: ('var', v), 'once': ('var', 1)}); tags.append({})
                env.append({}); tags.append({}); self.block(env, tags, depth - 1, out); env.pop(); tags.pop()
                env.pop(); tags.pop(); out.append('}')
    def program(self):
        rng = self.rng; out = ['int printf(const char *, ...);', 'static void P(long v) { printf("%ld\\n", v); }']
        env = [{}]; tags = [{}]
        for _ in range(rng.randint(0, 4)): self.declare(env, tags, out)        # file scope ('static int' at file scope is fine)
        fwd = rng.random() < 0.6
        k1, k2, k3 = rng.randint(1, 20), rng.randint(21, 40), rng.randint(41, 60)
        if fwd: out.append('struct FS; struct FS *gp; union FU; extern union FU gu; enum FE { FE0 = %d };' % (7000 + k1))
        self.uid += 1; pv = 5000 + self.uid
        out.append('void f(int a) {'); env.append({'a': ('var', pv)}); tags.append({})
        if fwd:
            # a tag defined in an inner scope is a NEW type there, even when an outer incomplete type of that name is visible
            out.append('{ struct FS { char c[%d]; }; P(sizeof(struct FS)); { union FU { char c[%d]; }; P(sizeof(union FU)); struct FS x; P(sizeof x); } enum FE { FE1 = %d }; P(FE1); P(FE0); }' % (k1, k3, 7100 + k1))
            self.exp += [k1, k3, k1, 7100 + k1, 7000 + k1]
        # the function body is the same scope as the parameters in chibicc? No: C says the body block is the parameters' scope.
        self.block(env, tags, 3, out)
        out.append('}'); env.pop(); tags.pop()
        if fwd:
            out.append('struct FS { char c[%d]; }; union FU { char c[%d]; };' % (k2, k2 + 1))
        out.append('int main(void) { f(%d);' % pv)
        if fwd:
            out.append('P(sizeof(struct FS)); P(sizeof(*gp)); P(sizeof(union FU)); P(sizeof(gu));'); self.exp += [k2, k2, k2 + 1, k2 + 1]
        env.append({}); tags.append({}); self.block(env, tags, 3, out); env.pop(); tags.pop()
        # labels have function scope and their own name space
        out.append('{ int L = 1; goto L; L: P(L + 6000); }'); self.exp.append(6001)
        out.append('return 0; }')
        return '\n'.join(out) + '\n', list(self.exp)


class LowerGen:
    """structured statements of Model/Lowering.v: (prefix form for the model, C text)"""
    def __init__(self, rng): self.rng = rng; self.m = 0
    def mk(self): self.m += 1; return self.m
    def simple(self):
        if self.rng.random() < 0.3: return 'K', ''
        n = self.mk(); return 'M %d' % n, 'M(%d)' % n
    def stmt(self, depth, in_loop):
        rng = self.rng; r = rng.random()
        if depth <= 0 or r < 0.2:
            if in_loop and rng.random() < 0.35: return rng.choice([('B', 'break;'), ('C', 'continue;')])
            if rng.random() < 0.15: return 'K', ';'
            n = self.mk(); return 'M %d' % n, 'M(%d);' % n
        if r < 0.4:
            a, ca = self.stmt(depth - 1, in_loop); b, cb = self.stmt(depth - 1, in_loop)
            return 'S %s %s' % (a, b), '{ %s %s }' % (ca, cb)
        if r < 0.6:
            k = self.mk(); a, ca = self.stmt(depth - 1, in_loop)
            if rng.random() < 0.3: return 'I %d %s K' % (k, a), 'if (E(%d)) { %s }' % (k, ca)
            b, cb = self.stmt(depth - 1, in_loop)
            return 'I %d %s %s' % (k, a, b), 'if (E(%d)) { %s } else { %s }' % (k, ca, cb)
        if r < 0.8:
            if rng.random() < 0.35:
                k = self.mk(); b, cb = self.stmt(depth - 1, True)
                return 'F K %d K %s' % (k, b), 'while (E(%d)) %s' % (k, cb)
            i, ci = self.simple(); inc, cinc = self.simple()
            if rng.random() < 0.25:
                k = self.mk(); b, cb = self.stmt(depth - 1, True)        # no condition: every iteration starts with a guarded break
                return 'F %s - %s S I %d B K %s' % (i, inc, k, b), 'for (%s; ; %s) { if (E(%d)) break; %s }' % (ci, cinc, k, cb)
            k = self.mk(); b, cb = self.stmt(depth - 1, True)
            return 'F %s %d %s %s' % (i, k, inc, b), 'for (%s; E(%d); %s) %s' % (ci, k, cinc, cb)
        b, cb = self.stmt(depth - 1, True); k = self.mk()
        return 'D %s %d' % (b, k), 'do %s while (E(%d));' % (cb, k)

def parse_lowered(asm, fn):
    """abstract the text chibicc emitted for fn: calls of M/E with their immediate argument, conditional and unconditional jumps, labels as positions"""
    lines = asm.split('\n'); out = []; labels = {}; on = False; imm = None; pushed = None; callee = None; pending = None
    for l in lines:
        t = l.strip()
        if t == fn + ':': on = True; continue
        if not on: continue
        if t == '.L.return.%s:' % fn: labels[t[:-1]] = len(out) + (1 if pending else 0); break
        if t.startswith('.loc') or not t: continue
        def flush():
            nonlocal pending
            if pending is not None: out.append(('M', pending)); pending = None
        if t.endswith(':'): flush(); labels[t[:-1]] = len(out); continue
        m = re.fullmatch(r'mov \$(-?\d+), %rax', t)
        if m: imm = int(m.group(1)); continue
        if t == 'push %rax': pushed = imm; continue
        m = re.fullmatch(r'mov (\w+)@GOTPCREL\(%rip\), %rax|lea (\w+)\(%rip\), %rax', t)
        if m: callee = m.group(1) or m.group(2); continue
        if t.startswith('call'):
            flush()
            if callee == 'M': out.append(('M', pushed))
            elif callee == 'E': pending = pushed
            else: out.append(('?', t))
            continue
        m = re.fullmatch(r'(je|jne|jmp)\s+(\S+)', t)
        if m:
            op, lab = m.groups()
            if op == 'jmp': flush(); out.append(('J', lab))
            else:
                if pending is None: out.append(('?', t))
                else: out.append(('F' if op == 'je' else 'T', pending, lab)); pending = None
            continue
        if t.split()[0] in ('push', 'pop', 'mov', 'sub', 'add', 'cmp', 'movzb', 'movsxd', 'lea'): continue
        out.append(('?', t))
    res = []
    for x in out:
        if x[0] == 'M': res.append('M%d' % x[1])
        elif x[0] == 'J': res.append('J%s' % labels.get(x[1], x[1]))
        elif x[0] in 'FT': res.append('%s%d:%s' % (x[0], x[1], labels.get(x[2], x[2])))
        else: res.append('?' + x[1])
    return res


def main():
    run = Run(PID, THEOREMS)
    rng = run.rng
    try:
        src = build_impl()
    except BuildFailed as e:
        run.proof_broken.append('scratch build of /repo failed: ' + str(e)[-800:])
        return run.finish(dict(evaluations=0), [], [])
    wd = scratch_dir()
    run.check_proofs(deps=['theories/Model/Control.vo', 'theories/Proofs/ControlProofs.vo', 'theories/Model/Lowering.vo', 'theories/Proofs/LoweringProofs.vo', 'theories/Model/ExprFlat.vo', 'theories/Proofs/ExprFlatProofs.vo'], extra=['sw'])
    NCORPUS = run_corpus(run, PID, src)          # minimised past failures first
    rc, o, e = sh([os.path.join(VERIF, 'ocaml/build.sh')], timeout=900)
    if rc != 0:
        run.corr_broken.append('extracted model does not build: ' + (o + e)[-300:])
        return run.finish(dict(evaluations=0), [], [])
    chibi = os.path.join(src, 'chibicc')
    evals = 0; nontriv = 0; dist = {}; samples = []
    def count(k, n=1): dist[k] = dist.get(k, 0) + n
    def build_run(f, cc):
        exe = f + ('.c.exe' if cc == 'chibicc' else '.g.exe')
        rc, o, e = sh(([chibi] if cc == 'chibicc' else ['gcc', '-w', '-O0']) + ['-o', exe, f], timeout=120)
        if rc != 0: return None, 'compile: ' + e[-300:]
        rc, o, e = sh([exe], timeout=20)
        return (o if rc == 0 else None), 'exit %d' % rc

    # ---------------- (a) switch ----------------
    NA = 12 if run.quick() else 80
    for batch in range(NA):
        sets = [gen_switch(rng) for _ in range(10)]
        f = os.path.join(wd, 'sw%d.c' % batch); open(f, 'w').write(switch_program(sets))
        out, why = build_run(f, 'chibicc')
        if out is None:
            run.violation(dict(kind='valid-program-rejected', why=why, program=open(f).read()[:3000]), dict(area='switch', construct='rejected')); continue
        got = {}
        for l in out.strip().split('\n'):
            k, r = l.split(); got.setdefault(int(k), []).append(int(r))
        # model queries
        q = []
        for k, (tname, bits, sgn, pbits, psgn, cases, dpos, vals) in enumerate(sets):
            # chibicc's test order: case_next list = reverse of source order
            order = list(reversed(range(len(cases))))
            for v in vals:
                pv = conv(bits, sgn, v) if bits >= 32 else v           # value after promotion (a narrow type promotes to int with the same value)
                q.append('%d %d %s %s' % (pbits if pbits == 64 else 32, pv, '100' if dpos is not None else '-', ' '.join('%d:%d:%d' % (cases[i][0], cases[i][1], i + 1) for i in order)))
        rc, mo, me = sh([MODELRUN, 'switch'], input='\n'.join(q) + '\n', timeout=120)
        mo = [int(x) for x in mo.split()]
        qi = 0
        for k, (tname, bits, sgn, pbits, psgn, cases, dpos, vals) in enumerate(sets):
            for j, v in enumerate(vals):
                evals += 1; nontriv += 1; count('switch-value')
                pv = conv(bits, sgn, v) if bits >= 32 else v
                if tname == '_Bool': pv = 1 if v else 0
                want = next((i + 1 for i, (b, e) in enumerate(cases) if conv(pbits, psgn, b) <= pv <= conv(pbits, psgn, e)), 100 if dpos is not None else 0)
                g = got.get(k, [None] * len(vals))[j] if j < len(got.get(k, [])) else None
                m = mo[qi] if qi < len(mo) else None; qi += 1
                if tname != '_Bool' and m != g:
                    run.corr_broken.append('switch dispatch: model %s, chibicc %s for (%s)%d in set %d of batch %d' % (m, g, tname, v, k, batch))
                if g != want:
                    run.violation(dict(kind='switch-case', controlling_type=tname, value=v, cases=[list(c) for c in cases], default_position=dpos, entered=g, c11=want,
                                       how='switch (x) with the listed case values/ranges in source order (default inserted at the given position); returns index+1 of the case entered, 100 for default, 0 for none'),
                                  dict(area='switch', construct='dispatch'))

    # ---------------- (b) traces ----------------
    NB = 60 if run.quick() else 600
    progs = []
    for k in range(NB):
        f = os.path.join(wd, 'tr%d.c' % k); open(f, 'w').write(TraceGen(rng).program()); progs.append(f)
    for k, t in enumerate(TraceGen.typed_grid_programs()):
        f = os.path.join(wd, 'trgrid%d.c' % k); open(f, 'w').write(t); progs.append(f)
    def one_b(f): return f, build_run(f, 'chibicc'), build_run(f, 'gcc')
    for f, (o1, w1), (o2, w2) in pmap(one_b, progs):
        evals += 1
        if o2 is None: count('trace-gcc-rejects'); continue
        nontriv += 1; count('trace-program')
        if o1 != o2:
            t1 = (o1 or '').split(); t2 = o2.split()
            d = next((i for i in range(min(len(t1), len(t2))) if t1[i] != t2[i]), min(len(t1), len(t2)))
            run.violation(dict(kind='execution-trace', program=open(f).read(), chibicc=(o1[:400] if o1 is not None else w1), gcc=o2[:400], first_difference_at=d,
                               how='compile and run; M(k)/E(k,v) print k in execution order'), dict(area='trace', construct='order'))
        elif len(samples) < 2: samples.append(dict(program=open(f).read()[:400], trace=o2[:120]))

    # ---------------- (c) scoping ----------------
    NCs = 60 if run.quick() else 600
    sprogs = []
    for k in range(NCs):
        text, exp = ScopeGen(rng).program()
        f = os.path.join(wd, 'sc%d.c' % k); open(f, 'w').write(text); sprogs.append((f, exp))
    def one_c(p): return p, build_run(p[0], 'chibicc'), build_run(p[0], 'gcc')
    for (f, exp), (o1, w1), (o2, w2) in pmap(one_c, sprogs):
        evals += 1
        if o2 is None:
            run.corr_broken.append('scope generator produced a program gcc rejects: %s %s' % (os.path.basename(f), w2)); write_replay(PID, 'scope_' + os.path.basename(f), open(f).read()); continue
        ref = [int(x) for x in o2.split()]
        # the generator's own notion of the bindings: f() runs first (called from main), then main's body
        if sorted(ref) != sorted(exp):
            run.corr_broken.append('scope generator expectation differs from gcc on %s' % os.path.basename(f)); continue
        nontriv += 1; count('scope-program')
        got = [int(x) for x in o1.split()] if o1 is not None else None
        if got != ref:
            run.violation(dict(kind='identifier-binding', program=open(f).read(), chibicc=got if got is not None else w1, expected=ref,
                               how='every P(...) prints the value / sizeof of the declaration the identifier is bound to'), dict(area='scope', construct='binding'))


    # ---------------- (d) lowering of structured statements to jumps ----------------
    ND = 150 if run.quick() else 1500
    lcases = []
    for k in range(ND):
        g = LowerGen(rng); pre, ctext = g.stmt(rng.randint(1, 5), False)
        bits = ''.join('1' if rng.random() < rng.choice([0.3, 0.5, 0.7]) else '0' for _ in range(300))
        lcases.append((k, pre, ctext, bits))
    rc, mo, me = sh([MODELRUN, 'lower'], input='\n'.join('%s %s' % (b, p) for _, p, _, b in lcases) + '\n', timeout=300)
    mo = mo.split('\n')
    if rc != 0 or len(mo) < len(lcases): run.corr_broken.append('extracted lowering model failed: ' + me[-200:]); lcases = []
    def one_d(c):
        k, pre, ctext, bits = c
        f1 = os.path.join(wd, 'lw%d.c' % k)
        open(f1, 'w').write('void M(int); int E(int);\nvoid f(void) { %s }\n' % ctext)
        f2 = os.path.join(wd, 'lwm%d.c' % k)
        open(f2, 'w').write('int printf(const char *, ...); void exit(int);\nstatic const char *bits = "%s"; static int pos;\nvoid M(int k) { printf("%%d ", k); }\nint E(int k) { if (!bits[pos]) { printf("X\\n"); exit(0); } printf("%%d ", k); return bits[pos++] == \'1\'; }\nvoid f(void);\nint main(void) { f(); printf("\\n"); return 0; }\n' % bits)
        rc, asm, e = sh([chibi, '-S', '-o', '-', f1], timeout=60)
        if rc != 0: return c, None, 'compile: ' + e[-300:], None
        rc2, o2, e2 = sh([chibi, '-o', f1 + '.exe', f1, f2], timeout=60)
        tr = None
        if rc2 == 0:
            rc3, o3, e3 = sh([f1 + '.exe'], timeout=20); tr = o3 if rc3 == 0 else 'exit %d' % rc3
        return c, parse_lowered(asm, 'f'), None, tr
    for (k, pre, ctext, bits), code, why, tr in pmap(one_d, lcases):
        evals += 1
        mcode, mtrace = [x.strip() for x in mo[k].split('|')]
        if code is None:
            run.violation(dict(kind='valid-program-rejected', why=why, program=ctext), dict(area='lowering', construct='rejected')); continue
        nontriv += 1; count('lowered-statement'); count('lowered-trace-' + ('complete' if mtrace != 'NONE' else 'oracle-exhausted'))
        if ' '.join(code) != mcode:
            run.corr_broken.append('jump code emitted for "%s": model [%s], chibicc [%s]' % (ctext[:200], mcode, ' '.join(code))); write_replay(PID, 'lower_%d.c' % k, 'void M(int); int E(int);\nvoid f(void) { %s }\n' % ctext)
        if mtrace not in ('NONE', 'STRAY') and (tr or '').split() != mtrace.split():
            # the structured semantics of the model is C's: a differing run is a wrong execution
            run.violation(dict(kind='execution-trace', program='void f(void) { %s }' % ctext, condition_outcomes=bits[:60], chibicc=(tr or '')[:400], c11=mtrace[:400],
                               how='E(k) prints k and returns the next listed outcome; M(k) prints k'), dict(area='trace', construct='lowering'))
        elif len(samples) < 3: samples.append(dict(statement=ctext[:200], jump_code=mcode[:200], trace=mtrace[:80]))

    # ---------------- tie of package sw: cases evaluated by the Coq spec and model (one coqc call) and by the real compiler ----------------
    if not os.environ.get('VERIF_SKIP_PROOFS'):
        te, tn, td, ts = run_tie(run, 'sw', src, 240 if run.quick() else 2400, 'trace')
        evals += te; nontriv += tn; dist['tie_sw'] = td; samples += ts
    TIE_RULE = ' ' + "(e) package sw: %d random statement trees with switch / case / default / goto / labels / computed goto: trace of the compiled program = Coq structured semantics = Coq continuation semantics = Coq jump machine on the modelled code; -S jump skeleton = modelled code (positions and chibicc's label names); invalid placements rejected iff the model rejects" % (240 if run.quick() else 2400)
    cov = dict(evaluations=evals, distinct_nontrivial=nontriv, input_distribution=dist, samples=samples,
               rule='(a) %d switch statements over 10 controlling types with 1-7 disjoint cases (values at every width boundary, negative, beyond 32 bits, ranges up to 2^33 wide), default at any position, probed at every case boundary +-1: case entered = extracted dispatch model = C11 selection computed independently; (b) %d generated programs of 1-3 functions nesting if/else, for/while/do with break/continue, switch with fall-through and default anywhere (also inside loops), forward and backward goto, computed goto, && || ?: comma and statement expressions with side-effecting operands, run three times over persistent counters: marker trace = gcc; (c) %d shadowing programs (int objects, static objects, typedef names, enumerators, struct/union tags, for-init and parameter scope, labels) nested to depth 3: printed bindings = generator = gcc; (d) %d statements nesting if/else, for (with and without condition, init, increment), while, do, break, continue to depth 5: the jump code in chibicc -S (calls, je/jne/jmp, labels resolved to positions) = extracted lgen, and the run on 300 fixed condition outcomes = extracted lexec' % (NA * 10, NB, NCs, ND),
               traces_validated_against_impl=nontriv)
    cov['rule'] = cov.get('rule', '') + TIE_RULE
    return run.finish(cov,
        ['gcc 12 -O0 is the reference for execution traces and bindings; generated programs have no unspecified evaluation order between markers',
         'a switch on a type narrower than int is compared after promotion to int (C11 6.8.4.2p5)'],
        ['Coq 8.16.1 kernel, no axioms', 'hand-written Model/Control.v (dispatch chain of gen_stmt(ND_SWITCH) with the case values as parse.c stores them; scope stack of parse.c) tied by (a) and (c)',
         'hand-written Model/Lowering.v (gen_stmt for if / for / while / do / break / continue as absolute-position jump code; oracle-driven structured semantics) tied by (d): emitted jump code compared instruction by instruction, runs compared on fixed outcomes', 'Model/ExprFlat.v (jump code of && || ?: with labels as positions) is tied by the C01 check: the -S text of generated expression trees = extracted gflatten (compile e)', 'switch fall-through, goto and computed goto are NOT in the lowering model: they are covered by the trace differential (b) only; label uniqueness (count()) is observed through (d), not proved'])

if __name__ == '__main__':
    sys.exit(main())
