#!/usr/bin/env python3
"""C09 - macro expansion follows C11 6.10.3 and terminates.
   proofs (blue paint: a token carrying its own name in its hide set is never replaced and every
   token produced by replacing M carries M; subst's own loop never runs out of fuel; for sets of
   object-like macros expansion terminates within an explicit bound, whatever the recursion shape)
   + correspondence: generated definition sets and invocation texts: tokens after preprocessing
   (dump hook) = extracted model (spelling and has_space), acceptance agrees; and = the tokens of
   `gcc -E` (the reference for what the standard prescribes)."""
import os, sys, time, random, json, re
sys.path.insert(0, os.path.dirname(os.path.abspath(__file__)))
from vlib import *
import gen_punct

PID = 'C09'
THEOREMS = ['C09_painted_not_replaced', 'C09_replacement_painted', 'C09_funlike_needs_paren', 'C09_subst_own_fuel',
            'C09_objlike_terminates', 'C09_nonvacuous',
            # package mterm (Properties_C09_mterm.v)
            'C09_mterm_expansion_terminates', 'C09_mterm_driver_terminates', 'C09_mterm_argument_expansion_terminates', 'C09_mterm_fuel_monotone', 'C09_mterm_fuel_monotone_args', 'C09_mterm_subst_fuel_from_argument', 'C09_mterm_rescan_decreases', 'C09_mterm_order_wellfounded', 'C09_mterm_result_settled', 'C09_mterm_nonvacuous', 'C09_mterm_nonvacuous_err', 'C09_mterm_nonvacuous_driver']
MODELRUN = os.path.join(VERIF, 'ocaml/modelrun')

OBJ = ['O1', 'O12', 'O', 'EMPTY']          # names that are proper prefixes of each other: a table keyed by less than the whole name confuses them
FUN = ['F1', 'F12', 'F', 'F4', 'G']
PLAIN = ['a', 'b', 'c', 'x', 'y', '1', '2', '42', '+', '-', '*', ';', '[', ']', '"s"', "'c'", '==', '<', '0x1f', '1.5',
         "L'\\n'", "u'\\\\'", '"a\\"b"', 'L"q\\\\"', "'\\''", 'u8"\\n"', "U'\\x41'", "'\\0'", '"\\\\"']

class Gen:
    def __init__(self, rng, exotic):
        self.rng = rng; self.exotic = exotic
        self.arity = {}          # name -> (nparams, variadic)
        self.features = set()

    def plain(self): return self.rng.choice(PLAIN)

    def body_tokens(self, params, va, depth=0):
        rng = self.rng; out = []
        for _ in range(rng.randint(0, 6)):
            r = rng.random()
            if r < 0.30 and params: out.append(rng.choice(params))
            elif r < 0.45: out.append(self.plain())
            elif r < 0.55: out.append(rng.choice(OBJ))
            elif r < 0.70 and depth < 2:
                f = rng.choice(FUN)
                if rng.random() < 0.8:
                    n, v = self.arity.get(f, (rng.randint(0, 2), False))
                    args = [' '.join(self.body_tokens(params, va, depth + 1)[:2]) for _ in range(n + (rng.randint(0, 2) if v else 0))]
                    if v and len(args) == n + 1 and args[-1] == '': args[-1] = self.plain()   # present-but-empty variadic: GNU ', ##' semantics differ between compilers, not C11
                    out.append('%s(%s)' % (f, ', '.join(args)))
                else: out.append(f)                      # function-like name without parentheses
            elif r < 0.78 and params:
                out.append('#' + rng.choice(params)); self.features.add('stringize')
            elif r < 0.88 and params:
                a = rng.choice(params + ['p', 'q', '7']) if rng.random() < 0.5 else rng.choice(['k', 'x', '7'])
                b = rng.choice(params + ['r', '3', 'x']) if rng.random() < 0.5 else rng.choice(['r', '3', 'x'])
                out.append('%s ## %s' % (a, b)); self.features.add('paste')
            elif r < 0.92 and va:
                out.append(', ## %s' % va); self.features.add('gnu-comma')
            elif r < 0.95 and va == '__VA_ARGS__':
                # the content of __VA_OPT__ is replacement-list text: parameters, __VA_ARGS__, # and ## are processed in it
                inner = [rng.choice([self.plain(), self.plain()] + list(params) + ['__VA_ARGS__'] + (['#' + rng.choice(params)] if params else [])) for _ in range(rng.randint(0, 3))]
                out.append('__VA_OPT__( %s)' % ' '.join(inner)); self.features.add('va_opt')
            elif va: out.append(va)
            else: out.append(self.plain())
        return out

    def define(self):
        rng = self.rng
        if rng.random() < 0.4:
            n = rng.choice(OBJ)
            if n == 'EMPTY': return '#define EMPTY'
            toks = self.body_tokens([], None)
            if rng.random() < 0.3: toks.append(n)                         # self reference
            if rng.random() < 0.15 and len(toks) >= 2:
                toks.insert(1, '##'); self.features.add('objlike-paste')
                toks = [t if ' ' not in t and '(' not in t and t[0] not in '"\'#' else 'k' for t in toks]
            return '#define %s %s' % (n, ' '.join(toks))
        n = rng.choice(FUN)
        np = rng.randint(0, 3)
        params = (['p', 'q', 'r'] if rng.random() < 0.5 else ['p', 'pq', 'pqr'])[:np]
        va = None
        r = rng.random()
        plist = list(params)
        if r < 0.25: va = '__VA_ARGS__'; plist.append('...')
        elif r < 0.32: va = 'rest'; plist.append('rest...')
        self.arity[n] = (np, va is not None)
        toks = self.body_tokens(params + ([va] if va else []), va)
        if va == 'rest' and rng.random() < 0.6: toks += [rng.choice(['k', 'p' if params else 'x', '"s"']), ', ## rest']; self.features.add('gnu-comma')      # GNU comma paste on a NAMED variadic parameter
        if rng.random() < 0.2: toks.append(n)
        return '#define %s(%s) %s' % (n, ', '.join(plist) if rng.random() < 0.8 else ','.join(plist), ' '.join(toks))

    def arg(self, depth=0):
        rng = self.rng; r = rng.random()
        if r < 0.12: return ''
        if r < 0.40: return self.plain()
        if r < 0.50: return rng.choice(OBJ)
        if r < 0.62: return '(%s, %s)' % (self.plain(), self.plain())
        if r < 0.80 and depth < 2: return self.invocation(depth + 1)
        if r < 0.88: return rng.choice(FUN)
        return '%s %s' % (self.plain(), self.plain())

    def invocation(self, depth=0):
        rng = self.rng
        f = rng.choice(FUN)
        n, v = self.arity.get(f, (rng.randint(0, 2), False))
        k = n + (rng.randint(0, 3) if v else 0)
        if self.exotic and rng.random() < 0.05: k = max(0, k + rng.choice([-1, 1]))        # wrong arity
        args = [self.arg(depth) for _ in range(k)]
        if v and k == n + 1 and args[-1] == '': args[-1] = self.plain()
        sep = rng.choice([', ', ',', ' , ', ',\n  ']) if depth == 0 else ', '
        return '%s%s(%s)' % (f, rng.choice(['', '', ' ', '\n']) if depth == 0 else '', sep.join(args))

    def program(self):
        rng = self.rng; lines = []
        for _ in range(rng.randint(2, 7)): lines.append(self.define())
        for _ in range(rng.randint(2, 8)):
            r = rng.random()
            if r < 0.12: lines.append(self.define())
            elif r < 0.18: lines.append('#undef ' + rng.choice(OBJ + FUN))
            else:
                parts = []
                for _ in range(rng.randint(1, 4)):
                    s = rng.random()
                    if s < 0.45: parts.append(self.invocation())
                    elif s < 0.7: parts.append(rng.choice(OBJ))
                    elif s < 0.8: parts.append(rng.choice(FUN))
                    else: parts.append(self.plain())
                line = ' '.join(parts)
                if rng.random() < 0.15: line += ' (' + self.arg() + ')'      # completes an invocation left open by an expansion
                lines.append(line)
        return '\n'.join(lines) + '\n'


def c_unescape(t):
    """the characters a string literal body denotes (simple, octal and hexadecimal escapes)"""
    out = []; i = 0
    simple = {'n': '\n', 't': '\t', 'a': '\a', 'b': '\b', 'f': '\f', 'r': '\r', 'v': '\v', '\\': '\\', '"': '"', "'": "'", '?': '?'}
    while i < len(t):
        c = t[i]
        if c != '\\' or i + 1 >= len(t): out.append(c); i += 1; continue
        d = t[i + 1]
        if d in simple: out.append(simple[d]); i += 2
        elif d in '01234567':
            j = i + 1
            while j < len(t) and j < i + 4 and t[j] in '01234567': j += 1
            out.append(chr(int(t[i + 1:j], 8) & 255)); i = j
        elif d == 'x':
            j = i + 2
            while j < len(t) and t[j] in '0123456789abcdefABCDEF': j += 1
            out.append(chr(int(t[i + 2:j] or '0', 16) & 255)); i = j
        else: out.append(c); i += 1
    return ''.join(out)

def norm_tok(h):
    """a string literal is compared by the token list of the characters it DENOTES (escapes interpreted, so a missing or extra
    backslash shows): where white space stands around the place of an EMPTY argument is not fixed by C11 (placemarkers), but 'ab' vs 'a b' is"""
    b = bytes.fromhex(h)
    if not b.startswith(b'"'): return h
    t = c_unescape(b[1:-1].decode('latin-1'))
    return 'S:' + ' '.join(re.findall(r'"(?:\\.|[^"\\])*"|\'(?:\\.|[^\'\\])*\'|[A-Za-z0-9_.]+|\S', t))

def toks_from_dump(out):
    r = []
    for l in out.strip().split('\n'):
        if not l: continue
        p = l.split(' ')
        r.append((p[2], p[5] if len(p) > 5 else ''))
    return r

def main():
    run = Run(PID, THEOREMS)
    rng = run.rng
    try:
        src = build_impl()
    except BuildFailed as e:
        run.proof_broken.append('scratch build of /repo failed: ' + str(e)[-800:])
        return run.finish(dict(evaluations=0), [], [])
    wd = scratch_dir()
    try:
        gen_punct.gen(REPO, os.path.join(COQ, 'theories/Gen/PunctTable.v'))
    except GenError as e:
        run.proof_broken.append('translator: ' + str(e))
    run.check_proofs(deps=['theories/Model/Macro.vo', 'theories/Proofs/MacroProofs.vo'], extra=['mterm'])
    NCORPUS = run_corpus(run, PID, src)          # minimised past failures first
    rc, o, e = sh([os.path.join(VERIF, 'ocaml/build.sh')], timeout=900)
    if rc != 0:
        run.corr_broken.append('extracted model does not build: ' + (o + e)[-300:])
        return run.finish(dict(evaluations=0), [], [])
    chibi = os.path.join(src, 'chibicc')
    N = 300 if run.quick() else 3000
    progs = []
    corpus_dir = os.path.join(VERIF, 'corpus/C09')
    for f in sorted(os.listdir(corpus_dir)) if os.path.isdir(corpus_dir) else []:
        if os.path.isdir(os.path.join(corpus_dir, f)): continue
        progs.append((os.path.join(corpus_dir, f), open(os.path.join(corpus_dir, f)).read(), {'corpus'}))
    for k in range(N):
        g = Gen(rng, exotic=(k % 5 == 0))
        text = g.program()
        f = os.path.join(wd, 'm%d.c' % k); open(f, 'w').write(text)
        progs.append((f, text, g.features))
    # ---------- boundary grid: every case split of subst() x operand shapes, incl. recursive mentions ----------
    bodies = ['a ## b', 'x a ## b', 'a ## b y', 'a ## b ## c', 'a ## 1', '1 ## b', '#a b', 'a #b', 'a a', '#a a #a', 'a ## b a b', 'a b ## c', '[a] ## b', 'a, ## b']
    operands = ['', '1', 'k', 'X', 'M(1,2,3)', 'ID(M(3,4,5))', 'k X', 'X k', 'EMPTY', '(k, 1)']
    grid = [(body, a1, a2, operands[(i * 7 + j + len(body)) % len(operands)]) for body in bodies for i, a1 in enumerate(operands) for j, a2 in enumerate(operands)]
    rng.shuffle(grid)
    grid.sort(key=lambda g: 0 if ('' in g[1:3] and ('M(' in g[1] + g[2] or 'X' in g[1] + g[2])) else 1)      # empty operand next to a recursive mention first
    for gi, (body, a1, a2, a3) in enumerate(grid if not run.quick() else grid[:260]):
        text = '#define M(a,b,c) %s\n#define X M(1,2,3)\n#define ID(x) x\n#define EMPTY\nM(%s,%s,%s) | M(%s,%s,%s)\n' % (body, a1, a2, a3, a2, a3, a1)
        f = os.path.join(wd, 'g%d.c' % gi); open(f, 'w').write(text)
        progs.append((f, text, {'grid', 'paste' if '##' in body else 'stringize'}))
    # ---------- hide-set family: cycles of 2-5 macros (function-like / object-like mixed), names re-met at depth, invocations completed by the following text ----------
    hs_progs = []
    for hi in range(120 if run.quick() else 1200):
        n = rng.randint(2, 5); kinds = [rng.choice('FFO') for _ in range(n)]
        lines = []
        for i in range(n):
            nxt = (i + 1) % n; name = 'H%d' % i; nn = 'H%d' % nxt
            arg = 'x' if kinds[i] == 'F' else str(i)
            extra = ''
            if rng.random() < 0.5: extra = ' H%d' % rng.randint(0, n - 1) + (rng.choice(['', '(%s)' % arg, ' (9)']) )
            if kinds[nxt] == 'F':
                body = rng.choice(['%s(%s)' % (nn, arg), '%s %s' % (arg, nn), '%s(%s) %s' % (nn, arg, nn), '%s (%s %s)' % (nn, nn, arg)])
            else:
                body = rng.choice(['%s %s' % (nn, arg), '%s %s' % (arg, nn), '%s %s %s' % (nn, arg, nn)])
            lines.append('#define %s%s %s%s' % (name, '(x)' if kinds[i] == 'F' else '', body, extra))
        rng.shuffle(lines)
        for _ in range(rng.randint(1, 3)):
            k0 = rng.randint(0, n - 1)
            lines.append('H%d%s%s' % (k0, rng.choice(['(1)', ' (1)', '']) if kinds[k0] == 'F' else '', ''.join(rng.choice(['(2)', ' (3)', ' H%d' % rng.randint(0, n - 1), '']) for _ in range(rng.randint(0, 3)))))
        text = '\n'.join(lines) + '\n'
        f = os.path.join(wd, 'h%d.c' % hi); open(f, 'w').write(text)
        progs.append((f, text, {'hideset-family'}))
    def one(p):
        f, text, feats = p
        rc, out, err = sh([chibi, '-verif-dump-tokens', '-E', f], timeout=30)
        impl = toks_from_dump(out) if rc == 0 else None
        rc2, out2, err2 = sh([MODELRUN, 'macro', f], timeout=60)
        m = out2.strip()
        model = m if m in ('ERR', 'FUEL', 'UNSUP', 'LEXERR') or rc2 != 0 else [tuple(l.split(' ')) if ' ' in l else (l, '') for l in m.split('\n') if l]
        rc3, out3, err3 = sh(['gcc', '-E', '-P', '-x', 'c', '-std=gnu11', '-undef', f], timeout=30)
        ref = None
        if rc3 == 0 and not [l for l in err3.split('\n') if 'warning' in l and 'redefined' not in l]:
            g = os.path.join(wd, os.path.basename(f) + '.gcc'); open(g, 'w').write(out3)
            rc4, out4, err4 = sh([MODELRUN, 'lex', g], timeout=60)
            if out4.strip() != 'LEXERR': ref = [(l.split(' ') + [''])[3] for l in out4.strip().split('\n') if l]
        return f, text, feats, impl, model, ref, err, rc
    evals = 0; nontriv = 0; dist = {}; samples = []; skipped = 0
    def count(k): dist[k] = dist.get(k, 0) + 1
    for f, text, feats, impl, model, ref, err, rc in pmap(one, progs):
        evals += 1
        for x in feats: count('uses-' + x)
        if rc != 0 and rc != 1:
            run.violation(dict(kind='compiler-crash', exit=rc, stderr=err[-300:], program=text), dict(area='crash')); continue
        if isinstance(model, str):
            count('model-' + model)
            if model == 'ERR':
                if impl is not None:
                    run.corr_broken.append('model rejects, chibicc accepts: %s' % os.path.basename(f)); write_replay(PID, 'accept_' + os.path.basename(f), text)
            elif model == 'FUEL':
                run.corr_broken.append('model ran out of fuel on %s' % os.path.basename(f)); write_replay(PID, 'fuel_' + os.path.basename(f), text)
            else: skipped += 1
            if model in ('ERR', 'UNSUP', 'LEXERR') and ref is not None and impl is not None and [h for s, h in impl] != ref:
                pass
            continue
        if impl is None:
            run.corr_broken.append('chibicc rejects, model accepts: %s: %s' % (os.path.basename(f), err.strip().split('\n')[-1][:120])); write_replay(PID, 'reject_' + os.path.basename(f), text)
            if ref is not None:
                run.violation(dict(kind='valid-invocation-rejected', stderr=err[-300:], program=text, gcc_tokens=len(ref)), dict(area='rejected'))
            continue
        nontriv += 1; count('compared')
        mt = [(s, h) for s, h in model]
        if [h for s, h in mt] != [h for s, h in impl]:
            run.corr_broken.append('token spellings of %s differ between chibicc and the model' % os.path.basename(f)); write_replay(PID, 'tokens_' + os.path.basename(f), dict(program=text, impl=[bytes.fromhex(h).decode('latin-1') for s, h in impl], model=[bytes.fromhex(h).decode('latin-1') for s, h in mt]))
        elif mt != impl:
            run.corr_broken.append('has_space flags of %s differ between chibicc and the model' % os.path.basename(f)); write_replay(PID, 'flags_' + os.path.basename(f), dict(program=text, impl=impl, model=mt))
        if 'va_opt' in feats: ref = None          # __VA_OPT__ is not C11; its corner semantics (spacing, emptiness after expansion) follow later drafts: model only
        if ref is None: count('no-gcc-reference'); continue
        it = [h for s, h in impl]
        def only_commas_missing(a, b):
            """a == b with some ',' tokens of b removed"""
            i = 0
            for x in b:
                if i < len(a) and a[i] == x: i += 1
                elif x != '2c': return False
            return i == len(a)
        ni, nr = [norm_tok(h) for h in it], [norm_tok(h) for h in ref]
        if ni != nr and 'gnu-comma' in feats and only_commas_missing(ni, nr):
            count('gnu-comma-present-but-empty'); continue    # GNU extension corner (comma kept for a present-but-empty variadic argument): not C11, compilers differ
        if ni != nr:
            dec = lambda L: ' '.join(bytes.fromhex(h).decode('latin-1') for h in L)
            d = next((i for i in range(min(len(it), len(ref))) if it[i] != ref[i]), min(len(it), len(ref)))
            run.violation(dict(kind='expansion-differs-from-reference', program=text, chibicc=dec(it), gcc=dec(ref), first_difference_at_token=d,
                               how='chibicc -E <program> vs gcc -E -P -undef <program>, compared token by token'),
                          dict(area='expansion', constructs=','.join(sorted(feats))))
        if len(samples) < 3: samples.append(dict(program=text[:300]))
    # ---------------- tie of package mterm: cases evaluated by the Coq spec and model (one coqc call) and by the real compiler ----------------
    tie_dist = {}; tie_e = tie_n = 0; tie_samples = []
    if not os.environ.get('VERIF_SKIP_PROOFS'):
        tie_e, tie_n, tie_dist, tie_samples = run_tie(run, 'mterm', src, 150 if run.quick() else 1500, 'macro')
    cov = dict(evaluations=evals, distinct_nontrivial=nontriv, input_distribution=dist, samples=samples, skipped_unsupported=skipped,
               rule='%d generated programs: 2-7 definitions (object-like incl. empty, self- and mutually recursive; function-like with 0-3 parameters, ... and named variadics, bodies using parameters, # ## (incl. empty operands, parameter/non-parameter on either side), , ## __VA_ARGS__, __VA_OPT__, nested and unparenthesised function-like names), redefinitions and #undef, then invocation lines (nested invocations as arguments, empty / parenthesised / comma arguments, invocations spanning lines, names left open by an expansion and completed by the following text, wrong arity in a fifth of the programs): token spellings after preprocessing = extracted Coq model; = gcc -E reference; non-trivial = a program accepted by both whose token lists were compared' % N,
               traces_validated_against_impl=nontriv)
    cov['rule'] = cov.get('rule', '') + ' ' + '(f) package mterm: boundary programs and generated sets of 2-8 object-like / function-like macros with cycles, self-reference in arguments, invocations completed by following text: chibicc -E terminates (timeout 10 s) with the token spellings of the Coq model, which never answers Fuel at 4000 and gives the same result at 8000; the Coq predicate `settled` holds of the result; gcc as reference'; cov['tie_mterm'] = tie_dist; cov['evaluations'] = cov.get('evaluations', 0) + tie_e; cov['distinct_nontrivial'] = cov.get('distinct_nontrivial', 0) + tie_n
    return run.finish(cov,
        ['gcc 12 -E -P -undef is the reference for the token sequence C11 6.10.3 prescribes; programs gcc warns about or rejects are compared with the model only',
         '__VA_OPT__ (not C11) is compared with the model only'],
        ['Coq 8.16.1 kernel, no axioms', 'hand-written Model/Macro.v tied to preprocess.c by the token-dump correspondence', 'tools/gen_punct.py', 'the guarded dump hook (6ee11e0)',
         'termination is proved for object-like macro sets only; for function-like macros the model carries fuel and the check reports any program on which 20000 steps do not suffice'])

if __name__ == '__main__':
    sys.exit(main())
