#!/usr/bin/env python3
"""Tie of Model/EPrint.v (print_tokens of main.c, the -E printer) to the real chibicc.

   run(src_dir, seed, n, verif_dir) generates macro programs whose expansion puts tokens of different
   origins side by side (empty macros between fusable tokens, pasted tokens, stringized text, numbers
   ending in e/p before signs, / next to *, prefixes next to quotes, a `#` that is not a directive),
   runs the REAL `chibicc -E` on them and compares
     impl_vs_model : the bytes chibicc wrote  ==  Model.EPrint.eprint (evaluated by coqc) of the token list
                     dumped by `chibicc -E -verif-dump-tokens` (hook of the CHIBICC_VERIF build), and the
                     dumped list satisfies the hypothesis [printable_b] of the round-trip theorem;
     impl_vs_spec  : Spec.EPrintSpec.faithful_b: the bytes chibicc wrote, read by the Coq tokenizer model,
                     are exactly the dumped tokens (kinds and spellings), and no `#` starts a line
                     (the open finding C19-leading-hash - `#` as the very first token - is reported
                     under "known_findings", not as a violation).

   The dump has no field for the printer's pointer test `prev->loc + prev->len == tok->loc`.  It is
   reconstructed: the raw dump (`-verif-dump-raw-tokens`) of each source file gives the tokens of every
   physical line in order, hence their columns; a dumped token (file_no, line_no, text) is matched to the
   raw tokens of that line with that text.  Two consecutive tokens are adjacent if the match is unique and
   the columns touch, not adjacent if no pair of candidates touches; otherwise (same text twice on a line)
   the pair is "ambiguous": the model is evaluated for both answers and either is accepted (counted in
   the distribution).  Tokens made by the preprocessor (pasted, stringized) carry the line of a template
   token; the generator makes sure their text occurs nowhere in the sources."""
import os, sys, json, random, subprocess, tempfile, shutil, re, time, itertools

KIND = {0: 'LIdent', 1: 'LPunct', 3: 'LStr', 4: 'LChr', 5: 'LNum'}      # TK_IDENT TK_PUNCT (TK_KEYWORD) TK_STR TK_NUM TK_PP_NUM
KCODE = {'LIdent': 0, 'LPunct': 1, 'LNum': 2, 'LStr': 3, 'LChr': 4}
MAX_AMBIG = 3

def sh(cmd, timeout=60, cwd=None):
    try:
        p = subprocess.run(cmd, capture_output=True, timeout=timeout, cwd=cwd)
        return p.returncode, p.stdout, p.stderr
    except subprocess.TimeoutExpired:
        return 124, b'', b'TIMEOUT'

# ------------------------------------------------------------------ generator
IDENTS = ['a', 'b1', 'x_y', 'u8', 'L', 'u', 'U', 'e', 'p', 'E5', '_z', 'int', 'x$', 'foo']
NUMS = ['0', '1', '12', '1e', '0x1p', '1.', '.5', '1e+', '0x1P-', '0xe', '3u', '1.e', '08', '1e+5', '0E']
LITS = ['"s"', '"a b"', 'u8"z"', 'L"w"', 'u"q"', 'U"r"', "'c'", "L'd'", "u'e'", "U'f'", "'\\''", '"\\""', '"/*"', '"//"', '""']
PUNCTS = ['<<=', '>>=', '...', '==', '!=', '<=', '>=', '->', '+=', '-=', '*=', '/=', '++', '--', '%=', '&=', '|=', '^=', '&&', '||',
          '<<', '>>', '!', '%', '&', '*', '+', '-', '.', '/', ':', ';', '<', '=', '>', '?', '[', ']', '^', '{', '|', '}', '~', '@', '`']
WEIGHTED = IDENTS + NUMS + LITS + PUNCTS + ['\\', '\\', '\xef\xbb\xbfw'] + ['-', '+', '.', '/', '*', '<', '>', '=', '&', '|', ':', '%', '-', '+', '.']
PASTE = [('a', 'b1'), ('x', '1'), ('1', 'e'), ('1e', '+'), ('0x1p', '-'), ('-', '>'), ('<', '<'), ('<<', '='), ('+', '+'), ('-', '-'),
         ('.', '5'), ('L', "'c'"), ('u8', '"s"'), ('&', '&'), ('1', '.'), ('>', '>='), ('u', '"q"'), ('|', '='), ('.', '1e')]
SEPS = [' ', ' ', ' ', '\t', '  ', ' /* c */ ', '/**/']
IDCH = set('abcdefghijklmnopqrstuvwxyzABCDEFGHIJKLMNOPQRSTUVWXYZ0123456789_$')

def join_parts(rng, parts, glue_p=0.55, macro=lambda s: False):
    """write the parts on one line, glued or separated; never merge a macro name into a neighbour,
    never build a comment opener by gluing"""
    out = ''
    for i, t in enumerate(parts):
        if i:
            prev = parts[i - 1]
            glue = rng.random() < glue_p
            if (macro(prev) or macro(t)) and prev[-1] in IDCH and t[0] in IDCH: glue = False
            if macro(prev) and not prev.endswith(')') and t[0] in '("\'': glue = False          # would become a call / a prefixed literal
            if prev[-1] + t[0] in ('/*', '//'): glue = False
            if prev[-1] == '\\': glue = False
            if not glue: out += rng.choice(SEPS)
        out += t
    return out

def gen_program(rng, idx):
    """returns (main_text, header_text or None, features)"""
    feats = set()
    lines = ['// tie_eprint case %d' % idx,                       # line 1 of every file holds no token
             '#define E', '#define N -1', '#define P +', '#define Q(x) x', '#define D(x) x x', '#define G(x) x-x',
             '#define CAT(a,b) a##b', '#define S(x) #x', '#define H #', '#define W(x,y) y x']
    body = [rng.choice(WEIGHTED) for _ in range(rng.randint(0, 3))]
    nobs = lambda l: l + ' ' if l.endswith('\\') else l                 # a backslash at the end of a line would splice: keep it a token
    lines.append(nobs('#define R0 ' + join_parts(rng, body)))
    body = [('x' if rng.random() < 0.5 else rng.choice(WEIGHTED)) for _ in range(rng.randint(1, 4))]
    lines.append(nobs('#define R1(x) ' + join_parts(rng, body, macro=lambda s: s == 'x')))
    pasted = []
    def arg():
        return join_parts(rng, [rng.choice(WEIGHTED) for _ in range(rng.randint(0, 2))])
    def part():
        r = rng.random()
        if r < 0.50: return rng.choice(WEIGHTED)
        m = rng.choice(['E', 'E', 'N', 'P', 'R0', 'Q', 'Q', 'Q', 'D', 'G', 'W', 'R1', 'CAT', 'CAT', 'S', 'H'])
        feats.add('use-' + m)
        if m in ('E', 'N', 'P', 'R0', 'H'): return m
        if m in ('Q', 'D', 'G', 'R1', 'S'): return '%s(%s)' % (m, arg())
        if m == 'W': return 'W(%s,%s)' % (arg(), arg())
        a, b = rng.choice(PASTE); pasted.append(a + b)
        return 'CAT(%s,%s)' % (a, b)
    is_macro = lambda s: s in ('E', 'N', 'P', 'R0', 'H') or (s[:1] in 'QDGWRCS' and s.endswith(')') and '(' in s)
    header = None
    nuse = rng.randint(2, 5)
    inc_at = rng.randrange(nuse + 1) if rng.random() < 0.25 else -1
    lead = rng.random()
    for k in range(nuse):
        if k == inc_at:
            header = '/* header of case %d */\n' % idx + '\n'.join(
                nobs(join_parts(rng, [part() for _ in range(rng.randint(1, 5))], macro=is_macro)) for _ in range(rng.randint(1, 2))) + '\n'
            lines.append('#include "tie_h%d.h"' % idx); feats.add('include')
        ps = [part() for _ in range(rng.randint(1, 9))]
        if k == 0 and lead < 0.04: ps[0] = 'H'; feats.add('leading-hash-attempt')
        elif k == 0 and ps[0] == 'H': ps[0] = 'E'
        if k > 0 and rng.random() < 0.15: ps[0] = rng.choice(['H', 'E', 'Q(H)', 'E H'])            # a `#` / nothing at the start of a line
        line = nobs(join_parts(rng, ps, macro=is_macro))
        if rng.random() < 0.2: line = rng.choice([' ', '\t', '  ']) + line
        if rng.random() < 0.15: line += rng.choice([' // tail', '   ', ' /* t */'])
        lines.append(line)
        if rng.random() < 0.1: lines.append(rng.choice(['', 'E', '  E E', '/* only a comment */']))
    if inc_at == nuse:
        header = '/* header of case %d */\n' % idx + nobs(join_parts(rng, [part() for _ in range(rng.randint(1, 5))], macro=is_macro)) + '\n'
        lines.append('#include "tie_h%d.h"' % idx); feats.add('include')
    text = '\n'.join(lines) + '\n'
    # a pasted spelling must not occur in the sources (its dumped line number is that of an operand)
    for s in pasted:
        if any(s in l for l in lines[11:]) or (header and s in header): return None
    return text, header, feats

BOUNDARY = [
    ('leading-hash', ['H define X 1', 'X']),                                 # the open finding
    ('hash-not-first', ['int a;', 'H define X 1', 'X H', 'Q(H) undef X', 'E H if 0', 'Q(#)x']),
    ('minus-N', ['x=-N;', 'y=- N;', 'z=-N-N;', '-N']),
    ('plus-P', ['1 P+ 2', '1 P P 2', 'a+P', 'P+P', '+P+']),
    ('empty-between', ['a -E- b', 'a-E-b', '+E+E+', '<E<E=', '.E.E.', '/E/ x', '/E* x */']),
    ('fn-arg-next-to-source', ['Q(-)-1', '-Q(-)', 'Q(-)>x', 'Q(<)<=', 'Q(.)..', '.Q(5)', 'Q(1e)+3', '1e Q(+)', 'Q(0x1p)-1', '%Q(:)', '<Q(:)', '/Q(*)', 'Q(/)/ 2', 'Q(/)*3']),
    ('prefix-next-to-quote', ['Q(u8)"a"', 'u8 Q("a")', 'Q(L)\'c\'', 'Q(L)"w"', 'Q(u)"q"', 'Q(U)\'f\'', 'u8"a"Q("b")', 'Q(u8)Q("a")']),
    ('ident-number', ['Q(a)b', 'Q(1)2', 'Q(a)1', 'Q(1)a', 'Q(1).', 'Q(1)e+5', 'Q(x)$', 'a Q()b']),
    ('dup', ['D(-)', 'D(+)+', 'D(a)', 'D(1e+)', 'D(.)', 'G(-)', 'G(-1)', 'W(-,-)', 'W(>,-)', 'W(=,<<)']),
    ('paste', ['CAT(1e,+)+1', 'CAT(-,>)x', 'x CAT(<,<)= 1', 'CAT(<<,=)=', 'CAT(.,5).', 'CAT(L,\'c\')\'d\'', 'CAT(u8,"s")"t"', '-CAT(-,-)-', 'CAT(a,b1)c']),
    ('stringize', ['S(a  +  b)"x"', 'S()', 'S("q")', 'u8 S(z)', 'S(-)-']),
    ('adjacent-runs', ['a+++b', 'x=y--- -z;', 'f((a))[1]->m', '..x', '. ..', 'a<:b', '1.e+5+e', 'p->q.r...s', '<<=>>=', 'a?b:c;{}~!']),
    ('line-starts', ['E a', '  E  a', 'E', 'N', 'Q(', 'a', ')b', 'E E', '/* c */ x', 'y // t']),
    ('only-empty', ['E', 'E E']),
    ('comment-seps', ['a/**/b', 'a/* */+/**/+', '-/**/-', 'x// y', '1/**/e+5']),
    # f21a1fb: a lone backslash token right before a new-line (backslash, blank, new-line in the source), glued to its
    # predecessor, twice in a row, from a macro, before a `#` kept on the line, and as the very last token of the output
    ('backslash-before-newline', ['a \\ ', 'b', 'x\\ ', 'y \\\\ ', 'z', 'Q(\\)', 'w', '\\ ', 'H u \\ ', 'E \\ ', 'v \\ w']),
    ('backslash-at-the-end', ['a', 'b \\ ']),
    ('backslash-at-the-end-glued', ['a', 'b\\ ']),
    ('backslash-only', ['\\ ']),
    ('backslash-double-splice', ['x\\\\', '', 'y']),                     # `\` `\`+new-line, empty line: phase 2 leaves `x\` + new-line
    # 87479b9: an identifier beginning with U+FEFF as the very first token of the output (the source line 1 is a comment)
    ('feff-first', ['\xef\xbb\xbfx = 1;', '\xef\xbb\xbfx']),
    ('feff-first-from-macro', ['#define F \xef\xbb\xbfq', 'F+1', 'F']),
    ('feff-first-with-space', [' \xef\xbb\xbfz', 'E \xef\xbb\xbfz']),
    ('feff-not-first', ['a', '\xef\xbb\xbfx', 'Q(\xef\xbb\xbf)b']),
]

def boundary_program(idx, name, uses):
    lines = ['// tie_eprint boundary %s' % name, '#define E', '#define N -1', '#define P +', '#define Q(x) x', '#define D(x) x x', '#define G(x) x-x',
             '#define CAT(a,b) a##b', '#define S(x) #x', '#define H #', '#define W(x,y) y x'] + uses
    return '\n'.join(lines) + '\n', None, {'boundary-' + name}

# ------------------------------------------------------------------ reading the dumps
class Tok:
    __slots__ = ('kind', 'bol', 'space', 'line', 'file', 'text', 'col')
    def __init__(self, l):
        p = l.split(b' ')
        self.kind, self.bol, self.space, self.line, self.file = int(p[0]), int(p[1]), int(p[2]), int(p[3]), int(p[4])
        self.text = bytes.fromhex(p[5].decode()) if len(p) > 5 else b''
        self.col = None

def parse_dump(out):
    return [Tok(l) for l in out.split(b'\n') if l.strip()]

def locate(src, raw):
    """columns of the raw tokens of one file (in order); False if the text cannot be followed"""
    lines = src.split(b'\n')
    cur_line, cur = None, 0
    for t in raw:
        if t.line != cur_line: cur_line, cur = t.line, 0
        if t.line - 1 >= len(lines): return False
        s = lines[t.line - 1]
        while True:
            while cur < len(s) and s[cur:cur + 1] in (b' ', b'\t', b'\f', b'\v', b'\r'): cur += 1
            if s.startswith(b'/*', cur):
                e = s.find(b'*/', cur + 2)
                if e < 0: return False
                cur = e + 2; continue
            break
        if not s.startswith(t.text, cur): return False
        t.col = cur; cur += len(t.text)
    return True

def adjacency(pp, rawfiles):
    """per dumped token: True / False / None (ambiguous) for the printer's `adjacent`; index 0 is False"""
    res = [False] * len(pp)
    for i in range(1, len(pp)):
        a, b = pp[i - 1], pp[i]
        if a.file != b.file or a.line != b.line: continue
        raw = rawfiles.get(a.file)
        if raw is None: res[i] = None; continue
        ca = [t for t in raw if t.line == a.line and t.text == a.text]
        cb = [t for t in raw if t.line == b.line and t.text == b.text]
        touching = [(x, y) for x in ca for y in cb if x.col + len(x.text) == y.col]
        if not touching: continue
        res[i] = True if (len(ca) == 1 and len(cb) == 1) else None
    return res

def matters(t, first):
    """does the printer consult `adjacent` for this token?"""
    if first: return False
    if t.bol and t.text != b'#': return False
    return not t.space

# ------------------------------------------------------------------ Coq side
def coq_list(bs): return '[' + '; '.join(str(x) for x in bs) + ']'
def coq_bool(b): return 'true' if b else 'false'
def coq_tok(t, adj): return 'T %s %s %s %s %s' % (KIND[t.kind], coq_list(t.text), coq_bool(t.space), coq_bool(t.bol), coq_bool(adj))

HEADER = '''From Coq Require Import List NArith Bool.
From Chibicc Require Import Model.Lexer Gen.PunctTable Model.EPrint Spec.EPrintSpec Proofs.EPrintProofs.
Import ListNotations.
Local Open Scope N_scope.
Set Printing Width 10000000.
Set Printing Depth 10000000.
Definition b2n (b : bool) : N := if b then 1 else 0.
Definition kcode (k : tkind) : N := match k with LIdent => 0 | LPunct => 1 | LNum => 2 | LStr => 3 | LChr => 4 end.
Definition enc_tok (t : tok) : list N := (2000 + kcode (t_kind t)) :: b2n (t_space t) :: b2n (t_bol t) :: t_text t.
Definition enc_lex (r : lexres) : list N := match r with LexOk l => 3000 :: concat (map enc_tok l) | LexErr => [3001] end.
(* model: the bytes print_tokens writes for this token list; the hypothesis of the theorem; the finding's predicate *)
Definition model_case (id : N) (ts : list etok) : list N :=
  id :: 1000 :: eprint ts ++ [1001; b2n (printable_b punct_table ts); b2n (leading_hash ts)].
(* spec: the bytes the real compiler wrote, read by the tokenizer model, against the dumped tokens *)
Definition spec_case (id : N) (ts : list etok) (real : list N) : list N :=
  id :: 1100 :: b2n (same_tokens_b (tokenize punct_table) real (given ts)) ::
  b2n (faithful_b (tokenize punct_table) real (given ts)) ::
  b2n (match tokenize punct_table real with LexOk l => no_directive l | LexErr => false end) ::
  b2n (survives_phases_1_2 real) :: 1101 :: enc_lex (tokenize punct_table real).
'''

def decode_lex(v):
    if not v or v[0] == 3001: return None
    toks = []
    for x in v[1:]:
        if x >= 2000: toks.append([x - 2000, None, None, bytearray()])
        elif toks[-1][1] is None: toks[-1][1] = x
        elif toks[-1][2] is None: toks[-1][2] = x
        else: toks[-1][3].append(x)
    return [(k, bytes(t)) for k, s, b, t in toks]

def show(bs): return bs.decode('latin-1')

# ------------------------------------------------------------------ the tie
def run(src_dir, seed=1, n=150, verif_dir=None):
    t0 = time.time()
    verif_dir = verif_dir or os.path.dirname(os.path.dirname(os.path.abspath(__file__)))
    chibi = os.path.join(src_dir, 'chibicc')
    rng = random.Random(seed)
    wd = tempfile.mkdtemp(prefix='tie_eprint_')
    res = {'evaluations': 0, 'distinct_nontrivial': 0, 'distribution': {}, 'impl_vs_spec': [], 'impl_vs_model': [],
           'known_findings': [], 'samples': []}
    dist = res['distribution']
    def count(k, d=1): dist[k] = dist.get(k, 0) + d
    try:
        probe = os.path.join(wd, 'probe.c'); open(probe, 'w').write('int x;\n')
        rc, out, err = sh([chibi, '-E', '-verif-dump-tokens', probe])
        if rc != 0 or not out.strip():
            res['error'] = 'no -verif-dump-tokens hook in %s (build with -DCHIBICC_VERIF): %s' % (chibi, err.decode(errors='replace')[-200:])
            return res
        progs = [boundary_program(i, nm, uses) for i, (nm, uses) in enumerate(BOUNDARY)]
        tries = 0
        while len(progs) < max(n, len(BOUNDARY)) and tries < 20 * n:
            tries += 1
            g = gen_program(rng, len(progs))
            if g: progs.append(g)
        progs = progs[:max(n, 1)]
        cases = []
        for i, (text, header, feats) in enumerate(progs):
            f = os.path.join(wd, 'c%d.c' % i); open(f, 'w', encoding='latin-1').write(text)
            hf = None
            if header is not None:
                hf = os.path.join(wd, 'tie_h%d.h' % i); open(hf, 'w', encoding='latin-1').write(header)
            rc2, d, err2 = sh([chibi, '-E', '-verif-dump-tokens', f])
            if rc2 != 0:
                count('skipped-preprocessing-error'); continue                       # the generator made an invalid invocation: not this property
            rc, real, err = sh([chibi, '-E', f])
            rc3, r, err3 = sh([chibi, '-E', '-verif-dump-raw-tokens', f])
            if rc != 0 or rc3 != 0:
                res['evaluations'] += 1
                res['impl_vs_model'].append({'case': text, 'impl': '-E fails although preprocessing succeeds: ' + (err + err3).decode(errors='replace')[-200:],
                                             'model': 'print_tokens is total'}); continue
            pp = parse_dump(d)
            if any(t.kind not in KIND for t in pp):
                res['impl_vs_model'].append({'case': text, 'impl': 'token kinds %s' % sorted(set(t.kind for t in pp)), 'model': 'only preprocessing-token kinds reach the printer'}); continue
            rawfiles = {}
            raw1 = parse_dump(r)
            if locate(text.encode('latin-1'), raw1): rawfiles[1] = raw1
            if hf:
                rc4, rh, _ = sh([chibi, '-E', '-verif-dump-raw-tokens', '-xc', hf])
                rawh = parse_dump(rh) if rc4 == 0 else None
                if rawh is not None and locate(header.encode('latin-1'), rawh): rawfiles[2] = rawh
            adj = adjacency(pp, rawfiles)
            amb = [k for k in range(1, len(pp)) if adj[k] is None and matters(pp[k], False)]
            for k in range(len(pp)):
                if adj[k] is None and k not in amb: adj[k] = False                       # not consulted by the printer: any value
            cases.append({'id': len(cases), 'text': text, 'header': header, 'feats': feats, 'pp': pp, 'adj': adj, 'amb': amb, 'real': real})
        # ---- one Coq file
        v = [HEADER]
        for c in cases:
            amb = c['amb'][:]
            if len(amb) > MAX_AMBIG:
                count('cases-adjacency-unresolved'); c['variants'] = []; amb_use = []
            else:
                amb_use = amb
            c['variant_adj'] = []
            for vi, choice in enumerate(itertools.product([False, True], repeat=len(amb_use))):
                a = c['adj'][:]
                for k, ch in zip(amb_use, choice): a[k] = ch
                for k in range(len(a)):
                    if a[k] is None: a[k] = False
                c['variant_adj'].append(a)
                if len(amb) <= MAX_AMBIG:
                    v.append('Eval vm_compute in model_case %d [%s].' % (c['id'] * 16 + vi, '; '.join(coq_tok(t, a[k]) for k, t in enumerate(c['pp']))))
            a0 = c['variant_adj'][0]
            v.append('Eval vm_compute in spec_case %d [%s] %s.' % (c['id'], '; '.join(coq_tok(t, a0[k]) for k, t in enumerate(c['pp'])), coq_list(c['real'])))
        vf = os.path.join(wd, 'Cases_eprint.v'); open(vf, 'w').write('\n'.join(v) + '\n')
        rc, out, err = sh(['coqc', '-Q', os.path.join(verif_dir, 'coq', 'theories'), 'Chibicc', '-w', '-deprecated-syntactic-definition,-deprecated', vf], timeout=600, cwd=wd)
        if rc != 0:
            res['error'] = 'coqc failed on Cases_eprint.v: ' + (err.decode(errors='replace') + out.decode(errors='replace'))[-600:]
            return res
        model, spec = {}, {}
        for m in re.finditer(rb'=\s*\[([^\]]*)\]\s*:\s*list N', out):
            vals = [int(x) for x in m.group(1).replace(b'\n', b' ').split(b';') if x.strip()]
            if len(vals) >= 2 and vals[1] == 1000:
                e = vals.index(1001)
                model[vals[0]] = (bytes(vals[2:e]), vals[e + 1], vals[e + 2])
            elif len(vals) >= 2 and vals[1] == 1100:
                spec[vals[0]] = (vals[2], vals[3], vals[4], vals[5], decode_lex(vals[7:]))
        # ---- decide
        seen = set()
        for c in cases:
            res['evaluations'] += 1
            pp, real = c['pp'], c['real']
            if c['id'] not in spec:
                res['error'] = 'no result of coqc for case %d' % c['id']; return res
            same, faithful, nodir, survives, relexed = spec[c['id']]
            dumped = [(KCODE[KIND[t.kind]], t.text) for t in pp]
            variants = [model.get(c['id'] * 16 + vi) for vi in range(len(c['variant_adj']))] if len(c['amb']) <= MAX_AMBIG else []
            lead = bool(pp) and pp[0].text == b'#'
            # the property itself
            if not same or not survives or (not nodir and not lead):
                res['impl_vs_spec'].append({'case': c['text'] + ('\n--- header ---\n' + c['header'] if c['header'] else ''),
                                            'impl': show(real),
                                            'spec': ('same tokens, but phases 1-2 of a reader alter the -E text (leading byte order mark, backslash before a new-line, or carriage return)' if same and not survives else
                                                     'same tokens, but a `#` that is not a directive starts a line of the -E text (would be read as a directive)' if same else
                                                     'the -E text must read back as %s (kinds %s); the tokenizer model reads %s' % (
                                                [show(t) for k, t in dumped], [k for k, t in dumped],
                                                'an error' if relexed is None else [(k, show(t)) for k, t in relexed]))})
            elif not nodir and lead:
                res['known_findings'].append({'id': 'C19-leading-hash', 'case': c['text'], 'impl': show(real)})
                count('known-leading-hash')
            # the model
            best = next((m for m in variants if m is not None and m[0] == real), variants[0] if variants else None)
            if variants:
                ok = [m for m in variants if m is not None and m[0] == real]
                if not ok:
                    res['impl_vs_model'].append({'case': c['text'] + ('\n--- header ---\n' + c['header'] if c['header'] else ''),
                                                 'impl': show(real), 'model': show(variants[0][0]) if variants[0] else 'no result',
                                                 'tokens': [[KIND[t.kind], show(t.text), t.space, t.bol, c['variant_adj'][0][k]] for k, t in enumerate(pp)]})
                elif not any(m[1] for m in ok):
                    res['impl_vs_model'].append({'case': c['text'], 'impl': 'token list ' + str([[show(t.text), t.space, t.bol, c['variant_adj'][0][k]] for k, t in enumerate(pp)]),
                                                 'model': 'hypothesis printable_b fails: a token was not cut by tokenize() from a text continuing with the tokens glued to it'})
                if len(c['amb']): count('cases-with-ambiguous-adjacency'); count('ambiguous-pairs', len(c['amb']))
            # what was exercised
            a0 = c['variant_adj'][0]
            cls = set()
            for k, t in enumerate(pp):
                first = k == 0
                if first: cl = 'first-with-space' if t.space else 'first'
                elif t.bol and t.text != b'#': cl = 'new-line'
                elif t.bol and t.text == b'#': cl = 'hash-at-bol-kept-on-line'
                elif t.space: cl = 'space-from-has_space'
                elif k in c['amb']: cl = 'ambiguous'
                elif not a0[k]: cl = 'space-from-non-adjacency'
                else: cl = 'glued'
                if cl == 'space-from-non-adjacency':
                    kinds = KIND[pp[k - 1].kind][1:] + '+' + KIND[t.kind][1:]
                    count('nonadjacent ' + kinds)
                count('sep ' + cl); cls.add(cl)
                if cl == 'new-line' and pp[k - 1].text == b'\\': count('backslash before new-line')
                if first and not t.space and t.text.startswith(b'\xef\xbb\xbf'): count('first token begins with U+FEFF, no has_space')
            if pp and pp[-1].text == b'\\': count('backslash as last token')
            for ft in c['feats']:
                if ft.startswith('boundary-') or ft in ('include', 'leading-hash-attempt'): count(ft if not ft.startswith('boundary-') else 'boundary')
            if (cls & {'space-from-non-adjacency', 'glued', 'hash-at-bol-kept-on-line'}) and real not in seen:
                seen.add(real); res['distinct_nontrivial'] += 1
            if len(res['samples']) < 5 and c['id'] in (0, 2, 5, len(BOUNDARY), len(BOUNDARY) + 1):
                res['samples'].append({'case': c['text'].split('\n', 11)[-1] if c['text'].count('\n') > 11 else c['text'], 'impl': show(real),
                                       'model': show(best[0]) if best else None, 'printable': bool(best and best[1]),
                                       'spec_same_tokens': bool(same), 'spec_faithful': bool(faithful)})
        res['seconds'] = round(time.time() - t0, 1)
        return res
    finally:
        shutil.rmtree(wd, ignore_errors=True)

if __name__ == '__main__':
    if len(sys.argv) < 2:
        print('usage: tie_eprint.py <src_dir with built chibicc (-DCHIBICC_VERIF)> [seed] [n]'); sys.exit(2)
    src = sys.argv[1]
    seed = int(sys.argv[2]) if len(sys.argv) > 2 else 1
    n = int(sys.argv[3]) if len(sys.argv) > 3 else 150
    r = run(src, seed, n, os.path.dirname(os.path.dirname(os.path.abspath(__file__))))
    print(json.dumps(r, indent=1))
    sys.exit(1 if (r.get('error') or r['impl_vs_spec'] or r['impl_vs_model']) else 0)
