#!/usr/bin/env python3
"""C10 - conditional inclusion and #include resolution select exactly the right text.
   proofs (the dispatcher with its skip-ahead functions = the section tree of C11 6.10.1 for every
   well-nested input; skipped groups have no effect; include search = first existing file in the
   order includer's directory / -I / standard / -idirafter; #include_next continues after the hit)
   + correspondence:
   (a) random section trees rendered with real #if/#ifdef/#ifndef/#elif expressions, junk directives
       inside skipped groups and trailing tokens: chibicc -E = extracted model = tree selection;
       ill-nested sequences: model ERR <=> chibicc error;
   (b) #if arithmetic: generated intmax_t/uintmax_t expressions, group chosen = (Coq C11 spec value != 0);
   (c) include graphs over small directory trees x -I / -idirafter orders, "" and <> forms,
       #include_next wrappers, guards (real and fake), #pragma once, repeated inclusion, -include,
       -D/-U orders: tokens = a plain textual-inclusion expander using the extracted resolve model
       = gcc -E."""
import os, sys, time, random, json, re, subprocess
sys.path.insert(0, os.path.dirname(os.path.abspath(__file__)))
from vlib import *
import exprgen

PID = 'C10'
THEOREMS = ['C10_groups_selected', 'C10_skipped_group_irrelevant', 'C10_first_true_group', 'C10_skip_balanced',
            'C10_include_first_match', 'C10_include_not_found', 'C10_include_next', 'C10_nonvacuous']
MODELRUN = os.path.join(VERIF, 'ocaml/modelrun')

# ------------------------------------------------------------ (a) section trees
TRUE_EXPRS = ['1', '2 > 1', 'defined(DEF1)', 'defined DEF0', 'DEF1', '!DEF0', '!defined(UNDEF)', 'UNDEF == 0', '1 || (1/0)', '(2147483647 + 1) > 0',
              '-1 < 0', '0x10 == 16', "'a' == 97", 'DEF1 && !UNDEF', '1 ? 1 : (1/0)', '(1 << 40) != 0', '-1 < 0u == 0', 'int == 0', 'true == 0', 'EMPTYDEF + 1',
              'defined(EMPTYDEF)', '1L', '1u', '~0 == -1', '(-1 >> 1) < 0', 'FN(3) == 4']
FALSE_EXPRS = ['0', '1 > 2', 'defined(UNDEF)', 'DEF0', '!DEF1', 'UNDEF', '0 && (1/0)', 'defined UNDEF', '1 - 1', '0 ? (1/0) : 0', 'UNDEF(1)' if False else '0u', '!1', '2 < 1 || 3 < 2',
               '(1 << 40) == 0', '-1 > 0', '0x100000000 == 0', 'DEF1 == 2', 'FN(3) == 3']
PRELUDE = '#define DEF1 1\n#define DEF0 0\n#define EMPTYDEF\n#define FN(x) (x + 1)\n'

class TreeGen:
    def __init__(self, rng): self.rng = rng; self.n = 0
    def items(self, depth):
        out = []
        for _ in range(self.rng.randint(0, 2 if depth else 5)):
            if self.rng.random() < 0.45 or depth >= 4:
                self.n += 1; out.append(('T', self.n))
            else:
                b = self.rng.random() < 0.5
                elifs = [(self.rng.random() < 0.4, self.items(depth + 1)) for _ in range(self.rng.choice([0, 0, 1, 2, 3]))]
                els = self.items(depth + 1) if self.rng.random() < 0.5 else None
                out.append(('S', b, self.items(depth + 1), elifs, els))
        return out

def select(items):
    out = []
    for it in items:
        if it[0] == 'T': out.append(it[1]); continue
        _, b, body, elifs, els = it
        if b: out += select(body); continue
        for c, bd in elifs:
            if c: out += select(bd); break
        else:
            if els is not None: out += select(els)
    return out

def flatten(items):
    out = []
    for it in items:
        if it[0] == 'T': out.append('T%d' % it[1]); continue
        _, b, body, elifs, els = it
        out.append('I%d' % b); out += flatten(body)
        for c, bd in elifs: out.append('E%d' % c); out += flatten(bd)
        if els is not None: out.append('L'); out += flatten(els)
        out.append('N')
    return out

def render(rng, abstract, active_known):
    """abstract line list -> C text. Conditions get real expressions of the given truth value. Inside groups that
    are skipped (computed by a depth walk) junk directives are added."""
    lines = [PRELUDE.rstrip('\n')]
    # which lines are in a skipped region: simulate with a stack of (parent_active, taken, active)
    st = []; act = True
    for a in abstract:
        k = a[0]
        if k == 'T':
            lines.append('t%s;' % a[1:])
            # a null directive (6.10.7) is complete at its new-line: the next line is ordinary text even when it starts with a directive
            # name (in a skipped group it must not open, switch or close a conditional; in an active group it is passed through)
            if rng.random() < 0.15:
                nm = rng.choice(['if', 'else', 'endif', 'elif', 'ifdef', 'ifndef', 'define', 'undef', 'include', 'error'])
                lines.append(rng.choice(['#', '# ', '#  // c', '# /* c */']))
                lines.append('%s (nd%s) { }' % (nm, a[1:]) if nm in ('if', 'else') else '%s nd%s 1' % (nm, a[1:]))
            if not act and rng.random() < 0.5:
                lines.append(rng.choice(['#include "does_not_exist.h"', '#error must not fire', '#define DEF0 1', '#undef DEF1', '#define FN(x) 99', '#line 7',
                                         '#pragma once', 'junk @ tokens $ here', '#unknown_directive']))
            continue
        trail = rng.choice(['', '', ' // c', ' /* c */'])
        if k == 'I':
            b = a[1] == '1'
            form = rng.random()
            if form < 0.25: lines.append(('#ifdef %s' % ('DEF1' if b else 'UNDEF')) + trail)
            elif form < 0.5: lines.append(('#ifndef %s' % ('UNDEF' if b else 'DEF0')) + trail)
            else: lines.append('#if ' + rng.choice(TRUE_EXPRS if b else FALSE_EXPRS) + trail)
            st.append([act, act and b, act and b]); act = act and b
        elif k == 'E':
            b = a[1] == '1'
            # an #elif after a taken group (or in an inactive parent) is not evaluated: may be garbage
            top = st[-1] if st else None
            evaluated = top is not None and top[0] and not top[1]
            if not evaluated and rng.random() < 0.3: lines.append('#elif 1 / 0 +')
            else: lines.append('#elif ' + rng.choice(TRUE_EXPRS if b else FALSE_EXPRS) + trail)
            if top is not None:
                top[2] = top[0] and not top[1] and b; top[1] = top[1] or top[2]; act = top[2]
        elif k == 'L':
            lines.append('#else' + rng.choice(['', ' // x', ' extra tokens', ' /* y */']))
            if st:
                top = st[-1]; top[2] = top[0] and not top[1]; top[1] = True; act = top[2]
        elif k == 'N':
            lines.append('#endif' + rng.choice(['', ' // x', ' TRAILING', ' /* DEF1 */']))
            if st:
                top = st.pop(); act = top[0]
    return '\n'.join(lines) + '\n'

# ------------------------------------------------------------ (b) #if arithmetic
def if_leaf(rng):
    def f(t, v):
        if t == 'i64':
            if v == -(1 << 63): return '(-9223372036854775807-1)'
            s = abs(v)
            sp = rng.choice(['%d', '%dL', '%dLL', '0x%x', '0%o', '%dl']) % s if s < (1 << 63) else '%d' % s
            if s == 0 and sp.startswith('00'): sp = '0'
            return sp if v >= 0 else '(-%s)' % sp
        if v > (1 << 63) - 1 and rng.random() < 0.3: return '0x%x' % v
        return rng.choice(['%du', '%dUL', '%dull', '0x%xu', '%dU']) % v
    return f

def gen_if_expr(rng, depth):
    if depth <= 0 or rng.random() < 0.2:
        t = rng.choice(['i64', 'u64'])
        v = exprgen.rand_value(rng, t) if rng.random() < 0.7 else rng.choice([0, 1, 2, 3, 31, 32, 63, 64, (1 << 31) - 1, 1 << 31, (1 << 32) - 1, 1 << 32])
        return ('L', t, v)
    r = rng.random()
    if r < 0.15: return ('U', rng.choice(['neg', 'not', 'lnot', 'plus']), gen_if_expr(rng, depth - 1))
    if r < 0.88:
        op = rng.choice(list(exprgen.BINOPS))
        b = ('L', 'i64', rng.randint(0, 66)) if op in ('shl', 'shr') and rng.random() < 0.8 else gen_if_expr(rng, depth - 1)
        return ('B', op, gen_if_expr(rng, depth - 1), b)
    return ('Q', gen_if_expr(rng, depth - 1), gen_if_expr(rng, depth - 1), gen_if_expr(rng, depth - 1))

# ------------------------------------------------------------ (c) include graphs
class IncModel:
    """line-by-line client of `modelrun inc`"""
    def __init__(self):
        self.p = subprocess.Popen([MODELRUN, 'inc'], stdin=subprocess.PIPE, stdout=subprocess.PIPE, text=True, bufsize=1)
    def ask(self, line):
        self.p.stdin.write(line + '\n'); self.p.stdin.flush()
        return int(self.p.stdout.readline().strip())
    def close(self):
        try: self.p.stdin.close(); self.p.wait(timeout=5)
        except Exception: self.p.kill()

def gen_inc_case(rng, base, k):
    dirs = ['src', 'i0', 'i1', 'i2', 'after0', 'after1']
    for d in dirs: os.makedirs(os.path.join(base, d), exist_ok=True)
    names = ['ha.h', 'hb.h', 'hc.h']
    files = {}    # (dir, name) -> text
    for di, d in enumerate(dirs):
        for ni, n in enumerate(names):
            if rng.random() < (0.35 if d == 'src' else 0.55):
                body = ['T_%s_%s' % (d, n[:2])]
                for n2 in names[ni + 1:]:
                    if rng.random() < 0.4: body.append(('#include <%s>' if rng.random() < 0.5 else '#include "%s"') % n2)      # a quoted include is searched next to THIS file first
                if d != 'src' and rng.random() < 0.4: body.append('#include_next <%s>' % n)
                if not body[-1].startswith('#include') or rng.random() < 0.5: body.append('E_%s_%s' % (d, n[:2]))             # else the include is the last line of the file
                shape = rng.random()
                g = 'G_%s_%s' % (d.upper(), n[:2].upper())
                if shape < 0.25: text = '#ifndef %s\n#define %s\n%s\n#endif\n' % (g, g, '\n'.join(body))
                elif shape < 0.35: text = '#pragma once\n' + '\n'.join(body) + '\n'
                elif shape < 0.45: text = '#ifndef %s\n#define %s\n#endif\n%s\n#ifdef NEVER_%d\nnever\n#endif\n' % (g, g, '\n'.join(body), k)      # not a guard: text outside
                elif shape < 0.55: text = '#ifndef %s\n#define %s\n%s\n#else\nAGAIN_%s_%s\n#endif\n' % (g, g, '\n'.join(body), d, n[:2])           # not a guard: #else
                elif shape < 0.62: text = '#ifndef %s\n#define %s\n#if 1\n%s\n#endif\n#endif\n' % (g, g, '\n'.join(body))                            # guard with nested #if
                elif shape < 0.72: text = '#ifndef %s\n#define %s\n%s\n#elif 1\nAGAIN_%s_%s\n#endif\n' % (g, g, '\n'.join(body), d, n[:2])          # not a guard: #elif on the opening #ifndef (taken at the second inclusion)
                elif shape < 0.76: text = '#ifndef %s\n#define %s\n%s\n#elif 0\nNEVER_%s_%s\n#else\nTHIRD_%s_%s\n#endif\n' % (g, g, '\n'.join(body), d, n[:2], d, n[:2])
                else: text = '\n'.join(body) + ('\n' if rng.random() < 0.8 else '')
                files[(d, n)] = text
    local = {}
    for j in range(2):
        if rng.random() < 0.6:
            local[('src', 'hl%d.h' % j)] = 'T_src_hl%d\n%s' % (j, ''.join('#include "%s"\n' % n for n in names if rng.random() < 0.4))
    files.update(local)
    main = []
    for _ in range(rng.randint(2, 7)):
        r = rng.random()
        n = rng.choice(names)
        if r < 0.4: main.append('#include <%s>' % n)
        elif r < 0.8: main.append('#include "%s"' % n)
        elif local: main.append('#include "%s"' % rng.choice(list(local))[1])
        else: main.append('m%d' % len(main))
    idirs = [d for d in ['i0', 'i1', 'i2'] if rng.random() < 0.7]; rng.shuffle(idirs)
    adirs = [d for d in ['after0', 'after1'] if rng.random() < 0.6]; rng.shuffle(adirs)
    # make sure every <name> used in main resolves somewhere, else drop the line
    for (d, n), t in files.items(): open(os.path.join(base, d, n), 'w').write(t)
    open(os.path.join(base, 'src', 'main.c'), 'w').write('\n'.join(main) + '\n')
    return dirs, files, main, idirs, adirs

def expand_reference(model, dirs, files, main_lines, idirs, adirs):
    """plain textual inclusion with the extracted resolve model; guards work through ordinary conditional
    semantics, #pragma once by file identity. Returns token list or None if some include does not resolve."""
    paths = idirs + adirs                      # the standard directories hold none of these names
    pidx = [dirs.index(d) for d in paths]
    out = []; defined = set(); once = set()
    class Fail(Exception): pass
    def bits(n): return ''.join('1' if (d, n) in files else '0' for d in dirs)
    def run_file(d, n, text, depth, found_pos):
        """found_pos: position in the include path list where this file was found, None if not found through it"""
        if depth > 40: raise Fail()
        stack = []     # (parent_active, taken, active)
        active = True
        for line in text.split('\n'):
            line = line.strip()
            if not line: continue
            if line.startswith('#ifndef') or line.startswith('#ifdef') or line.startswith('#if '):
                if line.startswith('#ifndef'): c = line.split()[1] not in defined
                elif line.startswith('#ifdef'): c = line.split()[1] in defined
                else: c = line.split()[1] == '1'
                stack.append([active, active and c, active and c]); active = active and c; continue
            if line.startswith('#elif'):
                top = stack[-1]; c = line.split()[1] == '1'
                top[2] = top[0] and not top[1] and c; top[1] = top[1] or top[2]; active = top[2]; continue
            if line.startswith('#else'):
                top = stack[-1]; top[2] = top[0] and not top[1]; top[1] = True; active = top[2]; continue
            if line.startswith('#endif'):
                top = stack.pop(); active = top[0]; continue
            if not active: continue
            if line.startswith('#define'): defined.add(line.split()[1]); continue
            if line.startswith('#pragma once'): once.add((d, n)); continue
            m = re.match(r'#include(_next)? ([<"])([^>"]+)[>"]', line)
            if m:
                nxt, q, name = m.group(1), m.group(2), m.group(3)
                pos = None
                if nxt:
                    start = 0 if found_pos is None else found_pos + 1
                    r = model.ask('next %d %s %s' % (start, ','.join(map(str, pidx)) or '-', bits(name)))
                    if r < 0: raise Fail()
                    pos = next(i for i in range(start, len(pidx)) if pidx[i] == r)
                else:
                    r = model.ask('%d %d %s %s' % (1 if q == '"' else 0, dirs.index(d), ','.join(map(str, pidx)) or '-', bits(name)))
                    if r < 0: raise Fail()
                    if not (q == '"' and r == dirs.index(d) and (d, name) in files):
                        pos = next(i for i in range(len(pidx)) if pidx[i] == r)
                d2 = dirs[r]
                if (d2, name) in once: continue
                run_file(d2, name, files[(d2, name)], depth + 1, pos)
                continue
            out.extend(line.split())
    try:
        run_file('src', 'main.c', '\n'.join(main_lines), 0, None)
    except Fail:
        return None
    return out


def main():
    run = Run(PID, THEOREMS)
    rng = run.rng
    try:
        src = build_impl()
    except BuildFailed as e:
        run.proof_broken.append('scratch build of /repo failed: ' + str(e)[-800:])
        return run.finish(dict(evaluations=0), [], [])
    wd = scratch_dir()
    run.check_proofs(deps=['theories/Model/Cond.vo', 'theories/Proofs/CondProofs.vo', 'theories/Proofs/IncludeProofs.vo'])
    NCORPUS = run_corpus(run, PID, src)          # minimised past failures first
    rc, o, e = sh([os.path.join(VERIF, 'ocaml/build.sh')], timeout=900)
    if rc != 0:
        run.corr_broken.append('extracted model does not build: ' + (o + e)[-300:])
        return run.finish(dict(evaluations=0), [], [])
    chibi = os.path.join(src, 'chibicc')
    evals = 0; nontriv = 0; dist = {}; samples = []
    def count(k, n=1): dist[k] = dist.get(k, 0) + n
    def etoks(out): return [t for t in re.findall(r'[A-Za-z_][A-Za-z_0-9]*', out)]

    # ---------------- (a) trees ----------------
    NA = 250 if run.quick() else 2500
    cases = []
    for k in range(NA):
        g = TreeGen(rng); items = g.items(0)
        ab = flatten(items); want = select(items); broken = False
        if k % 6 == 5 and ab:
            # ill-nested variant
            m = rng.random(); ab = list(ab)
            if m < 0.3 and 'N' in ab: ab.remove('N')
            elif m < 0.5: ab.insert(rng.randrange(len(ab) + 1), rng.choice(['L', 'N', 'E1']))
            else:
                idx = [i for i, a in enumerate(ab) if a == 'L']
                if idx: ab.insert(idx[0] + 1, 'L')
            broken = True
        text = render(rng, ab, None)
        f = os.path.join(wd, 'a%d.c' % k); open(f, 'w').write(text)
        cases.append((f, text, ab, want, broken))
    p = subprocess.run([MODELRUN, 'cond'], input='\n'.join(' '.join(c[2]) if c[2] else 'T0' for c in cases) + '\n', capture_output=True, text=True, timeout=300)
    mouts = p.stdout.split('\n')[:len(cases)]          # one line per case; an empty line is a result (nothing selected)
    def one_a(c):
        rc, out, err = sh([chibi, '-E', c[0]], timeout=30)
        return rc, out, err
    for c, mo, (rc, out, err) in zip(cases, mouts, pmap(one_a, cases)):
        f, text, ab, want, broken = c
        evals += 1
        model = None if mo.strip() == 'ERR' else ([int(x) for x in mo.split()] if ab else [])
        if not ab: model = []
        impl = None if rc != 0 else [int(t[1:]) for t in etoks(out) if re.fullmatch(r't\d+', t)]
        if rc not in (0, 1):
            run.violation(dict(kind='compiler-crash', exit=rc, program=text, stderr=err[-300:]), dict(area='cond', construct='crash')); continue
        if model != impl:
            run.corr_broken.append('conditional groups of %s: model %s, chibicc %s' % (os.path.basename(f), model, impl if impl is not None else 'error: ' + err.strip().split('\n')[-1][:100]))
            write_replay(PID, 'cond_' + os.path.basename(f), text)
        if not broken:
            nontriv += 1; count('tree-wellformed')
            if model != want:
                run.corr_broken.append('extracted model differs from the tree selection on %s' % os.path.basename(f))
            if impl != want:
                run.violation(dict(kind='wrong-groups', program=text, expected_text_lines=want, got=impl if impl is not None else 'error: ' + err[-300:],
                                   how='chibicc -E <program>: the identifiers t<k> that survive'), dict(area='cond', construct='groups'))
        else:
            count('tree-illformed')
        if len(samples) < 2 and not broken and len(ab) > 6: samples.append(dict(program=text[:400], selected=want))

    # ---------------- (b) #if arithmetic ----------------
    NB = 300 if run.quick() else 3000
    exprs = [gen_if_expr(rng, rng.randint(1, 4)) for _ in range(NB)]
    spec = exprgen.spec_query(MODELRUN, exprs)
    bcases = []
    for k, (e, s) in enumerate(zip(exprs, spec)):
        if s[1] is None: count('if-expr-undefined'); continue
        text = exprgen.to_c(e, if_leaf(rng))
        bcases.append((k, text, s[1]))
    # all into few files
    CH = 50
    chunks = [bcases[i:i + CH] for i in range(0, len(bcases), CH)]
    def one_b(ch):
        f = os.path.join(wd, 'b%d.c' % ch[0][0])
        open(f, 'w').write(''.join('#if %s\nyes%d\n#else\nno%d\n#endif\n' % (t, k, k) for k, t, v in ch))
        rc, out, err = sh([chibi, '-E', f], timeout=60)
        return ch, rc, out, err
    for ch, rc, out, err in pmap(one_b, chunks):
        if rc != 0:
            # find the culprit one by one
            for k, t, v in ch:
                f = os.path.join(wd, 'b1_%d.c' % k); open(f, 'w').write('#if %s\nyes%d\n#else\nno%d\n#endif\n' % (t, k, k))
                rc1, out1, err1 = sh([chibi, '-E', f], timeout=30)
                evals += 1
                if rc1 != 0:
                    run.violation(dict(kind='if-expression-rejected', expression=t, c11_value=v, stderr=err1[-300:]), dict(area='if-arith', construct='rejected'))
                elif ('yes%d' % k in out1) != (v != 0):
                    run.violation(dict(kind='if-arith', expression=t, c11_value=v, chosen='yes' if 'yes%d' % k in out1 else 'no'), dict(area='if-arith', construct='value'))
            continue
        got = set(etoks(out))
        for k, t, v in ch:
            evals += 1; nontriv += 1; count('if-expr')
            if ('yes%d' % k in got) != (v != 0) or ('no%d' % k in got) == (v != 0):
                run.violation(dict(kind='if-arith', expression=t, c11_value=v, chosen='yes' if 'yes%d' % k in got else 'no',
                                   how='#if <expression> / yes / #else / no / #endif through chibicc -E; C11 6.10.1p4 value from the Coq spec (all operands intmax_t/uintmax_t)'),
                              dict(area='if-arith', construct='value'))

    # ---------------- (c) include graphs ----------------
    NC = 80 if run.quick() else 800
    model = IncModel()
    icases = []
    for k in range(NC):
        base = os.path.join(wd, 'inc%d' % k)
        for attempt in range(6):
            dirs, files, main_lines, idirs, adirs = gen_inc_case(rng, base, k)
            want = expand_reference(model, dirs, files, main_lines, idirs, adirs)
            if want is not None or attempt == 5: break
            import shutil; shutil.rmtree(base)
        icases.append((base, dirs, files, main_lines, idirs, adirs, want))
    model.close()
    def one_c(c):
        base, dirs, files, main_lines, idirs, adirs, want = c
        opts = []
        for d in idirs: opts += ['-I', os.path.join(base, d)] if hash(d) % 2 else ['-I' + os.path.join(base, d)]
        for d in adirs: opts += ['-idirafter', os.path.join(base, d)]
        rc, out, err = sh([chibi, '-E'] + opts + [os.path.join(base, 'src', 'main.c')], timeout=30)
        rc2, out2, err2 = sh(['gcc', '-E', '-P'] + opts + [os.path.join(base, 'src', 'main.c')], timeout=30)
        return c, rc, out, err, rc2, out2, err2, opts
    for c, rc, out, err, rc2, out2, err2, opts in pmap(one_c, icases):
        base, dirs, files, main_lines, idirs, adirs, want = c
        evals += 1
        desc = dict(options=[o.replace(base, '<base>') for o in opts], main=main_lines, files={'%s/%s' % k: v for k, v in files.items()})
        impl = etoks(out) if rc == 0 else None
        ref = etoks(out2) if rc2 == 0 and 'include_next' not in err2 else None
        if want is None:
            count('include-unresolvable')
            if impl is not None:
                run.corr_broken.append('model finds no file for an #include of %s, chibicc does' % os.path.basename(base)); write_replay(PID, 'inc_' + os.path.basename(base), desc)
            continue
        nontriv += 1; count('include-graph')
        if impl != want:
            run.corr_broken.append('include expansion of %s differs from the expander using the resolve model' % os.path.basename(base)); write_replay(PID, 'incm_' + os.path.basename(base), dict(desc, chibicc=impl, model=want, stderr=err[-300:]))
        if ref is not None and impl != ref:
            run.violation(dict(kind='include-resolution', case=desc, chibicc=impl if impl is not None else 'error: ' + err[-300:], gcc=ref,
                               how='files under <base>/; chibicc -E <options> <base>/src/main.c vs gcc -E -P with the same options'), dict(area='include', construct='resolution'))
        elif ref is None: count('include-no-gcc-reference')

    # ---------------- (d) -include / -D / -U orders ----------------
    d = os.path.join(wd, 'opt'); os.makedirs(d)
    open(os.path.join(d, 'pre.h'), 'w').write('#ifdef X\npre_X_defined X\n#else\npre_X_undefined\n#endif\n#define FROM_PRE 5\n')
    open(os.path.join(d, 'pre2.h'), 'w').write('second FROM_PRE\n#undef Y\n')
    open(os.path.join(d, 'm.c'), 'w').write('main X Y FROM_PRE\n#ifdef Y\nhasY\n#endif\nF(3) F G(2, 4) G\n#include "once.h"\n#include "guard.h"\nend ONCE_SEEN GUARD_SEEN\n')
    open(os.path.join(d, 'once.h'), 'w').write('#pragma once\nonce_text\n#define ONCE_SEEN 1\n')
    open(os.path.join(d, 'guard.h'), 'w').write('#ifndef GUARD_H\n#define GUARD_H\nguard_text\n#define GUARD_SEEN 1\n#endif\n')
    optsets = [['-DX=1'], ['-DX=1', '-UX'], ['-UX', '-DX=2'], ['-DX', '-DX=3'], ['-DY=7', '-include', 'pre.h'], ['-include', 'pre.h', '-DX=4'], ['-include', 'pre.h', '-include', 'pre2.h', '-DY=1'],
               ['-DY=1', '-UY', '-DY=2', '-include', 'pre2.h'], ['-D', 'X=9', '-U', 'Q'], ['-DX=(1+2)', '-include', 'pre.h'],
               # function-like macros from the command line; a header with #pragma once / an include guard given with -include and included again by the text
               ['-DF(x)=x+1'], ['-DF(x)', '-DG(a,b)=b a'], ['-DF(x)=#x', '-UF', '-DG(a, b)=a##b'], ['-include', 'once.h'], ['-include', './once.h', '-include', 'once.h'], ['-include', 'guard.h', '-DF(x)=x'],
               ['-include', 'once.h', '-include', 'pre.h', '-DX=F(1)', '-DF(x)=(x)']]
    for os_ in optsets:
        evals += 1; nontriv += 1; count('option-order')
        rc, out, err = sh([chibi, '-E'] + os_ + ['m.c'], cwd=d, timeout=30)
        rc2, out2, err2 = sh(['gcc', '-E', '-P'] + os_ + ['m.c'], cwd=d, timeout=30)
        tk = lambda s: re.findall(r'[A-Za-z_0-9]+|\S', s)
        if rc != 0 or tk(out) != tk(out2):
            run.violation(dict(kind='command-line-macros', options=os_, chibicc=out if rc == 0 else 'error: ' + err[-200:], gcc=out2), dict(area='options', construct=' '.join(os_)))

    cov = dict(evaluations=evals, distinct_nontrivial=nontriv, input_distribution=dist, samples=samples,
               rule='(a) %d random section trees (depth <= 4, 0-3 #elif, optional #else) rendered with #if/#ifdef/#ifndef and a pool of %d controlling expressions (defined, undefined identifiers and keywords as 0, unevaluated operands that would divide by zero, values beyond 32 bits, function-like macros), unevaluated garbage #elif lines, junk directives inside skipped groups, trailing tokens; a sixth made ill-nested: chibicc -E = extracted model (incl. errors) = tree selection; (b) %d generated intmax_t/uintmax_t expressions (all operators, every literal spelling) in #if: group = (Coq C11 value != 0); (c) %d include graphs over 6 directories x 3 header names + local headers, -I/-idirafter permutations, both include forms, #include_next wrappers, real guards / look-alikes / #pragma once, repeated inclusion: tokens = textual-inclusion expander over the extracted resolve model = gcc -E; (d) %d -D/-U/-include orders vs gcc' % (NA, len(TRUE_EXPRS) + len(FALSE_EXPRS), NB, NC, len(optsets)),
               traces_validated_against_impl=nontriv)
    return run.finish(cov,
        ['gcc 12 -E is the reference for include resolution and command-line macro order; the value of a controlling expression comes from the Coq C11 integer spec (Spec/C11Int.v) with every operand typed intmax_t/uintmax_t',
         'skipped groups are still tokenized by chibicc (C11 requires only pp-tokens there), so the junk put into them is lexically valid'],
        ['Coq 8.16.1 kernel, no axioms', 'hand-written Model/Cond.v (line-level abstraction of the dispatcher; the recursion of skip_cond_incl2 is a depth counter) and Model/Include.v, tied by the correspondences above',
         'the reading of a directive line into (kind, truth value) - macro expansion of the expression, defined, identifiers as 0, the constant folder - is tied by (a)/(b), proved only as far as C07 proves the folder',
         'the include lookup cache and the guard / #pragma once shortcuts are not in the model: their transparency is what (c) checks'])

if __name__ == '__main__':
    sys.exit(main())
