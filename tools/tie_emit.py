#!/usr/bin/env python3
"""tie_emit - C15 (package emit): which symbols an object file defines, with which binding / section /
size / alignment.

Generates abstract translation units (the `decl` lists of Spec/LinkSpec.v), renders them to C, runs the
REAL chibicc on them (-c and -S under {-fcommon,-fno-common} x {non-PIC,-fPIC}) and compares
  * the symbol table (readelf -sW / -SW) with Spec.LinkSpec.spec_entry           -> impl_vs_spec
  * the anonymous objects (.L..N: block-scope statics, strings) with spec_anon   -> impl_vs_spec
  * the directive skeleton of the -S text with Model.Emit.emit (parse_flags ..)  -> impl_vs_model
  * the symbol table with Model.Emit.symtab_of (the model of GNU as)             -> impl_vs_model
gcc -std=gnu11 is a cross-check of the spec only ("spec_vs_reference", never a violation).
Units that contain one of the deviation still listed in Model/Emit.v (no_known_bad = false: `static T x; extern T x = c;`) are
generated with a small probability; their disagreements go to "known_findings".

    run(src_dir, seed, n, verif_dir) -> dict         python3 tools/tie_emit.py <src_dir> [seed] [n]
"""
import os, sys, re, json, random, subprocess, tempfile, shutil, time

OPTS = [('-fcommon', False), ('-fcommon', True), ('-fno-common', False), ('-fno-common', True)]   # (common flag, pic)

# ---------------------------------------------------------------- object types
# (C declarator pattern, size, align, is_array, constant initializer)
OBJ_TYPES = [
    ('int %s', 4, 4, False, '7'), ('char %s', 1, 1, False, '7'), ('long %s', 8, 8, False, '7'), ('short %s', 2, 2, False, '7'),
    ('char %s[3]', 3, 1, True, '"ab"'), ('int %s[5]', 20, 4, True, '{1,2}'), ('char %s[20]', 20, 1, True, '"abc"'),
    ('int %s[20]', 80, 4, True, '{1}'), ('long %s[2]', 16, 8, True, '{1,2}'), ('char %s[16]', 16, 1, True, '"x"'),
    ('char %s[15]', 15, 1, True, '"x"'), ('double %s', 8, 8, False, '1.5'), ('char %s[40]', 40, 1, True, '"q"'),
]
# block-scope statics may also carry an alignment specifier (the align field of BStatic is the requested alignment)
STATIC_TYPES = OBJ_TYPES + [('_Alignas(32) int %s', 4, 32, False, '7'), ('_Alignas(32) char %s[40]', 40, 32, True, '"q"'), ('_Alignas(64) char %s', 1, 64, False, '7')]
PTR_TYPE = ('void *%s', 8, 8, False, None)

def sc_word(sc): return {'none': '', 'static': 'static ', 'extern': 'extern '}[sc]
def coq_sc(sc): return {'none': 'SC_none', 'static': 'SC_static', 'extern': 'SC_extern'}[sc]
def coq_bool(b): return 'true' if b else 'false'
def cname(n): return 'x%d' % n

# ---------------------------------------------------------------- generator
class Gen:
    def __init__(self, rng, allow_bad):
        self.rng = rng; self.allow_bad = allow_bad
    def obj_seq(self, n):
        """a valid declaration sequence of one object"""
        rng = self.rng
        ty = rng.choice(OBJ_TYPES)
        tls = rng.random() < 0.3
        internal = rng.random() < 0.35
        k = rng.choice([1, 1, 2, 2, 3, 4])
        defpos = rng.randrange(k) if rng.random() < 0.4 else None
        shape = rng.random()
        seq = []
        for j in range(k):
            if j == defpos: sc = 'static' if internal else rng.choice(['none', 'none', 'extern']); init = 'const'      # extern int x = 5; is a definition (2049a24)
            else:
                init = None
                if internal: sc = 'static' if (j == 0 or rng.random() < 0.6) else 'extern'
                else:
                    if shape < 0.25: sc = 'extern'                       # declared only
                    else: sc = rng.choice(['none', 'none', 'extern'])
            seq.append(dict(kind='obj', n=n, sc=sc, tls=tls, ty=ty, init=init, alignas=None))
        if rng.random() < 0.25:
            # an alignment specifier on some declarations: not after the first defining one (6.7.5p7), otherwise anywhere
            A = rng.choice([16, 32, 64]); A = max(A, ty[2])
            firstdef = next((j for j, d in enumerate(seq) if d['sc'] != 'extern' or d['init']), len(seq) - 1)
            j0 = rng.randrange(firstdef + 1)
            for j, d in enumerate(seq):
                if j == j0 or (j > j0 and rng.random() < 0.4): d['alignas'] = A
        if self.allow_bad and internal and defpos is None:
            seq.append(dict(kind='obj', n=n, sc='extern', tls=tls, ty=ty, init='const', alignas=None))   # static int x; extern int x = 5;  (known deviation: GLOBAL)
        return seq
    def fun_seq(self, n):
        rng = self.rng
        style = rng.choice(['plain', 'plain', 'static', 'static_inline', 'static_inline', 'inline', 'extern_inline', 'decl_only', 'static_then_plain', 'mixed_inline', 'any_mix', 'any_mix', 'inline_then_other'])
        k = rng.choice([1, 1, 2, 3, 4])
        seq = []
        def fd(sc, inl, body): return dict(kind='fun', n=n, sc=sc, inl=inl, body=body)
        if style == 'decl_only':
            for j in range(k): seq.append(fd(rng.choice(['none', 'extern']), False, False))
            return seq
        defpos = rng.randrange(k)
        for j in range(k):
            b = (j == defpos)
            if style == 'plain': seq.append(fd(rng.choice(['none', 'extern']), False, b))
            elif style == 'static': seq.append(fd('static', False, b))
            elif style == 'static_inline': seq.append(fd('static', True, b))
            elif style == 'inline': seq.append(fd('none', True, b))
            elif style == 'extern_inline': seq.append(fd('extern' if j == 0 else rng.choice(['extern', 'none']), True, b))
            elif style == 'static_then_plain': seq.append(fd('static' if j == 0 else rng.choice(['none', 'extern', 'static']), j > 0 and rng.random() < 0.3, b))
            elif style == 'mixed_inline':
                # first declaration not inline (or extern inline), later ones anything non-static: an external definition
                if j == 0: seq.append(fd(rng.choice(['none', 'extern']), False, b))
                else: seq.append(fd(rng.choice(['none', 'extern']), rng.random() < 0.6, b))
            elif style == 'any_mix':            # every mixture of plain / extern / inline, in any order (85373f4)
                seq.append(fd(rng.choice(['none', 'extern']), rng.random() < 0.6, b))
            elif style == 'inline_then_other':  # the C99 idiom: inline definition first, then `extern inline` or a plain declaration
                seq.append(fd('none', True, b) if j == 0 else fd(rng.choice(['extern', 'none']), rng.random() < 0.5, b))
        return seq
    def unit(self):
        rng = self.rng
        nn = rng.randint(2, 8)
        names = list(range(1, nn + 1))
        seqs = {}
        for n in names:
            seqs[n] = self.fun_seq(n) if rng.random() < 0.45 else self.obj_seq(n)
        if not any(s[0]['kind'] == 'fun' and any(d['body'] for d in s) and not (s[0]['inl'] and s[0]['sc'] != 'extern') for s in seqs.values()):
            n = nn + 1; names.append(n); seqs[n] = [dict(kind='fun', n=n, sc='none', inl=False, body=True)]     # a root
        # interleave, keeping each sequence's order
        pend = {n: list(s) for n, s in seqs.items()}; order = []
        while pend:
            n = rng.choice(list(pend)); order.append(pend[n].pop(0))
            if not pend[n]: del pend[n]
        # fill in bodies and address initializers with names declared so far
        seen = []; kind = {}; tlsof = {}
        for d in order:
            if d['kind'] == 'obj':
                kind[d['n']] = 'obj'; tlsof[d['n']] = d['tls']
                if d['n'] not in seen: seen.append(d['n'])
            else:
                kind[d['n']] = 'fun'
                if d['n'] not in seen: seen.append(d['n'])
                if d['body']:
                    items = []
                    for _ in range(rng.choice([0, 1, 2, 3, 4, 5])):
                        c = rng.random()
                        if c < 0.65 and seen: items.append(('ref', rng.choice(seen)))
                        elif c < 0.85:
                            ty = rng.choice(STATIC_TYPES); tl = rng.random() < 0.25
                            items.append(('static', tl, ty, rng.random() < 0.5))
                        else: items.append(('str', rng.choice([2, 4, 16, 17, 30])))
                    d['items'] = items
        # pointer objects: a separate pass so that the whole sequence has the pointer type
        for n in names:
            s = seqs[n]
            if s[0]['kind'] == 'obj' and rng.random() < 0.25 and not s[0]['tls']:
                defs = [d for d in s if d['init']]
                if len(defs) == 1:
                    pos = order.index(defs[0])
                    before = []
                    for e in order[:pos]:
                        if e['kind'] == 'obj' and not e['tls'] and e['n'] != n and e['n'] not in before: before.append(e['n'])
                    # functions too, static inline ones included (kept by the initializer since /repo f841ff9)
                    if rng.random() < 0.5:
                        before += [e['n'] for e in order[:pos] if e['kind'] == 'fun' and e['n'] not in before]
                    if before:
                        for d in s: d['ty'] = PTR_TYPE; d['alignas'] = None
                        defs[0]['init'] = ('addr', rng.choice(before))
        return order

def boundary_units():
    """hand-written units aimed at the case splits of the proofs"""
    I = OBJ_TYPES[0]; A = OBJ_TYPES[7]; S32 = STATIC_TYPES[-3]; S32A = STATIC_TYPES[-2]
    def o(n, sc, init=None, tls=False, ty=I, al=None): return dict(kind='obj', n=n, sc=sc, tls=tls, ty=ty, init=init, alignas=al)
    def f(n, sc, inl, body, items=()): return dict(kind='fun', n=n, sc=sc, inl=inl, body=body, items=list(items))
    us = []
    us.append([o(1, 'none'), o(1, 'none'), o(2, 'none'), o(2, 'none', 'const'), o(3, 'extern'), o(3, 'none'), o(4, 'extern'),
               f(9, 'none', False, True, [('ref', 1), ('ref', 2), ('ref', 3), ('ref', 4)])])
    us.append([o(1, 'static'), o(1, 'extern'), o(1, 'static', 'const'), o(2, 'static', ty=A), o(3, 'none', ty=A), o(4, 'extern', ty=A),
               f(9, 'none', False, True, [('ref', 1), ('ref', 4)])])
    us.append([o(1, 'none', tls=True), o(1, 'none', tls=True), o(2, 'static', 'const', tls=True), o(3, 'extern', tls=True), o(4, 'extern', tls=True),
               o(5, 'none', 'const', tls=True), f(9, 'none', False, True, [('ref', 1), ('ref', 2), ('ref', 3), ('ref', 5)])])
    us.append([f(1, 'static', True, True), f(2, 'static', True, True, [('ref', 1)]), f(3, 'static', True, True, [('ref', 3)]),
               f(5, 'static', True, False), f(4, 'static', True, True, [('ref', 5)]), f(5, 'static', True, True, [('ref', 4)]),
               f(6, 'none', False, False), f(7, 'extern', False, False), f(9, 'none', False, True, [('ref', 2), ('ref', 6)])])
    us.append([f(1, 'none', True, True), f(2, 'none', True, True), f(3, 'extern', True, True), f(4, 'none', False, False), f(4, 'none', True, True),
               f(5, 'static', False, False), f(5, 'none', True, True), f(6, 'static', False, False), f(6, 'none', False, True),
               f(9, 'none', False, True, [('ref', 1), ('ref', 3), ('ref', 5), ('str', 4), ('static', False, I, False), ('static', False, A, True)])])
    us.append([o(1, 'none', 'const'), o(2, 'none', ('addr', 1), ty=PTR_TYPE), o(3, 'extern'), o(4, 'static', ('addr', 3), ty=PTR_TYPE),
               o(5, 'none', ('addr', 5), ty=PTR_TYPE), f(9, 'static', False, True, [('ref', 4)])])
    us.append([f(1, 'static', True, True), f(2, 'static', True, True), o(3, 'none', ('addr', 1), ty=PTR_TYPE),
               f(4, 'static', True, False), o(5, 'static', ('addr', 4), ty=PTR_TYPE), f(4, 'static', True, True, [('ref', 2)]),
               f(9, 'none', False, True, [('static', True, I, False), ('static', True, A, True), ('static', False, S32, False), ('static', True, S32A, True)])])
    us.append([f(1, 'none', False, False), f(2, 'static', False, True), f(3, 'static', True, True), o(4, 'none', ('addr', 1), ty=PTR_TYPE),
               o(5, 'static', ('addr', 2), ty=PTR_TYPE), f(6, 'extern', True, True, [('ref', 3)]), o(7, 'none', ('addr', 6), ty=PTR_TYPE),
               f(1, 'none', False, True, [('ref', 5)])])
    us.append([o(1, 'extern', 'const'), o(2, 'none'), o(2, 'extern', 'const'), o(3, 'extern', 'const', tls=True), o(4, 'extern'), o(4, 'extern', 'const'), o(4, 'extern'),
               f(5, 'none', True, True), f(5, 'extern', True, False), f(6, 'none', True, False), f(6, 'none', False, True), f(7, 'none', True, True),
               f(8, 'extern', True, False), f(8, 'none', True, True), f(10, 'none', True, False), f(10, 'none', True, True), f(10, 'extern', False, False),
               f(11, 'static', True, True, [('static', False, I, False), ('static', True, I, True), ('str', 4)]),
               f(12, 'static', True, True, [('static', False, A, True), ('ref', 12)]),
               f(9, 'none', False, True, [('ref', 12), ('ref', 7), ('ref', 1), ('static', False, I, True)])])
    us.append([o(1, 'none', al=64), o(1, 'none'), o(2, 'none', al=64), o(2, 'none', 'const'), o(3, 'extern'), o(3, 'none', 'const', al=64),
               o(4, 'extern', al=64), o(4, 'none'), o(5, 'static', al=32, tls=True), o(5, 'extern', tls=True), o(5, 'static', tls=True),
               o(6, 'none', al=16, ty=A), o(6, 'none', ty=A), o(7, 'extern', al=64), f(9, 'none', False, True, [('ref', 7), ('ref', 5)])])
    return us

def render(order):
    lines = []
    for d in order:
        nm = cname(d['n'])
        if d['kind'] == 'obj':
            t = d['ty'][0] % nm
            q = sc_word(d['sc']) + ('_Thread_local ' if d['tls'] else '') + ('_Alignas(%d) ' % d['alignas'] if d.get('alignas') else '')
            if d['init'] is None: lines.append('%s%s;' % (q, t))
            elif d['init'] == 'const': lines.append('%s%s = %s;' % (q, t, d['ty'][4]))
            else: lines.append('%s%s = &%s;' % (q, t, cname(d['init'][1])))
        else:
            q = sc_word(d['sc']) + ('inline ' if d['inl'] else '')
            if not d['body']: lines.append('%slong %s(void);' % (q, nm))
            else:
                b = ['long r = 0;']; c = 0
                for it in d.get('items', []):
                    if it[0] == 'ref': b.append('r = r + (long)&%s;' % cname(it[1]))
                    elif it[0] == 'static':
                        _, tl, ty, hi = it; c += 1; ln = 'l%d' % c
                        b.append('static %s%s%s; r = r + (long)&%s;' % ('_Thread_local ' if tl else '', ty[0] % ln, (' = ' + ty[4]) if hi else '', ln))
                    else: b.append('r = r + (long)"%s";' % ('s' * (it[1] - 1)))
                b.append('return r;')
                lines.append('%slong %s(void) { %s }' % (q, nm, ' '.join(b)))
    return '\n'.join(lines) + '\n'

def to_coq(order):
    out = []
    for d in order:
        if d['kind'] == 'obj':
            i = 'INone' if d['init'] is None else 'IConst' if d['init'] == 'const' else '(IAddr %d%%nat)' % d['init'][1]
            out.append('DObj %d%%nat (mkOD %s %s %d %d %s %s %s)' % (d['n'], coq_sc(d['sc']), coq_bool(d['tls']), d['ty'][1], d['ty'][2], ('(Some %d)' % d['alignas']) if d.get('alignas') else 'None', coq_bool(d['ty'][3]), i))
        else:
            if not d['body']: b = 'None'
            else:
                its = []
                for it in d.get('items', []):
                    if it[0] == 'ref': its.append('BRef %d%%nat' % it[1])
                    elif it[0] == 'static': its.append('BStatic %s %d %d %s %s' % (coq_bool(it[1]), it[2][1], it[2][2], coq_bool(it[2][3]), coq_bool(it[3])))
                    else: its.append('BString %d' % it[1])
                b = '(Some [%s])' % '; '.join(its)
            out.append('DFun %d%%nat %s %s %d %s' % (d['n'], coq_sc(d['sc']), coq_bool(d['inl']), len(cname(d['n'])) + 1, b))
    return '[' + '; '.join(out) + ']'

# ---------------------------------------------------------------- a parser for the terms coqc prints
TOK = re.compile(r'\s*(\(|\)|\[|\]|;|,|[A-Za-z_][A-Za-z_0-9\']*|-?\d+)')
def parse_term(s):
    s = s.replace('%nat', '').replace('%Z', '')
    toks = TOK.findall(s); pos = [0]
    def atom():
        t = toks[pos[0]]
        if t == '(':
            pos[0] += 1; items = [app()]
            while toks[pos[0]] == ',': pos[0] += 1; items.append(app())
            assert toks[pos[0]] == ')', toks[pos[0]]; pos[0] += 1
            return items[0] if len(items) == 1 else tuple(items)
        if t == '[':
            pos[0] += 1; items = []
            if toks[pos[0]] != ']':
                items.append(app())
                while toks[pos[0]] == ';': pos[0] += 1; items.append(app())
            assert toks[pos[0]] == ']'; pos[0] += 1
            return items
        pos[0] += 1
        return int(t) if re.fullmatch(r'-?\d+', t) else t
    def app():
        parts = [atom()]
        while pos[0] < len(toks) and toks[pos[0]] not in (')', ']', ';', ','): parts.append(atom())
        return parts[0] if len(parts) == 1 else ('@',) + tuple(parts)
    r = app(); assert pos[0] == len(toks)
    return r

def flat_tuple(t):
    """Coq prints (a, b, c) for ((a, b), c): already flat in the text"""
    return t

COQ_HEADER = r'''From Coq Require Import List Bool Arith ZArith.
From Chibicc Require Import Model.Linkage Spec.LinkSpec Model.Emit.
Import ListNotations.
Open Scope Z_scope.
Set Printing Width 100000.
Set Printing Depth 100000.
Definition enc_e (e : entry) := (e_bind e, e_type e, e_place e, e_size e, e_align e).
Definition enc_l (r : lookup_result) := match r with Absent => (0, None) | Present e => (1, Some (enc_e e)) | Clash => (2, None) end.
Definition enc_a (a : anon_obj) := (a_place a, a_size a, a_align a).
Definition all_opts := [mkOpts true false; mkOpts true true; mkOpts false false; mkOpts false true].
Definition run (ds : list decl) :=
  let names := declared_names ds in
  let live := closure_live ds in
  (valid ds, no_known_bad ds,
   map (fun o => let prog := parse_flags ds in let asmtext := emit o prog in
                 (map (fun n => (n, option_map enc_e (spec_entry live ds o n), enc_l (symtab_of asmtext n))) names,
                  asmtext, map enc_a (anon_placements asmtext))) all_opts,
   map enc_a (spec_anon live ds),
   forallb (fun n => Bool.eqb (live n) (model_live (ps_globals (parse ds)) n)) (fun_names ds)).
'''

def coq_eval(cases, verif_dir):
    tmp = tempfile.mkdtemp(prefix='tie_emit_coq_')
    try:
        with open(os.path.join(tmp, 'Cases_emit.v'), 'w') as f:
            f.write(COQ_HEADER)
            for i, c in enumerate(cases):
                f.write('Definition c%d : list decl := %s.\nEval vm_compute in run c%d.\n' % (i, to_coq(c), i))
        p = subprocess.run(['coqc', '-Q', os.path.join(verif_dir, 'coq/theories'), 'Chibicc', 'Cases_emit.v'], cwd=tmp, capture_output=True, text=True, timeout=600)
        if p.returncode != 0: raise RuntimeError('coqc failed: ' + p.stderr[-2000:])
        res = []
        for blk in re.split(r'\n(?=\s*= )', '\n' + p.stdout):
            m = re.match(r'\s*= (.*?)\n\s*: ', blk + '\n', re.S)
            if m: res.append(parse_term(m.group(1)))
        if len(res) != len(cases): raise RuntimeError('coqc printed %d results for %d cases' % (len(res), len(cases)))
        return res
    finally:
        shutil.rmtree(tmp, ignore_errors=True)

# ---------------------------------------------------------------- reading object files and assembly text
PLACE_OF_SECTION = {'.text': 'P_text', '.data': 'P_data', '.bss': 'P_bss', '.tdata': 'P_tdata', '.tbss': 'P_tbss'}
def read_symtab(objfile):
    """name -> (bind, type, place, size, value)"""
    secs = {}
    o = subprocess.run(['readelf', '-SsW', objfile], capture_output=True, text=True).stdout
    for m in re.finditer(r'^\s*\[\s*(\d+)\]\s+(\S+)', o, re.M): secs[m.group(1)] = m.group(2)
    tab = {}
    for l in o.split('\n'):
        p = l.split()
        if len(p) == 8 and p[0].endswith(':') and p[0][:-1].isdigit() and p[4] in ('GLOBAL', 'LOCAL', 'WEAK'):
            val, size, typ, bind, ndx, name = int(p[1], 16), int(p[2], 0), p[3], p[4], p[6], p[7]
            place = 'P_undef' if ndx == 'UND' else 'P_common' if ndx == 'COM' else PLACE_OF_SECTION.get(secs.get(ndx, '?'), secs.get(ndx, '?'))
            tab[name] = ({'GLOBAL': 'B_global', 'LOCAL': 'B_local'}.get(bind, bind),
                         {'NOTYPE': 'T_notype', 'OBJECT': 'T_object', 'FUNC': 'T_func', 'TLS': 'T_tls'}.get(typ, typ), place, size, val)
    return tab

def entry_matches(exp, got, check_size=True, at_least=False):
    """exp: (bind, type, place, size option, align option) as parsed from Coq or None; got: read_symtab tuple or None"""
    if exp is None: return got is None
    if got is None: return False
    b, t, p, sz, al = exp
    if (b, t, p) != got[:3]: return False
    if check_size and sz != 'None' and sz[2] != got[3] and t != 'T_func': return False
    if al != 'None':
        a = al[2]
        if p == 'P_common': return got[4] >= a if at_least else got[4] == a
        if got[4] % a != 0: return False
    return True

def show_entry(e):
    if e is None: return None
    b, t, p, sz, al = e
    return [b, t, p, None if sz == 'None' else sz[2], None if al == 'None' else al[2]]

def asm_skeleton(text):
    """the -S text as the model's directive list (D_code dropped, .byte runs counted)"""
    out = []; nbytes = 0
    def ident(s):
        m = re.fullmatch(r'\.L\.\.(\d+)', s)
        if m: return ('@', 'Anon', int(m.group(1)))
        m = re.fullmatch(r'x(\d+)', s)
        if m: return ('@', 'User', int(m.group(1)))
        return s
    def flush():
        nonlocal nbytes
        if nbytes: out.append(('@', 'D_bytes', nbytes)); nbytes = 0
    for l in text.split('\n'):
        l = l.strip()
        if not l: continue
        m = re.fullmatch(r'\.byte -?\d+', l)
        if m: nbytes += 1; continue
        flush()
        if l.startswith('.file ') or l.startswith('.loc '): continue
        m = re.fullmatch(r'\.(globl|local) (\S+)', l)
        if m: out.append(('@', 'D_' + m.group(1), ident(m.group(2)))); continue
        m = re.fullmatch(r'\.comm (\S+), (\d+), (\d+)', l)
        if m: out.append(('@', 'D_comm', ident(m.group(1)), int(m.group(2)), int(m.group(3)))); continue
        if l == '.data': out.append(('@', 'D_section', 'P_data')); continue
        if l == '.bss': out.append(('@', 'D_section', 'P_bss')); continue
        if l == '.text': out.append(('@', 'D_section', 'P_text')); continue
        if l == '.section .tdata,"awT",@progbits': out.append(('@', 'D_section', 'P_tdata')); continue
        if l == '.section .tbss,"awT",@nobits': out.append(('@', 'D_section', 'P_tbss')); continue
        m = re.fullmatch(r'\.type (\S+), @(object|function)', l)
        if m: out.append(('@', 'D_type', ident(m.group(1)), 'T_object' if m.group(2) == 'object' else 'T_func')); continue
        m = re.fullmatch(r'\.size (\S+), (\d+)', l)
        if m: out.append(('@', 'D_size', ident(m.group(1)), int(m.group(2)))); continue
        m = re.fullmatch(r'\.align (\d+)', l)
        if m: out.append(('@', 'D_align', int(m.group(1)))); continue
        m = re.fullmatch(r'\.zero (\d+)', l)
        if m: out.append(('@', 'D_zero', int(m.group(1)))); continue
        m = re.fullmatch(r'\.quad (\S+?)\+0', l)
        if m: out.append(('@', 'D_quad', ident(m.group(1)))); continue
        m = re.fullmatch(r'(\S+):', l)
        if m:
            if re.fullmatch(r'\.L\.[a-z]\S*', m.group(1)): continue            # code labels .L.return.f, .L.else.3
            out.append(('@', 'D_label', ident(m.group(1)))); continue
        m = re.fullmatch(r'data16 lea (\S+)@tlsgd\(%rip\), %rdi', l)
        if m: out.append(('@', 'D_insn', ('@', 'I_tlsgd', ident(m.group(1))))); continue
        if l == '.value 0x6666': out.append(('@', 'D_insn', 'I_value6666')); continue
        if l == 'rex64': out.append(('@', 'D_insn', 'I_rex64')); continue
        if l == 'call __tls_get_addr@PLT': out.append(('@', 'D_insn', 'I_call_tls_get_addr')); continue
        m = re.fullmatch(r'mov (\S+)@GOTPCREL\(%rip\), %rax', l)
        if m: out.append(('@', 'D_insn', ('@', 'I_mov_got', ident(m.group(1))))); continue
        if l == 'mov %fs:0, %rax': out.append(('@', 'D_insn', 'I_mov_fs0')); continue
        m = re.fullmatch(r'add \$(\S+)@tpoff, %rax', l)
        if m: out.append(('@', 'D_insn', ('@', 'I_add_tpoff', ident(m.group(1))))); continue
        m = re.fullmatch(r'lea (\S+)\(%rip\), %rax', l)
        if m: out.append(('@', 'D_insn', ('@', 'I_lea_rip', ident(m.group(1))))); continue
        if l.startswith('.'): out.append(('?', l)); continue                  # a directive the model does not know
        if re.search(r'[@]|\(%rip\)', l): out.append(('?', l)); continue         # a symbol reference the model does not know
    flush()
    return out

def anon_from_text(skel):
    """(place, size, align) of the .L..N objects, oldest (smallest N) first"""
    res = {}; sec = None; al = 1; sizes = {}
    for d in skel:
        if d[0] != '@': continue
        if d[1] == 'D_section': sec = d[2]; al = None
        elif d[1] == 'D_align': al = d[2]
        elif d[1] == 'D_size': sizes[d[2]] = d[3]
        elif d[1] == 'D_label':
            if isinstance(d[2], tuple) and d[2][1] == 'Anon': res[d[2][2]] = (sec, sizes.get(d[2], 0), al if al is not None else 1)
            al = None
    return [res[k] for k in sorted(res)]

def features(order):
    f = set()
    per = {}
    for d in order: per.setdefault(d['n'], []).append(d)
    for n, s in per.items():
        if s[0]['kind'] == 'obj':
            cls = ('tls-' if s[0]['tls'] else '') + ('static' if s[0]['sc'] == 'static' else 'ext')
            if any(d['init'] for d in s): cls += '-def'
            elif any(d['sc'] != 'extern' for d in s): cls += '-tent'
            else: cls += '-declonly'
            if len(s) > 1: cls += '-redecl'
            if any(d.get('alignas') for d in s): cls += '-alignas' + ('' if all(d.get('alignas') for d in s) else '-partial')
            if any(isinstance(d['init'], tuple) for d in s): cls += '-addr' + ('-of-function' if any(isinstance(d['init'], tuple) and per[d['init'][1]][0]['kind'] == 'fun' for d in s) else '')
            f.add('obj:' + cls)
        else:
            cls = s[0]['sc'] + ('-inline' if s[0]['inl'] else '')
            if len(s) > 1: cls += '-redecl' + ('-mixed' if len(set((d['sc'], d['inl']) for d in s)) > 1 else '')
            if not any(d['body'] for d in s): cls += '-declonly'
            f.add('fun:' + cls)
            for d in s:
                for it in d.get('items', []): f.add('body:' + it[0] + ('-tls' if it[0] == 'static' and it[1] else ''))
    return f

# ---------------------------------------------------------------- the run
def run(src_dir, seed=1, n=60, verif_dir=None):
    t0 = time.time()
    if verif_dir is None: verif_dir = os.path.dirname(os.path.dirname(os.path.abspath(__file__)))
    chibicc = os.path.join(os.path.abspath(src_dir), 'chibicc')
    rng = random.Random(seed)
    cases = boundary_units()
    while len(cases) < n:
        cases.append(Gen(rng, allow_bad=(rng.random() < 0.12)).unit())
    coq = coq_eval(cases, verif_dir)
    have_gcc = shutil.which('gcc') is not None
    tmp = tempfile.mkdtemp(prefix='tie_emit_')
    res = {'evaluations': 0, 'distinct_nontrivial': 0, 'distribution': {}, 'impl_vs_spec': [], 'impl_vs_model': [], 'spec_vs_reference': [],
           'known_findings': [], 'samples': [], 'invalid_generated': 0, 'closure_live_disagrees_with_model_live': 0}
    seen_canon = set(); dist = {}
    try:
        for ci, (order, cr) in enumerate(zip(cases, coq)):
            src = render(order)
            valid, nkb, per_opt, spec_anon, live_agree = cr
            if valid != 'true':
                res['invalid_generated'] += 1; continue
            known = (nkb != 'true')
            if live_agree != 'true' and not known: res['closure_live_disagrees_with_model_live'] += 1
            cfile = os.path.join(tmp, 'c%d.c' % ci)
            with open(cfile, 'w') as f: f.write(src)
            feats = features(order)
            for ft in feats: dist[ft] = dist.get(ft, 0) + 1
            canon = to_coq(order)
            if canon not in seen_canon and len(feats) > 1: seen_canon.add(canon); res['distinct_nontrivial'] += 1
            sample = {'case': src, 'results': {}}
            for oi, (fc, pic) in enumerate(OPTS):
                flags = [fc] + (['-fPIC'] if pic else [])
                oname = ' '.join(flags)
                rows, model_text, model_anon = per_opt[oi]
                obj = os.path.join(tmp, 'c%d_%d.o' % (ci, oi)); asm = os.path.join(tmp, 'c%d_%d.s' % (ci, oi))
                p1 = subprocess.run([chibicc] + flags + ['-c', cfile, '-o', obj], capture_output=True, text=True)
                p2 = subprocess.run([chibicc] + flags + ['-S', cfile, '-o', asm], capture_output=True, text=True)
                res['evaluations'] += 1
                bucket_spec = res['known_findings'] if known else res['impl_vs_spec']
                if p1.returncode != 0 or p2.returncode != 0:
                    bucket_spec.append({'case': src, 'opts': oname, 'impl': 'chibicc failed: ' + (p1.stderr + p2.stderr)[-300:], 'spec': 'a valid unit compiles'}); continue
                tab = read_symtab(obj)
                skel = asm_skeleton(open(asm).read())
                # symbol table: impl vs spec, impl vs model of as
                shown = {}
                for (n_, spec_e, model_e) in rows:
                    nm = cname(n_); got = tab.get(nm)
                    spec_t = None if spec_e == 'None' else spec_e[2]
                    model_t = None if model_e[0] == 0 else ('Clash' if model_e[0] == 2 else model_e[1][2])
                    shown[nm] = list(got[:4]) if got else None
                    if not entry_matches(spec_t, got):
                        bucket_spec.append({'case': src, 'opts': oname, 'symbol': nm, 'impl': list(got) if got else None, 'spec': show_entry(spec_t)})
                    if model_t == 'Clash' or not entry_matches(model_t, got):
                        res['impl_vs_model'].append({'case': src, 'opts': oname, 'symbol': nm, 'impl': list(got) if got else None,
                                                     'model': 'Clash' if model_t == 'Clash' else show_entry(model_t), 'what': 'symtab_of'})
                # no other user-visible symbol may appear
                for nm in tab:
                    if re.fullmatch(r'x\d+', nm) and int(nm[1:]) not in [r[0] for r in rows]:
                        bucket_spec.append({'case': src, 'opts': oname, 'symbol': nm, 'impl': list(tab[nm]), 'spec': 'not declared'})
                    if nm.startswith('.L') and not pic and tab[nm][1] != 'T_tls':   # (as keeps the .L..N that a GOTPCREL or TLS relocation names)
                        res['impl_vs_model'].append({'case': src, 'opts': oname, 'symbol': nm, 'impl': list(tab[nm]), 'model': 'labels .L are not kept', 'what': 'symtab_of'})
                # directive skeleton: impl vs model
                mt = [d for d in model_text if d != 'D_code' and d != ('@', 'D_bytes', 0)]
                if skel != mt:
                    k = 0
                    while k < min(len(skel), len(mt)) and skel[k] == mt[k]: k += 1
                    res['impl_vs_model'].append({'case': src, 'opts': oname, 'what': 'directive skeleton differs at position %d' % k,
                                                 'impl': repr(skel[k:k + 4]), 'model': repr(mt[k:k + 4])})
                # anonymous objects: impl vs spec
                got_anon = anon_from_text(skel)
                if [tuple(a) for a in got_anon] != [tuple(a) for a in spec_anon]:
                    bucket_spec.append({'case': src, 'opts': oname, 'symbol': '(anonymous objects)', 'impl': got_anon, 'spec': spec_anon})
                if [tuple(a) for a in got_anon] != [tuple(a) for a in model_anon]:
                    res['impl_vs_model'].append({'case': src, 'opts': oname, 'what': 'anon_placements', 'impl': got_anon, 'model': model_anon})
                sample['results'][oname] = shown
                # reference
                if have_gcc and not pic and (oi // 2) == (ci % 2):      # one gcc run per case: -fcommon for even, -fno-common for odd cases
                    gobj = os.path.join(tmp, 'g%d_%d.o' % (ci, oi))
                    pg = subprocess.run(['gcc', '-std=gnu11', '-w', '-O0', fc, '-fno-pic', '-c', cfile, '-o', gobj], capture_output=True, text=True)
                    if pg.returncode != 0:
                        res['spec_vs_reference'].append({'case': src, 'opts': oname, 'reference': 'gcc rejects: ' + pg.stderr[-200:], 'spec': 'valid'})
                    else:
                        gtab = read_symtab(gobj)
                        for (n_, spec_e, model_e) in rows:
                            nm = cname(n_); got = gtab.get(nm); spec_t = None if spec_e == 'None' else spec_e[2]
                            if not entry_matches(spec_t, got, check_size=True, at_least=True):
                                res['spec_vs_reference'].append({'case': src, 'opts': oname, 'symbol': nm, 'reference': list(got) if got else None, 'spec': show_entry(spec_t)})
            if len(res['samples']) < 4: res['samples'].append(sample)
    finally:
        shutil.rmtree(tmp, ignore_errors=True)
    res['distribution'] = dict(sorted(dist.items()))
    # summarise the reference disagreements by kind instead of listing hundreds
    summ = {}
    for r in res['spec_vs_reference']:
        key = '%s vs %s' % (r.get('reference') if not isinstance(r.get('reference'), list) else r['reference'][:3], r['spec'][:3] if isinstance(r['spec'], list) else r['spec'])
        summ.setdefault(key, {'count': 0, 'example': r}); summ[key]['count'] += 1
    res['spec_vs_reference'] = [{'kind': k, 'count': v['count'], 'example': v['example']} for k, v in sorted(summ.items())]
    ksum = {}
    for r in res['known_findings']:
        key = '%s: impl %s, spec %s' % (r.get('symbol'), (r['impl'][:3] if isinstance(r['impl'], list) and r['impl'] and not isinstance(r['impl'][0], (list, tuple)) else 'differs' if r['impl'] else None), (r['spec'][:3] if isinstance(r['spec'], list) and r['spec'] and not isinstance(r['spec'][0], (list, tuple)) else r['spec'] if not isinstance(r['spec'], list) else 'differs'))
        key = re.sub(r'x\d+', 'xN', key)
        ksum.setdefault(key, {'count': 0, 'example': r}); ksum[key]['count'] += 1
    res['known_findings'] = [{'kind': k, 'count': v['count'], 'example': v['example']} for k, v in sorted(ksum.items())]
    res['seconds'] = round(time.time() - t0, 1)
    return res

if __name__ == '__main__':
    if len(sys.argv) < 2:
        print(__doc__); sys.exit(2)
    src = sys.argv[1]; seed = int(sys.argv[2]) if len(sys.argv) > 2 else 1; n = int(sys.argv[3]) if len(sys.argv) > 3 else 60
    vd = os.environ.get('VERIF_DIR') or os.path.dirname(os.path.dirname(os.path.abspath(__file__)))
    r = run(src, seed, n, vd)
    print(json.dumps(r, indent=1, default=str))
    sys.exit(1 if (r['impl_vs_spec'] or r['impl_vs_model']) else 0)
