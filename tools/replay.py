#!/usr/bin/env python3
"""./check <ID> --replay <path>: re-materialise the input recorded in a replay file, rebuild /repo's
   current tree and show what the implementation does on it next to what the replay recorded.
   (The verdict itself is always the check's; this is a convenience for looking at one failing input.)"""
import os, sys, json
sys.path.insert(0, os.path.dirname(os.path.abspath(__file__)))
from vlib import *

def main():
    pid, path = sys.argv[1], sys.argv[2]
    d = json.load(open(path))
    print('replay of %s for %s' % (path, pid))
    for k, v in d.items():
        if k in ('files', 'program', 'file_bytes_latin1', 'e_output'): continue
        print('  %-28s %s' % (k, json.dumps(v)[:600]))
    if 'proof_obligations_broken' in d or 'correspondence_broken' in d:
        print('no concrete input: the listed theorem / correspondence no longer checks; re-run ./check %s quick' % pid)
        return 0
    wd = scratch_dir('chibicc-replay-')
    main_file = None
    if 'files' in d and isinstance(d['files'], dict):
        for n, t in d['files'].items():
            open(os.path.join(wd, os.path.basename(n)), 'wb').write(t.encode('latin-1'))
        main_file = 'main.c' if 'main.c' in d['files'] else sorted(d['files'])[0]
    elif 'file_bytes_latin1' in d:
        open(os.path.join(wd, 'input.c'), 'wb').write(d['file_bytes_latin1'].encode('latin-1')); main_file = 'input.c'
    elif isinstance(d.get('program'), str):
        open(os.path.join(wd, 'prog.c'), 'w').write(d['program']); main_file = 'prog.c'
    if not main_file:
        print('this replay carries no source text; see the fields above'); return 0
    src = build_impl()
    chibi = os.path.join(src, 'chibicc')
    print('--- input materialised in %s (removed on exit), main file %s' % (wd, main_file))
    for args in (['-E'], ['-S', '-o', '-'], ['-o', 'prog']):
        rc, out, err = sh([chibi] + args + [main_file], cwd=wd, timeout=60)
        print('--- chibicc %s %s -> exit %d' % (' '.join(args), main_file, rc))
        print((out[-1500:] if args[0] != '-S' else '\n'.join(l for l in out.split('\n') if '.loc' in l or '.file' in l)[-800:]) + err[-600:])
    if os.path.exists(os.path.join(wd, 'prog')):
        rc, out, err = sh(['./prog'], cwd=wd, timeout=20)
        print('--- ./prog -> exit %d\n%s' % (rc, out[-1500:]))
    return 0

if __name__ == '__main__':
    sys.exit(main())
