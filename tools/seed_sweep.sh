#!/bin/bash
# seed_sweep.sh [seeds...]: run every check's quick tier under several seeds (and thorough once) on the unchanged tree; prints only failures
cd "$(dirname "$0")/.."
[ -n "$VP_RUN_REPO" ] && export VERIF_REPO="$VP_RUN_REPO"     # vp run --with-repo: use the snapshot, leave /repo free
[ -x ocaml/modelrun ] || ./setup.sh >/dev/null 2>&1
ids=$(python3 -c "import json; print(' '.join(c['property_id'] for c in json.load(open('MANIFEST.json'))['checks']))")
fail=0
for s in ${@:-2 3 4 5 6 7}; do
  for id in $ids; do
    out=$(VERIF_SEED=$s ./check $id quick 2>&1); r=$?
    if [ $r != 0 ] || echo "$out" | grep -q '^VIOLATION'; then echo "FAIL seed=$s $id quick"; echo "$out" | grep -v KNOWN | tail -3; mkdir -p sweep_fail; cp -r replays/$id sweep_fail/${id}_s$s 2>/dev/null; fail=1; fi
  done
  echo "seed $s done"
done
for id in $ids; do
  out=$(VERIF_SEED=1 ./check $id thorough 2>&1); r=$?
  if [ $r != 0 ] || echo "$out" | grep -q '^VIOLATION'; then echo "FAIL seed=1 $id thorough"; echo "$out" | grep -v KNOWN | tail -3; mkdir -p sweep_fail; cp -r replays/$id sweep_fail/${id}_thorough 2>/dev/null; fail=1; fi
done
echo "sweep finished fail=$fail"
