#!/usr/bin/env python3
"""C03 / package sw: tie of Spec/SwSem.v (structured semantics of switch / case / default / break /
continue / labels / goto) and Model/LoweringSw.v (gen_stmt's jump code) to the real chibicc.

  run(src_dir, seed, n, verif_dir) -> dict     (see /tmp/pw/COMMON.md, deliverable 3)

Every case is a statement tree of the language of SwSem.v together with a list of oracle values.
As C it is   void f(void) { <statement> }   where a marker is M(n) (prints n), a condition is E(k)
the controlling expression of a switch is V(k) and the index of a computed goto  goto *T[G(k)]  is G(k)
(all three print k and return the next value of a global array; when the array is used up they print X
and exit); T is a static table of label addresses &&l.
  impl            : chibicc compiles the program; (1) the trace printed by the executable,
                    (2) the jump skeleton of f in the -S text: calls of M / E / V with their
                    constant argument, cmp/je/jne/jmp, labels resolved to skeleton positions
  spec  (Coq)     : srun - the structured semantics - on the same tree and oracle; and crun, the continuation
                    semantics of Spec/SwCont.v, which must give the same
  model (Coq)     : sprogram (= sgen with chibicc's label tables) and smrun, the jump machine on it
  impl_vs_spec    : printed trace <> trace of srun; or chibicc accepts the program and svalid_fn (the placement
                    constraints of 6.8.6 / 6.8.4.2) does not, or the other way round
  impl_vs_model   : skeleton <> sprogram, or printed trace <> trace of smrun on sprogram, or the labelled code
                    (label definitions and jumps with chibicc's label names, .L..N and .L.else/.L.end/.L.begin.N
                    renumbered by rank among the names of each counter defined in f) <> pfunction (Model/LoweringSwParse.v);
                    or chibicc rejects the program and pfunction does not, or the other way round
"""
import json, os, random, re, shutil, subprocess, sys, tempfile
from concurrent.futures import ThreadPoolExecutor

NORACLE = 120          # oracle values per case
SPEC_FUEL = 3000       # fuel of srun (depth + iterations + gotos; a run consumes at most NORACLE values)
MACH_FUEL = '(200 * 200)'

# ---------------------------------------------------------------- statement trees
# ('M',n) ('K',) ('Q',a,b) ('I',k,a,b) ('F',init,k|None,inc,body) ('D',body,k) ('B',) ('C',)
# ('W',k,body) ('A',c,s) ('U',s) ('L',l,s) ('G',l) ('X',k,[l0..l8])

def coq(s):
    t = s[0]
    nl = lambda l: '[' + '; '.join(map(str, l)) + ']'
    if t == 'M': return '(SMark %d)' % s[1]
    if t == 'K': return 'SSkip'
    if t == 'Q': return '(SSeq %s %s)' % (coq(s[1]), coq(s[2]))
    if t == 'I': return '(SIf %d %s %s)' % (s[1], coq(s[2]), coq(s[3]))
    if t == 'F': return '(SFor %s %s %s %s)' % (nl(s[1]), '(Some %d)' % s[2] if s[2] is not None else 'None', nl(s[3]), coq(s[4]))
    if t == 'D': return '(SDo %s %d)' % (coq(s[1]), s[2])
    if t == 'B': return 'SBreak'
    if t == 'C': return 'SContinue'
    if t == 'W': return '(SSwitch %d %s)' % (s[1], coq(s[2]))
    if t == 'A': return '(SCase %d %s)' % (s[1], coq(s[2]))
    if t == 'U': return '(SDefault %s)' % coq(s[1])
    if t == 'L': return '(SLabel %d %s)' % (s[1], coq(s[2]))
    if t == 'G': return '(SGoto %d)' % s[1]
    if t == 'X': return '(SGotoInd %d %s)' % (s[1], nl(s[2]))
    raise ValueError(s)

def ctext(s):
    t = s[0]
    ml = lambda l: ', '.join('M(%d)' % x for x in l)
    if t == 'M': return 'M(%d);' % s[1]
    if t == 'K': return ';'
    if t == 'Q': return '{ %s %s }' % (cseq(s[1]), cseq(s[2]))
    if t == 'I':
        if s[3] == ('K',): return 'if (E(%d)) %s' % (s[1], cguard(s[2]))
        return 'if (E(%d)) %s else %s' % (s[1], cguard(s[2]), ctext(s[3]))
    if t == 'F':
        if not s[1] and not s[3] and s[2] is not None: return 'while (E(%d)) %s' % (s[2], ctext(s[4]))
        return 'for (%s; %s; %s) %s' % (ml(s[1]), 'E(%d)' % s[2] if s[2] is not None else '', ml(s[3]), ctext(s[4]))
    if t == 'D': return 'do %s while (E(%d));' % (ctext(s[1]), s[2])
    if t == 'B': return 'break;'
    if t == 'C': return 'continue;'
    if t == 'W': return 'switch (V(%d)) %s' % (s[1], ctext(s[2]))
    if t == 'A': return 'case %d: %s' % (s[1], ctext(s[2]))
    if t == 'U': return 'default: %s' % ctext(s[1])
    if t == 'L': return 'l%d: %s' % (s[1], ctext(s[2]))
    if t == 'G': return 'goto l%d;' % s[1]
    if t == 'X': return '{ static void *T%d[] = {%s}; goto *T%d[G(%d)]; }' % (s[1], ', '.join('&&l%d' % x for x in s[2]), s[1], s[1])
    raise ValueError(s)

def cseq(s):
    """the members of a block without their own braces (same tree: ND_BLOCK is flattened by gen_stmt)"""
    if s[0] == 'Q': return '%s %s' % (cseq(s[1]), cseq(s[2]))
    return ctext(s)

def cguard(s):
    """then-branch: braces when an inner if without else would capture the else"""
    return '{ %s }' % cseq(s)

def walk(s):
    yield s
    for x in s[1:]:
        if isinstance(x, tuple) and x and isinstance(x[0], str): yield from walk(x)


class Gen:
    def __init__(self, rng):
        self.rng = rng; self.m = 0; self.labels = []; self.nlab = 0; self.order = 0
        self.gotos = []          # [text index, guarded?, slot, ctx] resolved afterwards
        self.feat = set()
    def mk(self): self.m += 1; return self.m
    def marks(self): return [self.mk() for _ in range(self.rng.choice([0, 0, 1, 1, 2]))]

    def stmt(self, d, loop, sw, brk, ctx):
        """loop: inside a loop (continue allowed); sw: the innermost switch {'vals': set, 'default': bool} or None (its labels
        may be placed here); brk: what a break binds to ('loop' / 'switch' / None); ctx: constructs entered since the innermost
        switch ('i' if, 'l' loop) and, before a '|', since the function body"""
        rng = self.rng
        self.order += 1
        inner = ctx.split('|')[-1]
        if sw is not None and rng.random() < 0.38:
            if not sw['default'] and rng.random() < 0.25:
                sw['default'] = True
                if inner: self.feat.add('default-inside-' + {'i': 'if', 'l': 'loop'}[inner[-1]])
                return ('U', self.stmt(d, loop, sw, brk, ctx))
            free = [x for x in range(0, 9) if x not in sw['vals']]
            if free:
                c = rng.choice(free); sw['vals'].add(c)
                if inner: self.feat.add('case-inside-' + {'i': 'if', 'l': 'loop'}[inner[-1]])
                return ('A', c, self.stmt(d, loop, sw, brk, ctx))
        if rng.random() < 0.09:
            self.nlab += 1; l = self.nlab; self.labels.append((l, self.order, ctx))
            return ('L', l, self.stmt(d, loop, sw, brk, ctx))
        if d <= 0 or rng.random() < 0.18:
            q = rng.random()
            if brk and q < 0.22: self.feat.add('break-binds-' + brk); return ('B',)
            if loop and q < 0.36:
                if brk == 'switch': self.feat.add('continue-through-switch')
                return ('C',)
            if q < 0.56:
                slot = ['G', None]; guard = rng.random() < 0.6
                self.gotos.append([self.order, guard, slot, ctx])
                if guard: return ('I', self.mk(), slot, ('K',))
                return slot
            if q < 0.62: return ('K',)
            if q < 0.70:
                slot = ['X', self.mk(), None]; self.gotos.append([self.order, True, slot, ctx]); return slot
            return ('M', self.mk())
        r = rng.random()
        if r < 0.28:
            a = self.stmt(d - 1, loop, sw, brk, ctx); b = self.stmt(d - 1, loop, sw, brk, ctx)
            if rng.random() < 0.4: return ('Q', a, ('Q', b, self.stmt(d - 1, loop, sw, brk, ctx)))
            return ('Q', a, b)
        if r < 0.46:
            k = self.mk(); a = self.stmt(d - 1, loop, sw, brk, ctx + 'i')
            b = ('K',) if rng.random() < 0.35 else self.stmt(d - 1, loop, sw, brk, ctx + 'i')
            return ('I', k, a, b)
        if r < 0.70:
            q = rng.random()         # the labels of the enclosing switch stay placeable inside the loop (Duff's device)
            if q < 0.3:
                k = self.mk(); return ('F', [], k, [], self.stmt(d - 1, True, sw, 'loop', ctx + 'l'))
            if q < 0.5:
                init = self.marks(); inc = self.marks(); k = self.mk()     # no condition: every iteration starts with a guarded break
                body = self.stmt(d - 1, True, sw, 'loop', ctx + 'l')
                return ('F', init, None, inc, ('Q', ('I', k, ('B',), ('K',)), body))
            if q < 0.75:
                init = self.marks(); k = self.mk(); inc = self.marks()
                return ('F', init, k, inc, self.stmt(d - 1, True, sw, 'loop', ctx + 'l'))
            body = self.stmt(d - 1, True, sw, 'loop', ctx + 'l'); return ('D', body, self.mk())
        k = self.mk(); nsw = {'vals': set(), 'default': False}
        if sw is not None: self.feat.add('switch-inside-switch')
        if loop: self.feat.add('switch-inside-loop')
        return ('W', k, self.stmt(d - 1, loop, nsw, 'switch', ctx + 's|'))

    def case(self, depth):
        s = self.stmt(depth, False, None, None, '')
        # resolve gotos: an unguarded goto only jumps forward, so that every cycle evaluates an E
        for order, guard, slot, ctx in self.gotos:
            cands = self.labels if guard else [x for x in self.labels if x[1] > order]
            if not cands:
                if slot[0] == 'X': del slot[2]
                else: slot[1] = self.mk()
                slot[0] = 'M'; continue
            if slot[0] == 'X':        # a table with an entry for every oracle value 0..8
                slot[2] = [self.rng.choice(cands)[0] for _ in range(9)]; self.feat.add('goto-computed'); continue
            l, lo, lctx = self.rng.choice(cands); slot[1] = l
            self.feat.add('goto-' + ('backward' if lo <= order else 'forward'))
            if not ctx.startswith(lctx):
                for ch, nm in (('l', 'loop'), ('s', 'switch'), ('i', 'if')):
                    if ch in lctx[len(os.path.commonprefix([ctx, lctx])):]: self.feat.add('goto-into-' + nm)
            if not lctx.startswith(ctx):
                for ch, nm in (('l', 'loop'), ('s', 'switch')):
                    if ch in ctx[len(os.path.commonprefix([ctx, lctx])):]: self.feat.add('goto-out-of-' + nm)
        def fix(x):
            if isinstance(x, list) and x and isinstance(x[0], str): return tuple(x)      # a goto slot
            if isinstance(x, tuple): return tuple(fix(y) for y in x)
            return x
        return fix(s)


def boundary_cases():
    M = lambda n: ('M', n); K = ('K',); B = ('B',); C = ('C',)
    def Q(*xs):
        return xs[0] if len(xs) == 1 else ('Q', xs[0], Q(*xs[1:]))
    A = lambda c, s: ('A', c, s); U = lambda s: ('U', s); W = lambda k, b: ('W', k, b); L = lambda l, s: ('L', l, s); G = lambda l: ('G', l)
    I = lambda k, a, b=K: ('I', k, a, b)
    out = []
    out.append(('empty-switch', W(1, K)))
    out.append(('switch-no-label', W(1, Q(M(2), M(3)))))
    out.append(('only-default', W(1, U(M(2)))))
    out.append(('default-first', W(1, Q(U(M(2)), A(1, M(3)), A(2, Q(M(4), B)), M(5)))))
    out.append(('default-middle', W(1, Q(A(1, M(2)), U(M(3)), A(2, M(4))))))
    out.append(('default-last-fallthrough', W(1, Q(A(1, M(2)), A(2, Q(M(3), B)), U(M(4))))))
    out.append(('stacked-labels', W(1, Q(A(1, A(2, U(A(3, M(2))))), B, A(4, M(3))))))
    out.append(('case-labels-the-body', W(1, A(1, M(2)))))
    out.append(('duff', W(1, Q(A(0, ('D', Q(M(2), A(3, M(3)), A(2, M(4)), A(1, M(5))), 6))))))
    out.append(('case-in-if-branches', W(1, I(2, Q(A(1, M(3)), M(4)), Q(A(2, M(5)), U(M(6)))))))
    out.append(('case-in-for', W(1, Q(M(2), ('F', [3], 4, [5], Q(A(1, M(6)), I(7, C), A(2, M(8)), I(9, B))), U(M(10))))))
    out.append(('continue-through-switch', ('F', [1], 2, [3], W(4, Q(A(1, Q(M(5), C)), A(2, Q(M(6), B)), U(M(7)))))))
    out.append(('break-after-switch-binds-loop', ('F', [], 1, [], Q(W(2, Q(A(1, B), U(M(3)))), I(4, B), M(5)))))
    out.append(('switch-in-switch', W(1, Q(A(1, W(2, Q(A(1, Q(M(3), B)), U(M(4))))), M(5), B, A(2, M(6)), U(W(7, A(2, B)))))))
    out.append(('loop-in-switch-in-loop', ('D', W(1, Q(A(1, ('F', [], 2, [], Q(M(3), I(4, B), I(5, C), M(6)))), M(7), B, U(C))), 8)))
    out.append(('goto-forward-backward', Q(M(1), L(1, M(2)), I(3, G(2)), I(4, G(1)), M(5), L(2, M(6)), I(7, G(1)))))
    out.append(('goto-into-loop', Q(I(1, G(1)), ('F', [2], 3, [4], Q(M(5), L(1, M(6)), I(7, C), M(8))), M(9))))
    out.append(('goto-out-of-nested', Q(('F', [], 1, [], ('D', W(2, Q(A(1, I(3, G(1))), U(M(4)))), 5)), L(1, M(6)))))
    out.append(('goto-into-switch', Q(I(1, G(1)), W(2, Q(A(1, M(3)), L(1, M(4)), B, U(M(5)))), I(6, G(1)), M(7))))
    out.append(('goto-into-if', Q(I(1, G(1)), I(2, Q(M(3), L(1, M(4))), Q(M(5), L(2, M(6)))), I(7, G(2)))))
    out.append(('goto-self-loop', Q(L(1, I(1, G(1))), M(2))))
    out.append(('label-on-case', W(1, Q(L(1, A(1, L(2, U(M(2))))), I(3, G(2)), B))))
    out.append(('goto-into-do', Q(I(1, G(1)), ('D', Q(M(2), L(1, M(3))), 4), M(5))))
    X = lambda k, *ls: ('X', k, list(ls))
    out.append(('computed-goto-dispatch', Q(L(1, M(1)), X(2, 2, 3, 4, 2, 3, 4), L(2, Q(M(3), X(4, 1, 3, 4, 4, 4, 4))), L(3, Q(M(5), I(6, G(1)))), L(4, M(7)))))
    out.append(('computed-goto-into-loop-and-switch', Q(X(1, 1, 2, 3, 3, 3, 3), ('F', [2], 3, [4], Q(M(5), L(1, M(6)), W(7, Q(A(1, M(8)), L(2, Q(M(9), B)), U(C))))), L(3, M(10)))))
    out.append(('goto-into-inner-switch-of-loop', Q(('F', [1], 2, [3], W(4, Q(A(1, M(5)), L(1, Q(M(6), C)), U(B)))), I(7, G(1)))))
    return out


# ---------------------------------------------------------------- impl
PROLOGUE = '''int printf(const char *, ...); void exit(int);
static int O[] = {%s}; static int pos;
void M(int n) { printf("%%d ", n); }
int E(int k) { if (pos >= %d) { printf("X\\n"); exit(0); } printf("%%d ", k); return O[pos++]; }
int V(int k) { if (pos >= %d) { printf("X\\n"); exit(0); } printf("%%d ", k); return O[pos++]; }
int G(int k) { if (pos >= %d) { printf("X\\n"); exit(0); } printf("%%d ", k); return O[pos++]; }
'''
EPILOGUE = 'int main(void) { f(); printf("\\n"); return 0; }\n'

def program(s, oracle):
    return PROLOGUE % (', '.join(map(str, oracle)), len(oracle), len(oracle), len(oracle)) + 'void f(void) { %s }\n' % cseq(s) + EPILOGUE

def skeleton(asm, fn='f'):
    """calls of M / E / V / G with their immediate argument, cmp $c + je/jne, jmp, jmp *%rax; labels -> positions.
    Coded like the Coq side prints sprogram: [0,n] mark, [1,k,t] jf, [2,k,t] jt, [3,t] jmp, [4,k] sel, [5,c,t] case,
    [6,k,t0,t1,..] jump through the table of label addresses whose address was loaded last."""
    out = []; labels = {}; on = False; imm = None; pushed = None; callee = None; pending = None; sel = False; cmpv = None
    ind = None; table = None
    lines = asm.split('\n')
    quads = {}; cur = None                      # data label -> its .quad operands
    for l in lines:
        t = l.strip()
        if t.endswith(':'): cur = t[:-1]; continue
        m = re.fullmatch(r'\.quad (\S+?)\+0', t)
        if m and cur is not None: quads.setdefault(cur, []).append(m.group(1))
    for l in lines:
        t = l.strip()
        if t == fn + ':': on = True; continue
        if not on: continue
        if t == '.L.return.%s:' % fn: labels[t[:-1]] = len(out); break
        if t.startswith('.loc') or not t: continue
        if t.endswith(':'):
            if pending is not None: out.append(['?', 'label after E']); pending = None
            labels[t[:-1]] = len(out); sel = False; continue
        m = re.fullmatch(r'mov \$(-?\d+), %rax', t)
        if m: imm = int(m.group(1)); continue
        if t == 'push %rax': pushed = imm; continue
        m = re.fullmatch(r'mov (\w+)@GOTPCREL\(%rip\), %rax|lea (\w+)\(%rip\), %rax', t)
        if m: callee = m.group(1) or m.group(2); continue
        m = re.fullmatch(r'lea (\.L\.\.\d+)\(%rip\), %rax', t)
        if m: table = m.group(1); continue
        if t.startswith('call'):
            sel = False
            if pending is not None: out.append(['?', 'call after E']); pending = None
            if callee == 'M': out.append([0, pushed])
            elif callee == 'E': pending = pushed
            elif callee == 'V': out.append([4, pushed]); sel = True
            elif callee == 'G': ind = pushed
            else: out.append(['?', t])
            continue
        if t == 'jmp *%rax':
            if ind is None or table not in quads: out.append(['?', t])
            else: out.append([6, ind, ('T', quads[table])])
            ind = None; continue
        m = re.fullmatch(r'cmp \$(-?\d+), %e?ax', t)
        if m: cmpv = int(m.group(1)); continue
        m = re.fullmatch(r'(je|jne|jmp)\s+(\S+)', t)
        if m:
            op, lab = m.groups()
            if op == 'jmp':
                if pending is not None: out.append(['?', 'jmp after E']); pending = None
                out.append([3, lab]); continue
            if pending is not None:
                out.append([1 if op == 'je' else 2, pending, lab]); pending = None
                if cmpv != 0: out.append(['?', 'condition compared with %s' % cmpv])
            elif sel and op == 'je': out.append([5, cmpv, lab])
            else: out.append(['?', t])
            cmpv = None; continue
        if t.split()[0] in ('push', 'pop', 'mov', 'sub', 'add', 'movzb', 'movsxd', 'lea', 'imul'): continue
        out.append(['?', t])
    res = []
    for x in out:
        if x[0] == '?': res.append(x)
        elif x[0] == 6: res.append([6, x[1]] + [labels.get(q, q) for q in x[2][1]])
        elif x[0] in (1, 2, 3, 5): res.append(x[:-1] + [labels.get(x[-1], x[-1])])
        else: res.append(x)
    # the same with chibicc's label names: definitions interleaved, numbers relative to the first name of each counter in f
    defs = sorted(labels.items(), key=lambda kv: kv[1])
    names = [n for n, _ in defs if n != '.L.return.%s' % fn]
    us = [int(n[4:]) for n in names if re.fullmatch(r'\.L\.\.\d+', n)]
    cs = [int(n.rsplit('.', 1)[1]) for n in names if re.fullmatch(r'\.L\.(else|end|begin)\.\d+', n)]
    ru = {v: i for i, v in enumerate(sorted(set(us)))}; rc = {v: i for i, v in enumerate(sorted(set(cs)))}
    # rank among the names defined in f (order kept; other users of the counters, e.g. the name of a static local, leave gaps)
    def lab(n):
        m = re.fullmatch(r'\.L\.\.(\d+)', n)
        if m: return [0, ru.get(int(m.group(1)), 999999)]
        m = re.fullmatch(r'\.L\.(else|end|begin)\.(\d+)', n)
        if m: return [{'else': 1, 'end': 2, 'begin': 3}[m.group(1)], rc.get(int(m.group(2)), 999999)]
        return [9, 0]
    named = []; order = {}          # labels defined at the same position keep the order of the text
    for l in lines:
        t = l.strip()
        if t.endswith(':') and t[:-1] in labels and t[:-1] not in order: order[t[:-1]] = len(order)
    bypos = {}
    for n in names: bypos.setdefault(labels[n], []).append(n)
    for i in range(len(out) + 1):
        for n in sorted(bypos.get(i, []), key=lambda n: order[n]): named.append([10] + lab(n))
        if i < len(out):
            x = out[i]
            if x[0] == '?': named.append(x)
            elif x[0] == 6: named.append([6, x[1]] + [v for q in x[2][1] for v in lab(q)])
            elif x[0] in (1, 2, 3, 5): named.append(x[:-1] + lab(x[-1]))
            else: named.append(x)
    return res, named


def run_impl(chibicc, wd, idx, s, oracle):
    f = os.path.join(wd, 'c%d.c' % idx)
    open(f, 'w').write(program(s, oracle))
    r = subprocess.run([chibicc, '-S', '-o', '-', f], capture_output=True, text=True, timeout=60)
    if r.returncode != 0: return dict(error='compile: ' + r.stderr[-300:])
    sk, named = skeleton(r.stdout)
    exe = os.path.join(wd, 'c%d.exe' % idx)
    r = subprocess.run([chibicc, '-o', exe, f], capture_output=True, text=True, timeout=60)
    if r.returncode != 0: return dict(error='link: ' + r.stderr[-300:])
    try:
        r = subprocess.run([exe], capture_output=True, text=True, timeout=10)
        tr = r.stdout.split() if r.returncode == 0 else ['exit', str(r.returncode)]
    except subprocess.TimeoutExpired:
        tr = ['TIMEOUT']
    return dict(skeleton=sk, named=named, trace=tr)


def run_reference(cc, wd, idx, s, oracle):
    """the same program under a reference compiler (spec validation, not part of run())"""
    f = os.path.join(wd, 'r%d.c' % idx); exe = os.path.join(wd, 'r%d.exe' % idx)
    open(f, 'w').write(program(s, oracle))
    r = subprocess.run([cc, '-O0', '-w', '-o', exe, f], capture_output=True, text=True, timeout=60)
    if r.returncode != 0: return dict(error='compile: ' + r.stderr[-300:])
    try:
        r = subprocess.run([exe], capture_output=True, text=True, timeout=10)
        return dict(trace=r.stdout.split() if r.returncode == 0 else ['exit', str(r.returncode)])
    except subprocess.TimeoutExpired:
        return dict(trace=['TIMEOUT'])


# ---------------------------------------------------------------- Coq side
def run_coq(verif_dir, wd, cases):
    """one Cases_sw.v: per case  (id, wf, spec, machine, code)  as nested lists of numbers"""
    L = ['From Coq Require Import List Arith Bool.', 'Import ListNotations.',
         'From Chibicc Require Import Spec.SwSem Spec.SwCont Model.LoweringSw Model.LoweringSwParse.',
         'Set Printing Width 100000.', 'Set Printing Depth 100000.',
         'Definition enc (i : sinstr) : list nat := match i with JMark n => [0; n] | JCondJf k t => [1; k; t] | JCondJt k t => [2; k; t] | JJmp t => [3; t] | JSel k => [4; k] | JCase c t => [5; c; t] | JJmpTab k ts => 6 :: k :: ts end.',
         'Definition spec_of (s : sstmt) (o : list nat) : list nat := match srun %d None s o with Some (t, o1) => 1 :: length o1 :: t | None => [0] end.' % SPEC_FUEL,
         'Definition mach_of (s : sstmt) (o : list nat) : list nat := match smrun %s (sprogram s) (0, o, 0) with Some (t, (_, o1, _)) => 1 :: length o1 :: t | None => [0] end.' % MACH_FUEL,
         'Definition cont_of (s : sstmt) (o : list nat) : list nat := match crun %s s (s, Kstop, o) with Some (t, o1) => 1 :: length o1 :: t | None => [0] end.' % MACH_FUEL,
         'Definition b2n (b : bool) : nat := if b then 1 else 0.',
         'Definition row (id : nat) (s : sstmt) (o : list nat) := [[0; id; b2n (swf_fn s); b2n (sgotos_defined (slabtab s) s); b2n (svalid_fn s)]; spec_of s o; mach_of s o; cont_of s o] ++ map enc (sprogram s).',
         'Definition encl (l : plabel) : list nat := match l with LU n => [0; n] | LElse n => [1; n] | LEnd n => [2; n] | LBegin n => [3; n] | LNone => [9; 0] end.',
         'Definition enci (i : pitem) : list nat := match i with PDef l => 10 :: encl l | PI (QMark n) => [0; n] | PI (QCondJf k l) => 1 :: k :: encl l | PI (QCondJt k l) => 2 :: k :: encl l | PI (QJmp l) => 3 :: encl l | PI (QSel k) => [4; k] | PI (QCase c l) => 5 :: c :: encl l | PI (QJmpTab k ls) => 6 :: k :: flat_map encl ls end.',
         'Definition prow (id : nat) (s : sstmt) := match pfunction s 0 0 with Some code => [[1; id; 1]] ++ map enci code | None => [[1; id; 0]] end.']
    for i, (s, o) in enumerate(cases):
        L.append('Eval vm_compute in row %d %s [%s].' % (i, coq(s), '; '.join(map(str, o))))
        L.append('Eval vm_compute in prow %d %s.' % (i, coq(s)))
    d = os.path.join(wd, 'coq'); os.makedirs(d, exist_ok=True)
    f = os.path.join(d, 'Cases_sw.v'); open(f, 'w').write('\n'.join(L) + '\n')
    r = subprocess.run(['coqc', '-Q', os.path.join(verif_dir, 'coq', 'theories'), 'Chibicc', '-w', '-all', f], capture_output=True, text=True, timeout=600, cwd=d)
    if r.returncode != 0: raise RuntimeError('coqc failed on Cases_sw.v: ' + (r.stdout + r.stderr)[-1500:])
    rows = {}
    for m in re.finditer(r'=\s*(\[\[.*?\]\])\s*:\s*list \(list nat\)', r.stdout, re.S):
        v = json.loads(m.group(1).replace(';', ','))
        if v[0][0] == 0: rows.setdefault(v[0][1], {}).update(wf=v[0][2], defined=v[0][3], valid=v[0][4], spec=v[1], mach=v[2], cont=v[3], code=v[4:])
        else: rows.setdefault(v[0][1], {}).update(pok=v[0][2], pcode=v[1:])
    if len(rows) != len(cases) or any(len(r) != 9 for r in rows.values()): raise RuntimeError('Cases_sw.v: %d results for %d cases' % (len(rows), len(cases)))
    return rows


def features(s, extra=()):
    fs = set(extra)
    for x in walk(s):
        fs.add({'M': 'marker', 'K': 'skip', 'Q': 'block', 'I': 'if', 'F': 'for', 'D': 'do', 'B': 'break', 'C': 'continue', 'W': 'switch',
                'A': 'case', 'U': 'default', 'L': 'label', 'G': 'goto', 'X': 'goto-computed'}[x[0]])
        if x[0] == 'W':
            labs = [y[0] for y in top_labels(x[2])]
            if 'U' not in labs: fs.add('switch-without-default')
            if not labs: fs.add('switch-without-labels')
    return fs

def top_labels(s):
    """case/default labels of the switch whose body s is"""
    if s[0] == 'W': return
    if s[0] in 'AU': yield s
    for x in s[1:]:
        if isinstance(x, tuple) and x and isinstance(x[0], str): yield from top_labels(x)


def make_cases(seed, n):
    rng = random.Random(seed)
    cases = []; names = []; feats = []
    for name, s in boundary_cases():
        for rep in range(2):
            o = [rng.choice([0, 0, 1, 1, 2, 3, 4, 5]) for _ in range(NORACLE)]
            cases.append((s, o)); names.append('boundary:' + name); feats.append(features(s, ['boundary']))
    cases = cases[:n]
    while len(cases) < n:
        g = Gen(rng); s = g.case(rng.randint(2, 5))
        pz = rng.choice([0.35, 0.5, 0.65])
        o = [0 if rng.random() < pz else rng.randint(1, 8) for _ in range(NORACLE)]
        cases.append((s, o)); names.append('random'); feats.append(features(s, g.feat))
    # programs parse.c must reject: a jump statement or label with nothing to bind to (about one case in twelve)
    K = ('K',)
    for i in range(len(cases)):
        if names[i] != 'random' or rng.random() >= 0.085: continue
        s, o = cases[i]; kind = rng.randrange(8)
        bad = [('Q', s, ('B',)), ('Q', s, ('C',)), ('Q', s, ('A', 99, K)), ('Q', s, ('U', K)), ('Q', s, ('G', 99)),
               ('Q', ('W', 900, ('A', 1, ('C',))), s), ('Q', ('F', [], 901, [], ('A', 99, ('B',))), s), ('Q', s, ('X', 902, [99] * 9))][kind]
        cases[i] = (bad, o); names[i] = 'invalid:' + ['stray-break', 'stray-continue', 'stray-case', 'stray-default', 'undeclared-label',
                                                      'continue-in-switch-outside-loop', 'case-in-loop-outside-switch', 'undeclared-label-in-table'][kind]
        feats[i] = set([names[i]])
    return cases, names[:len(cases)], feats[:len(cases)]


def validate_spec(seed=1, n=400, verif_dir=None, cc='gcc'):
    """spec validation: the structured semantics (srun) against a reference compiler on the same cases"""
    if verif_dir is None: verif_dir = os.path.dirname(os.path.dirname(os.path.abspath(__file__)))
    cases, names, feats = make_cases(seed, n)
    wd = tempfile.mkdtemp(prefix='tie_sw_ref_')
    try:
        with ThreadPoolExecutor(4) as ex:      # coqc + three compile-and-run workers
            fut_coq = ex.submit(run_coq, verif_dir, wd, cases)
            with ThreadPoolExecutor(3) as ex2:
                ref = list(ex2.map(lambda a: run_reference(cc, wd, a[0], a[1][0], a[1][1]), enumerate(cases)))
            rows = fut_coq.result()
    finally:
        shutil.rmtree(wd, ignore_errors=True)
    bad = []
    for i, (s, o) in enumerate(cases):
        r = rows[i]; tr = ref[i].get('trace')
        if names[i].startswith('invalid:') or r['valid'] != 1:       # the reference must reject what svalid_fn rejects
            if ('error' in ref[i]) != (r['valid'] != 1): bad.append(dict(case=dict(name=names[i], statement=cseq(s)), reference=ref[i], spec='svalid_fn = %d' % r['valid']))
            continue
        spec_tr = [str(x) for x in r['spec'][2:]] if r['spec'][0] == 1 else None
        if tr is None or (spec_tr is not None and tr != spec_tr) or (spec_tr is None and not (tr and tr[-1] == 'X')):
            bad.append(dict(case=dict(name=names[i], statement=cseq(s), oracle=o[:40]), reference=ref[i], spec=spec_tr))
    return dict(evaluations=len(cases), reference=cc, reference_vs_spec=bad)


def run(src_dir, seed=1, n=400, verif_dir=None):
    if verif_dir is None: verif_dir = os.path.dirname(os.path.dirname(os.path.abspath(__file__)))
    chibicc = os.path.join(src_dir, 'chibicc')
    cases, names, feats = make_cases(seed, n)
    wd = tempfile.mkdtemp(prefix='tie_sw_')
    try:
        with ThreadPoolExecutor(4) as ex:      # coqc + three compile-and-run workers
            fut_coq = ex.submit(run_coq, verif_dir, wd, cases)
            with ThreadPoolExecutor(3) as ex2:
                impl = list(ex2.map(lambda a: run_impl(chibicc, wd, a[0], a[1][0], a[1][1]), enumerate(cases)))
            rows = fut_coq.result()
    finally:
        shutil.rmtree(wd, ignore_errors=True)
    ivs = []; ivm = []; samples = []; dist = {}; distinct = set(); evals = 0
    def count(k): dist[k] = dist.get(k, 0) + 1
    for i, (s, o) in enumerate(cases):
        r = rows[i]; im = impl[i]; evals += 1
        case = dict(name=names[i], statement=cseq(s), oracle=o[:40])
        for ft in sorted(feats[i]): count(ft)
        if names[i].startswith('invalid:') or r['valid'] != 1:
            # acceptance: chibicc rejects <-> svalid_fn false (spec) <-> pfunction None (model)
            rejected = 'error' in im and im['error'].startswith('compile')
            if rejected != (r['valid'] != 1): ivs.append(dict(case=case, impl='rejected' if rejected else 'accepted', spec='svalid_fn = %d' % r['valid']))
            if rejected != (r['pok'] != 1): ivm.append(dict(case=case, impl='rejected' if rejected else 'accepted', model='pfunction ' + ('= Some ..' if r['pok'] == 1 else '= None')))
            continue
        if r['wf'] != 1 or r['defined'] != 1:
            ivm.append(dict(case=case, impl='(generator)', model='swf_fn / sgotos_defined false on a generated program')); continue
        if 'error' in im:
            ivs.append(dict(case=case, impl=im['error'], spec='valid program')); continue
        spec_tr = [str(x) for x in r['spec'][2:]] if r['spec'][0] == 1 else None
        mach_tr = [str(x) for x in r['mach'][2:]] if r['mach'][0] == 1 else None
        tr = im['trace']
        count('run-complete' if spec_tr is not None else 'run-oracle-exhausted')
        # the property itself: the executable prints the trace of the structured semantics
        if spec_tr is not None:
            if tr != spec_tr: ivs.append(dict(case=case, impl=' '.join(tr)[:600], spec=' '.join(spec_tr)[:600]))
        elif not (tr and tr[-1] == 'X'):
            ivs.append(dict(case=case, impl=' '.join(tr)[:600], spec='srun: no result within fuel %d / %d oracle values' % (SPEC_FUEL, NORACLE)))
        # the second rendering of the spec (continuation machine, Spec/SwCont.v) must say the same
        if r['cont'] != r['spec']:
            ivs.append(dict(case=case, impl=' '.join(tr)[:600], spec='srun %s but crun %s' % (r['spec'][:40], r['cont'][:40])))
        # the model: jump code and its run
        if im['skeleton'] != r['code']:
            ivm.append(dict(case=case, impl='skeleton ' + json.dumps(im['skeleton']), model='sprogram ' + json.dumps(r['code'])))
        if r['pok'] != 1 or im['named'] != r['pcode']:
            ivm.append(dict(case=case, impl='labelled code ' + json.dumps(im['named']), model='pfunction ' + (json.dumps(r['pcode']) if r['pok'] == 1 else 'rejects the program')))
        if mach_tr is not None:
            if tr != mach_tr: ivm.append(dict(case=case, impl=' '.join(tr)[:600], model='smrun ' + ' '.join(mach_tr)[:600]))
        elif not (tr and tr[-1] == 'X'):
            ivm.append(dict(case=case, impl=' '.join(tr)[:600], model='smrun: no result'))
        if any(x in feats[i] for x in ('switch', 'goto', 'goto-computed')): distinct.add((coq(s), tuple(tr)))
        if len(samples) < 4 and names[i] == 'random' and 'switch' in feats[i]:
            samples.append(dict(case=case, trace=' '.join(tr)[:200], code=json.dumps(r['code'])[:300]))
    return dict(evaluations=evals, distinct_nontrivial=len(distinct), distribution=dict(sorted(dist.items())),
                impl_vs_spec=ivs, impl_vs_model=ivm, samples=samples)


if __name__ == '__main__':
    if sys.argv[1] == '--validate-spec':      # tie_sw.py --validate-spec [seed] [n] [cc]
        res = validate_spec(int(sys.argv[2]) if len(sys.argv) > 2 else 1, int(sys.argv[3]) if len(sys.argv) > 3 else 400, None, sys.argv[4] if len(sys.argv) > 4 else 'gcc')
        print(json.dumps(res, indent=1)); sys.exit(1 if res['reference_vs_spec'] else 0)
    src = sys.argv[1]
    seed = int(sys.argv[2]) if len(sys.argv) > 2 else 1
    n = int(sys.argv[3]) if len(sys.argv) > 3 else 400
    res = run(src, seed, n)
    print(json.dumps(res, indent=1))
    sys.exit(1 if res['impl_vs_spec'] or res['impl_vs_model'] else 0)
