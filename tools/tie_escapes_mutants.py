#!/usr/bin/env python3
"""Liveness check of tools/tie_escapes.py: applies hand-made wrong changes to a scratch copy of chibicc's
tokenize.c, one at a time, and shows that the tie reports each.
    python3 tools/tie_escapes_mutants.py <src_dir with the unchanged sources> [mutant names...]"""
import subprocess, shutil, os, sys, json, tempfile
sys.path.insert(0, os.path.dirname(os.path.abspath(__file__)))
import tie_escapes as T
VERIF = os.path.dirname(os.path.dirname(os.path.abspath(__file__)))
MUTS = {
 'M1_octal4': ('''      if ('0' <= *p && *p <= '7')
        c = (c << 3) + (*p++ - '0');
    }''', '''      if ('0' <= *p && *p <= '7') {
        c = (c << 3) + (*p++ - '0');
        if ('0' <= *p && *p <= '7')
          c = (c << 3) + (*p++ - '0');
      }
    }'''),
 'M2_hex2': ('''    for (; isxdigit(*p); p++)
      c = (c << 4) + from_hex(*p);''', '''    for (int k = 0; k < 2 && isxdigit(*p); p++, k++)
      c = (c << 4) + from_hex(*p);'''),
 'M3_lL': ('''  } else if (startswith(p, "LL") || startswith(p, "ll")) {''', '''  } else if (!strncasecmp(p, "ll", 2)) {'''),
 'M4_u_int': ('''      cur = cur->next = read_char_literal(p, p + 1, ty_ushort);''', '''      cur = cur->next = read_char_literal(p, p + 1, ty_int);'''),
 'M5_nopair': ('''    } else if (p[0] == '\\\\') {
      *q++ = *p++;
      *q++ = *p++;
    } else {''', '''    } else {'''),
 'M9_no_doubled_prefix_check': ('''  if ((base == 16 && !strncasecmp(p, "0x", 2)) ||
      (base == 2 && !strncasecmp(p, "0b", 2)))
    return false;''', '''  if (0)
    return false;'''),
 'M10_char_end_no_escape_skip': ('''    if (*end == '\\\\' && end[1])
      end++;''', '''    if (0)
      end++;'''),
 'M6_esc_v': ('''  case 'v': return '\\v';''', '''  case 'v': return '\\f';'''),
 'M7_utf16_surr': ('''      buf[len++] = 0xd800 + ((c >> 10) & 0x3ff);''', '''      buf[len++] = 0xd800 + ((c >> 10) & 0x1ff);'''),
 'M8_base8_9': ('''  } else if (*p == '0') {
    base = 8;''', '''  } else if (*p == '0' && p[1] != '9') {
    base = 8;'''),
}
SRC = sys.argv[1]
which = sys.argv[2:] or list(MUTS)
ROOT = tempfile.mkdtemp(prefix='tie_escapes_mut_')
for name in which:
    old, new = MUTS[name]
    d = os.path.join(ROOT, name)
    shutil.rmtree(d, ignore_errors=True)
    shutil.copytree(SRC, d, ignore=shutil.ignore_patterns('*.o', 'chibicc', 'tmp*'))
    s = open(d + '/tokenize.c').read()
    assert s.count(old) == 1, (name, s.count(old))
    open(d + '/tokenize.c', 'w').write(s.replace(old, new))
    r = subprocess.run(['make', '-C', d, '-j4', 'chibicc'], capture_output=True, text=True)
    assert r.returncode == 0, r.stderr[-500:]
    res = T.run(d, 1, 300, VERIF)
    print(name, 'impl_vs_spec', len(res['impl_vs_spec']), 'impl_vs_model', len(res['impl_vs_model']), 'secs', res['seconds'])
    for k in ('impl_vs_spec', 'impl_vs_model'):
        for e in res[k][:2]: print('   ', k, e)
shutil.rmtree(ROOT, ignore_errors=True)
