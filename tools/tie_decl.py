#!/usr/bin/env python3
"""C08 / package decl: tie of Model/Declarator.v (parse.c: pointers, declarator, abstract_declarator, type_suffix,
array_dimensions, func_params, typename; type.c: pointer_to, array_of, func_type) and Spec/DeclSpec6_7_6.v
(C11 6.7.6 declarators, 6.7.6.3p7-8 adjustment, psABI sizeof/_Alignof, the implementation limit `oversize`) to the real
chibicc.  (Update 2: follows /repo after the fixes fbdf355, 8507b9f, 053b61b, 02474a3.)

run(src_dir, seed, n, verif_dir) generates n cases (ctx, base, declarator) in the abstract syntax of the spec:
boundary cases first, then seeded random ones - a random VALID type is turned into a declarator with random redundant
parentheses, qualifiers and parameter names; a smaller share are random walks of the grammar (not necessarily valid C)
and raw token lists (static / qualifiers inside [ ], identifier lists, ...).  Contexts:
    var       extern <base> <declarator>;                      (declarator(), named)
    param     void f(<base> <declarator>) { ... }              (func_params(): the ADJUSTED type)
    typename  extern typeof(<base> <abstract declarator>) x;   (typename()/abstract_declarator())  + sizeof(type-name)
ONE coqc call (Cases_decl.v in a fresh temp dir, -Q <verif_dir>/coq/theories Chibicc; the .vo files must exist)
evaluates for every case the Coq model (parse_declarator / parse_typename on the token list), the Coq spec (type_of /
param_type, sizeof, alignof) and the predicates c11_ok / elems_ok / oversize.  From the MODEL's type the C program is
derived: walking the type from the declared identifier inwards (pointer: *E, array: E[0], function: E(args)) it prints
sizeof(E) and _Alignof(typeof(E)) wherever these are defined, and `_Generic(x, <the type written as a type name>: 1,
default: 0)` (array types included since fix 02474a3).  The program is compiled and run with the REAL chibicc (and with
gcc as a cross-check of the spec).
  impl_vs_model : chibicc's numbers / its rejection / its "array too large" differ from the model's
                                                                           -> the model no longer describes parse.c
  impl_vs_spec  : on a case inside the theorems' hypotheses (c11_ok, elems_ok; Properties_C08_decl.v):
                  - the spec says some written array needs more than INT32_MAX bytes (`oversize`) and chibicc does
                    anything but reject with "array too large" (an allowed implementation limit, C11 5.2.4.1), or
                  - it does not, and the type the model builds is not the C11 type or chibicc's numbers are not the
                    psABI numbers                                          -> the property fails here
  deviations_outside_hypotheses : informational - cases outside the hypotheses where chibicc (= model) differs from the spec
  spec_vs_gcc   : informational cross-check of the spec - must be empty too
"""
import os, sys, json, random, subprocess, tempfile, shutil, re, time
from concurrent.futures import ThreadPoolExecutor

NA = -1000000007
LEAVES = ['void', 'char', 'short', 'int', 'long', 'double', 'S']          # S = struct S { char c; long l; } : LAgg 16 8
LEAF_COQ = {'void': 'LVoid', 'char': 'LChar', 'short': 'LShort', 'int': 'LInt', 'long': 'LLong', 'double': 'LDouble',
            'S': '(LAgg 16 8)'}
LEAF_C = {'void': 'void', 'char': 'char', 'short': 'short', 'int': 'int', 'long': 'long', 'double': 'double', 'S': 'struct S'}
QUALS = ['const', 'volatile', 'restrict']
QCOQ = {'const': 'QConst', 'volatile': 'QVolatile', 'restrict': 'QRestrict'}

# ---------------------------------------------------------------- abstract syntax (python side)
# decl : ('ptr', [quals], decl) | ('dir', dd)
# dd   : ('id', k|None) | ('paren', decl) | ('arr', dd, n|None) | ('fun', dd, params)
# params: ('unspec',) | ('void',) | ('list', [(leaf, decl)...], variadic)
# type : ('leaf', name) | ('ptr', [quals], t) | ('arr', n|None, t) | ('fun', kind, ret, [ps])   kind 0 noproto 1 proto 2 variadic

def ident_c(k): return 'x' if k == 0 else 'p%d' % k

def c_decl(d):
    if d[0] == 'ptr': return '*' + ''.join(' ' + q for q in d[1]) + (' ' if d[1] else '') + c_decl(d[2])
    return c_dd(d[1])
def c_dd(dd):
    if dd[0] == 'id': return '' if dd[1] is None else ident_c(dd[1])
    if dd[0] == 'paren': return '(' + c_decl(dd[1]) + ')'
    if dd[0] == 'arr': return c_dd(dd[1]) + ('[%d]' % dd[2] if dd[2] is not None else '[]')
    return c_dd(dd[1]) + '(' + c_params(dd[2]) + ')'
def c_params(ps):
    if ps[0] == 'unspec': return ''
    if ps[0] == 'void': return 'void'
    return ', '.join((LEAF_C[b] + ' ' + c_decl(d)).strip() for b, d in ps[1]) + (', ...' if ps[2] else '')

def coq_decl(d):
    if d[0] == 'ptr': return '(DPtr [%s] %s)' % ('; '.join(QCOQ[q] for q in d[1]), coq_decl(d[2]))
    return '(DDirect %s)' % coq_dd(d[1])
def coq_dd(dd):
    if dd[0] == 'id': return '(DIdent %s)' % ('None' if dd[1] is None else '(Some %d%%nat)' % dd[1])
    if dd[0] == 'paren': return '(DParen %s)' % coq_decl(dd[1])
    if dd[0] == 'arr': return '(DArray %s %s)' % (coq_dd(dd[1]), 'None' if dd[2] is None else '(Some (%d))' % dd[2])
    return '(DFunc %s %s)' % (coq_dd(dd[1]), coq_params(dd[2]))
def coq_params(ps):
    if ps[0] == 'unspec': return 'PUnspec'
    if ps[0] == 'void': return 'PVoid'
    def pl(l):
        b, d = l[0]; p = '(Param %s %s)' % (LEAF_COQ[b], coq_decl(d))
        return '(POne %s)' % p if len(l) == 1 else '(PCons %s %s)' % (p, pl(l[1:]))
    return '(PList %s %s)' % (pl(ps[1]), 'true' if ps[2] else 'false')

TOKC = {'*': '*', '(': '(', ')': ')', '[': '[', ']': ']', ',': ',', '...': '...', 'static': 'static'}
def coq_tok(t):
    if isinstance(t, int): return '(TNum (%d))' % t
    if t in ('*',): return 'TStar'
    if t == '(': return 'TLParen'
    if t == ')': return 'TRParen'
    if t == '[': return 'TLBrack'
    if t == ']': return 'TRBrack'
    if t == ',': return 'TComma'
    if t == '...': return 'TEllipsis'
    if t == 'static': return 'TStatic'
    if t in QUALS: return '(TQual %s)' % QCOQ[t]
    if t in LEAF_COQ: return '(TBase %s)' % LEAF_COQ[t]
    if t.startswith('#'): return '(TIdent %s%%nat)' % t[1:]
    raise ValueError(t)
def c_tok(t):
    if isinstance(t, int): return str(t)
    if t in LEAF_C: return LEAF_C[t]
    if t.startswith('#'): return ident_c(int(t[1:]))
    return t

# depth / features of a declarator
def dtl_len(d):
    if d[0] == 'ptr': return 1 + dtl_len(d[2])
    dd = d[1]
    if dd[0] == 'id': return 0
    if dd[0] == 'paren': return dtl_len(dd[1])
    return 1 + dtl_len(('dir', dd[1]))
def feats(d, acc):
    if d[0] == 'ptr':
        acc.add('ptr');
        if d[1]: acc.add('qual')
        feats(d[2], acc); return
    dd = d[1]
    if dd[0] == 'id': acc.add('named' if dd[1] is not None else 'abstract'); return
    if dd[0] == 'paren': acc.add('paren'); feats(dd[1], acc); return
    if dd[0] == 'arr':
        acc.add('arr' if dd[2] is not None else 'arr[]')
        if dd[1][0] == 'arr': acc.add('multidim')
        feats(('dir', dd[1]), acc); return
    acc.add('fun'); ps = dd[2]
    acc.add({'unspec': 'f()', 'void': 'f(void)', 'list': 'f(params)'}[ps[0]])
    if ps[0] == 'list':
        if ps[2]: acc.add('variadic')
        for b, pd in ps[1]:
            sub = set(); feats(pd, sub)
            if 'arr' in sub or 'arr[]' in sub: acc.add('param-array')
            if 'fun' in sub: acc.add('param-fun')
    feats(('dir', dd[1]), acc)

# ---------------------------------------------------------------- generator
class Gen:
    def __init__(self, rng): self.rng = rng; self.pid = 0
    def leaf(self, allow_void=False):
        r = self.rng.random()
        if allow_void and r < 0.12: return 'void'
        return self.rng.choice(['char', 'short', 'int', 'int', 'long', 'double', 'S'])
    def bound(self): return self.rng.choice([3, 3, 5, 7, 7, 2, 1, 11])
    def quals(self, obj_pointee):
        r = self.rng.random()
        if r < 0.6: return []
        qs = ['const', 'volatile'] + (['restrict'] if obj_pointee else [])
        k = 1 if r < 0.9 else 2
        return self.rng.sample(qs, min(k, len(qs)))
    # a valid C type with `depth` derivations; top: what may stand outermost
    def ty(self, depth, allow_fun=True, allow_arr=True, allow_incomplete=False):
        if depth <= 0: return ('leaf', self.leaf())
        r = self.rng.random()
        if r < 0.40 or not (allow_fun or allow_arr):
            inner = self.ty(depth - 1, True, True, True) if self.rng.random() > 0.08 else ('leaf', 'void')
            return ('ptr', self.quals(inner[0] != 'fun'), inner)
        if (r < 0.75 and allow_arr) or not allow_fun:
            n = None if (allow_incomplete and self.rng.random() < 0.15) else self.bound()
            return ('arr', n, self.ty(depth - 1, False, True, False))
        ret = self.ty(depth - 1, False, False, False) if self.rng.random() > 0.15 else ('leaf', 'void')
        r2 = self.rng.random()
        if r2 < 0.12: return ('fun', 0, ret, [])
        if r2 < 0.27: return ('fun', 1, ret, [])
        ps = [self.ty(self.rng.randint(0, max(0, depth - 1)), True, True, True) for _ in range(self.rng.randint(1, 3))]
        return ('fun', 2 if self.rng.random() < 0.25 else 1, ret, ps)
    # write type t as (leaf, declarator) around `inner` (a decl); parameters are written UNADJUSTED at random
    def decl_for(self, t, inner):
        if t[0] == 'leaf': return t[1], inner
        if t[0] == 'ptr': return self.decl_for(t[2], self.maybe_paren(('ptr', t[1], inner)))
        if t[0] == 'arr': return self.decl_for(t[2], ('dir', ('arr', self.as_direct(inner), t[1])))
        k, ret, ps = t[1], t[2], t[3]
        if not ps: pars = ('void',) if k == 1 else ('unspec',)
        else: pars = ('list', [self.param_for(p) for p in ps], k == 2)
        return self.decl_for(ret, ('dir', ('fun', self.as_direct(inner), pars)))
    def as_direct(self, d):
        if d[0] == 'dir': return d[1]
        return ('paren', d)
    def maybe_paren(self, d):
        if self.rng.random() < 0.15: return ('dir', ('paren', d))
        return d
    def param_for(self, p):
        # p is the type the parameter is DECLARED with (may be array / function: adjusted by the compiler)
        name = None
        if self.rng.random() < 0.5: self.pid += 1; name = self.pid
        core = ('dir', ('id', name))
        if name is not None and self.rng.random() < 0.1: core = ('dir', ('paren', core))
        if name is None and p[0] == 'fun' and self.rng.random() < 0.5:
            # `T (params)` without identifier (parsed correctly since fix 8507b9f) or the adjusted form
            p = ('ptr', [], p)
        return self.decl_for(p, core)
    def named(self, t, k=0):
        core = ('dir', ('id', k))
        if self.rng.random() < 0.12: core = ('dir', ('paren', core))
        return self.decl_for(t, core)
    def abstract(self, t):
        return self.decl_for(t, ('dir', ('id', None)))
    # a random walk of the grammar: syntactically fine, not necessarily valid C
    def wild(self, depth, named=True):
        d = ('dir', ('id', 0 if named else None)); first = True
        for _ in range(depth):
            r = self.rng.random()
            if r < 0.35: d = ('ptr', self.quals(True)[:1], d)
            elif r < 0.65:
                if not named and first and False: pass
                d = ('dir', ('arr', self.as_direct(d), self.rng.choice([None, 2, 3, 5])))
            elif r < 0.85:
                dd = self.as_direct(d)
                if dd == ('id', None): d = ('ptr', [], d); dd = self.as_direct(d)
                ps = self.rng.choice([('unspec',), ('void',), ('list', [('int', ('dir', ('id', None)))], False),
                                      ('list', [('char', ('ptr', [], ('dir', ('id', None)))), ('S', ('dir', ('id', None)))], True)])
                d = ('dir', ('fun', dd, ps))
            else:
                if d != ('dir', ('id', None)): d = ('dir', ('paren', d))
            first = False
        return d

def boundary_cases():
    def dd(d):
        assert d[0] == 'dir', d
        return d[1]
    I = lambda k=0: ('dir', ('id', k)); A = ('dir', ('id', None))
    P = lambda d, q=None: ('ptr', q or [], d)
    PAR = lambda d: ('dir', ('paren', d))
    ARR = lambda d, n: ('dir', ('arr', dd(d), n))
    FUN = lambda d, ps: ('dir', ('fun', dd(d), ps))
    L = lambda l, v=False: ('list', l, v)
    V = ('void',); U = ('unspec',)
    out = []
    # the package's example: int (*(*x[3])(int, char *))[5]
    out.append(('var', 'int', ARR(PAR(P(FUN(PAR(P(ARR(I(), 3))), L([('int', A), ('char', P(A))])))), 5)))
    out.append(('var', 'int', I()))
    out.append(('var', 'S', PAR(I())))
    out.append(('var', 'char', P(P(I(), ['const']), ['volatile', 'const'])))
    out.append(('var', 'long', ARR(ARR(ARR(I(), 2), 3), 5)))                  # x[2][3][5]
    out.append(('var', 'short', ARR(ARR(I(), None), 7)))                      # x[][7]
    out.append(('var', 'double', ARR(PAR(P(I())), 3)))                        # (*x)[3]
    out.append(('var', 'double', P(ARR(I(), 3))))                             # *x[3]
    out.append(('var', 'S', ARR(PAR(P(ARR(I(), 2))), 7)))                     # (*x[2])[7]
    out.append(('var', 'int', FUN(I(), V)))
    out.append(('var', 'int', FUN(I(), U)))
    out.append(('var', 'void', FUN(I(), L([('int', I(1)), ('S', I(2))], True))))
    out.append(('var', 'char', P(FUN(I(), L([('char', ARR(I(1), None))])))))  # *x(char p1[])
    out.append(('var', 'int', FUN(PAR(P(I())), L([('int', ARR(ARR(A, 3), 5))]))))        # (*x)(int [3][5])
    out.append(('var', 'int', FUN(PAR(P(I())), L([('int', FUN(I(1), L([('long', A)])))]))))   # (*x)(int p1(long))
    out.append(('var', 'void', P(FUN(PAR(P(FUN(I(), L([('int', A)])))), L([('double', A)])))))  # *(*x(int))(double)
    out.append(('param', 'int', ARR(I(), 3)))
    out.append(('param', 'int', ARR(ARR(I(), None), 5)))
    out.append(('param', 'S', ARR(ARR(I(), 2), 3)))
    out.append(('param', 'char', P(ARR(I(), None))))                          # char *x[]  (argv)
    out.append(('param', 'int', FUN(I(), V)))                                 # int x(void) -> pointer
    out.append(('param', 'double', FUN(I(), L([('int', ARR(A, 4))]))))
    out.append(('param', 'long', ARR(PAR(P(I())), 3)))                        # (*x)[3]: not adjusted
    out.append(('param', 'S', I()))
    out.append(('param', 'int', ARR(A, 3)))                                   # unnamed
    out.append(('param', 'char', P(P(A))))
    out.append(('typename', 'int', A))
    out.append(('typename', 'S', P(A)))
    out.append(('typename', 'int', ARR(A, 3)))
    out.append(('typename', 'char', P(ARR(A, 3))))                            # char *[3]
    out.append(('typename', 'char', ARR(PAR(P(A)), 3)))                       # char (*)[3]
    out.append(('typename', 'int', FUN(PAR(P(A)), L([('int', A), ('char', P(A))]))))     # int (*)(int, char *)
    out.append(('typename', 'S', P(ARR(PAR(P(ARR(A, 2))), 7))))               # struct S *(*[2])[7]
    out.append(('typename', 'long', ARR(PAR(ARR(A, 3)), 5)))                  # long ([3])[5]
    out.append(('typename', 'int', FUN(PAR(P(ARR(A, 2))), U)))                # int (*[2])()
    # the former findings (fixed by 8507b9f / fbdf355): inside the hypotheses now
    out.append(('param', 'int', FUN(A, U)))                                   # void f(int ())     -> int (*)()
    out.append(('param', 'int', FUN(A, L([('int', A)]))))                     # void f(int (int))  -> int (*)(int)
    out.append(('param', 'int', FUN(A, V)))                                   # void f(int (void)) -> int (*)(void)
    out.append(('param', 'char', P(FUN(A, L([('S', A), ('long', P(A))], True)))))   # char *(struct S, long *, ...)
    out.append(('typename', 'int', FUN(A, L([('int', A)]))))                  # typeof(int (int))
    out.append(('typename', 'int', FUN(PAR(FUN(A, U)), V)))                   # int (())(void): invalid, accepted
    out.append(('typename', 'char', ARR(A, 4294967299)))                      # array too large
    out.append(('typename', 'int', ARR(ARR(A, 70000), 70000)))                # array too large
    out.append(('var', 'char', ARR(I(), 2147483648)))                         # array too large
    out.append(('typename', 'char', ARR(A, 2147483647)))                      # the largest accepted array
    out.append(('typename', 'int', ARR(A, 536870911)))
    out.append(('typename', 'int', ARR(A, 536870912)))                        # one element too many
    out.append(('typename', 'S', ARR(ARR(A, 8192), 16384)))                   # 16 * 8192 * 16384 = 2^31
    out.append(('typename', 'S', ARR(ARR(A, 8191), 16384)))                   # just below
    out.append(('var', 'long', ARR(PAR(P(I())), 268435456)))                  # long (*x)[2^28]: pointer to too large
    out.append(('param', 'int', ARR(I(), 3000000000)))                        # tested before the adjustment
    out.append(('var', 'int', FUN(I(), L([('char', ARR(ARR(I(1), None), 2147483648))]))))
    # not C11 but accepted (c11_ok may still hold: the constraint is semantic)
    out.append(('var', 'int', FUN(ARR(I(), 3), V)))                           # array of functions
    out.append(('var', 'int', ARR(PAR(FUN(I(), V)), 3)))                      # function returning array
    out.append(('var', 'int', FUN(I(), L([('int', A), ('void', A)]))))        # void among the parameters
    out.append(('var', 'int', ARR(FUN(I(), V), 3)))                           # f(void)[3]: suffix behind a parameter list
    # raw token lists (model only)
    out.append(('raw', 'int', ['#0', '[', 'static', 'restrict', 3, ']']))
    out.append(('rawparam', 'int', ['#0', '[', 'restrict', 'static', 3, ']', '[', 'static', 5, ']']))
    out.append(('rawparam', 'int', ['#0', '[', 'const', 3, ']']))                        # accepted since 053b61b
    out.append(('rawparam', 'int', ['#0', '[', 'static', 'const', 'volatile', 'restrict', 2, ']']))
    out.append(('rawparam', 'int', ['#0', '[', 'const', ']']))
    out.append(('raw', 'int', ['#0', '[', 'volatile', 3, ']', '[', 'const', 5, ']']))
    out.append(('rawparam', 'int', ['(', 'const', ')']))                                 # outside the model: declspec eats const
    out.append(('raw', 'int', ['#0', '(', '#1', ',', '#2', ')']))                        # identifier list -> int p1, int p2
    out.append(('raw', 'int', ['#0', '(', 'int', ',', '...', ')']))
    out.append(('raw', 'int', ['#0', '(', '...', ')']))
    out.append(('raw', 'int', ['*', 'const', '*', '(', '*', 'volatile', '#0', ')', '[', 3, ']']))
    out.append(('raw', 'int', ['(', '(', '(', '#0', ')', ')', ')', '[', 2, ']', '[', 3, ']']))
    out.append(('raw', 'int', ['#0', '[', ']', '[', ']']))
    out.append(('raw', 'int', ['(', ')']))                                               # nothing declared
    out.append(('raw', 'int', ['(', '*', '#0']))                                         # missing )
    return out

def gen_cases(seed, n):
    rng = random.Random(seed); g = Gen(rng)
    cases = boundary_cases()
    while len(cases) < n:
        r = rng.random(); depth = rng.choice([1, 2, 2, 3, 3, 4, 4, 5, 6])
        if r < 0.42:
            t = g.ty(depth, True, True, True); b, d = g.named(t); cases.append(('var', b, d))
        elif r < 0.64:
            t = g.ty(depth, True, True, True); b, d = g.named(t); cases.append(('param', b, d))
        elif r < 0.86:
            t = g.ty(depth, rng.random() < 0.2, True, True); b, d = g.abstract(t); cases.append(('typename', b, d))
        else:
            named = rng.random() < 0.6
            cases.append(('var' if named else 'typename', g.leaf(), g.wild(depth, named)))
    return cases[:max(n, 0)] if n < len(cases) else cases

# ---------------------------------------------------------------- Coq side
COQ_HEAD = r'''
From Coq Require Import List ZArith Bool.
From Chibicc Require Import Spec.DeclSyntax Spec.DeclSpec6_7_6 Model.Declarator
     Proofs.DeclaratorParse Proofs.DeclaratorTypes Proofs.DeclaratorSizes.
Import ListNotations.
Local Open Scope Z_scope.
Set Printing Width 1000000. Set Printing Depth 1000000.
Definition NA : Z := -1000000007.
Definition oz (o : option Z) : Z := match o with Some z => z | None => NA end.
Definition leaf_ser (l : leaf) : list Z :=
  match l with LVoid => [0;0;0] | LChar => [1;0;0] | LShort => [2;0;0] | LInt => [3;0;0] | LLong => [4;0;0]
             | LDouble => [5;0;0] | LAgg s a => [6;s;a] end.
Definition qbit (q : qual) : Z := match q with QConst => 1 | QVolatile => 2 | QRestrict => 4 end.
Definition qmask (q : list qual) : Z := fold_right Z.lor 0 (map qbit q).
Definition kcode (k : fkind) : Z := match k with FNoProto => 0 | FProto => 1 | FVariadic => 2 end.
Fixpoint ser (t : ty) : list Z :=
  match t with
  | TLeaf l => 0 :: leaf_ser l
  | TPtr q t' => 1 :: qmask q :: ser t'
  | TArr (Some n) t' => 2 :: n :: ser t'
  | TArr None t' => 3 :: ser t'
  | TFun r ps k => 4 :: kcode k :: Z.of_nat (length ps) :: ser r ++ flat_map ser ps
  end.
Fixpoint chain_t (t : ty) : list Z :=
  oz (sizeof t) :: oz (alignof t) ::
  match t with TLeaf _ => [] | TPtr _ t' => chain_t t' | TArr _ t' => chain_t t' | TFun r _ _ => chain_t r end.
Fixpoint chain_m (m : mty) : list Z :=
  ty_size m :: ty_align m ::
  match m with MBase _ => [] | MPtr b => chain_m b | MArr b _ _ _ => chain_m b | MFunc r _ _ => chain_m r end.
Definition b2z (b : bool) : Z := if b then 1 else 0.
Definition nm (o : option ident) : Z := match o with Some k => Z.of_nat k | None => -1 end.
(* model outputs: [1; name; #rest] ++ [len ser] ++ ser ++ chain   |  [0] error  |  [2] out of fuel *)
Definition out_m (r : res (option ident * mty * list tok)) : list Z :=
  match r with
  | Ok (n, m, rest) => 1 :: nm n :: Z.of_nat (length rest) :: Z.of_nat (length (ser (shape m))) :: ser (shape m) ++ chain_m m
  | Err => [0] | OutOfFuel => [2] | TooLarge => [3]
  end.
Definition first_param (r : res (option ident * mty * list tok)) : res (option ident * mty * list tok) :=
  match r with
  | Ok (_, MFunc _ ((n, m) :: _) _, rest) => Ok (n, m, rest)
  | Ok _ => Err
  | Err => Err | OutOfFuel => OutOfFuel | TooLarge => TooLarge
  end.
Definition out_tn (r : res (mty * list tok)) : list Z :=
  match r with Ok (m, rest) => out_m (Ok (None, m, rest)) | Err => [0] | OutOfFuel => [2] | TooLarge => [3] end.
Definition out_s (t : ty) (ok : bool) (eok : bool) (big : bool) : list Z :=
  b2z ok :: b2z eok :: b2z big :: Z.of_nat (length (ser t)) :: ser t ++ chain_t t.
Definition fwrap (b : leaf) (d : decl) : decl := DDirect (DFunc (DIdent (Some 99%nat)) (PList (POne (Param b d)) false)).
Definition case_var (b : leaf) (d : decl) :=
  (out_m (parse_declarator (print_decl d ++ [TOther]) (MBase b)),
   out_s (type_of (TLeaf b) d) (c11_ok d) (leaf_in_range b && elems_ok d (TLeaf b)) (oversize d (TLeaf b))).
Definition case_param (b : leaf) (d : decl) :=
  (out_m (first_param (parse_declarator (print_decl (fwrap b d) ++ [TOther]) (MBase LVoid))),
   out_s (param_type (Param b d)) (c11_ok (fwrap b d)) (elems_ok (fwrap b d) (TLeaf LVoid)) (oversize (fwrap b d) (TLeaf LVoid))).
Definition case_tn (b : leaf) (d : decl) :=
  (out_tn (parse_typename (TBase b :: print_decl d ++ [TRParen])),
   out_s (type_of (TLeaf b) d) (c11_ok d && match name_of d with None => true | _ => false end)
         (leaf_in_range b && elems_ok d (TLeaf b)) (oversize d (TLeaf b))).
Definition case_raw (b : leaf) (ts : list tok) :=
  (out_m (parse_declarator (ts ++ [TOther]) (MBase b)), @nil Z).
Definition case_rawparam (b : leaf) (ts : list tok) :=
  (out_m (first_param (parse_declarator ([TIdent 99%nat; TLParen; TBase b] ++ ts ++ [TRParen; TOther]) (MBase LVoid))), @nil Z).
'''

def run_coq(cases, verif_dir, tmp):
    theories = os.path.join(verif_dir, 'coq', 'theories')
    body = [COQ_HEAD]
    for i, (ctx, b, d) in enumerate(cases):
        if ctx in ('raw', 'rawparam'):
            body.append('Eval vm_compute in (%d, case_%s %s [%s]).' % (i, ctx, LEAF_COQ[b], '; '.join(coq_tok(t) for t in d)))
        else:
            fn = {'var': 'case_var', 'param': 'case_param', 'typename': 'case_tn'}[ctx]
            body.append('Eval vm_compute in (%d, %s %s %s).' % (i, fn, LEAF_COQ[b], coq_decl(d)))
    f = os.path.join(tmp, 'Cases_decl.v')
    open(f, 'w').write('\n'.join(body) + '\n')
    p = subprocess.run(['coqc', '-Q', theories, 'Chibicc', '-w', '-deprecated-syntactic-definition,-deprecated', f],
                       cwd=tmp, capture_output=True, text=True, timeout=300)
    if p.returncode != 0: raise RuntimeError('coqc failed: ' + (p.stderr or p.stdout)[-2000:])
    res = {}
    for m in re.finditer(r'=\s*\((\d+),\s*\(\[([^\]]*)\],\s*\[([^\]]*)\]\)\)', p.stdout):
        nums = lambda s: [int(x.replace('(', '').replace(')', '')) for x in s.replace('\n', ' ').split(';') if x.strip()]
        res[int(m.group(1))] = (nums(m.group(2)), nums(m.group(3)))
    if len(res) != len(cases): raise RuntimeError('coqc output not understood: %d of %d' % (len(res), len(cases)))
    return res

def dec_ty(a, i=0):
    tag = a[i]
    if tag == 0:
        code, s, al = a[i + 1], a[i + 2], a[i + 3]
        return (('leaf', LEAVES[code]) if code < 6 else ('leaf', ('agg', s, al))), i + 4
    if tag == 1:
        t, j = dec_ty(a, i + 2); return ('ptr', [q for k, q in enumerate(QUALS) if a[i + 1] >> k & 1], t), j
    if tag == 2:
        t, j = dec_ty(a, i + 2); return ('arr', a[i + 1], t), j
    if tag == 3:
        t, j = dec_ty(a, i + 1); return ('arr', None, t), j
    k, n = a[i + 1], a[i + 2]
    r, j = dec_ty(a, i + 3); ps = []
    for _ in range(n):
        p, j = dec_ty(a, j); ps.append(p)
    return ('fun', k, r, ps), j

def unq(t):
    if t[0] == 'leaf': return t
    if t[0] == 'ptr': return ('ptr', [], unq(t[2]))
    if t[0] == 'arr': return ('arr', t[1], unq(t[2]))
    return ('fun', t[1], unq(t[2]), [unq(p) for p in t[3]])

def dec_model(a):
    if a[0] != 1: return {'status': {0: 'err', 2: 'fuel', 3: 'toolarge'}[a[0]]}
    ln = a[3]; t, j = dec_ty(a, 4); assert j == 4 + ln
    return {'status': 'ok', 'name': a[1], 'rest': a[2], 'type': t, 'chain': a[4 + ln:]}
def dec_spec(a):
    if not a: return None
    ln = a[3]; t, j = dec_ty(a, 4); assert j == 4 + ln
    return {'c11_ok': a[0] == 1, 'elems_ok': a[1] == 1, 'oversize': a[2] == 1, 'type': t, 'chain': a[4 + ln:]}

# ---------------------------------------------------------------- C side
def leaf_c(l):
    if isinstance(l, tuple): return 'struct S' if l == ('agg', 16, 8) else None
    return LEAF_C[l]
def tyname(t, inner=''):
    """the type t written as a C type name around `inner` (mirror of Spec.decl_for)"""
    if t[0] == 'leaf': return (leaf_c(t[1]) + ' ' + inner).strip()
    if t[0] == 'ptr':
        s = '*' + ''.join(' ' + q for q in t[1]) + (' ' if t[1] and inner else '') + inner
        if t[2][0] in ('arr', 'fun'): s = '(' + s + ')'
        return tyname(t[2], s)
    if t[0] == 'arr': return tyname(t[2], inner + ('[%d]' % t[1] if t[1] is not None else '[]'))
    k, r, ps = t[1], t[2], t[3]
    if not ps: pars = 'void' if k == 1 else ''
    else: pars = ', '.join(tyname(p) for p in ps) + (', ...' if k == 2 else '')
    return tyname(r, inner + '(' + pars + ')')
def has_arr(t):
    if t[0] == 'leaf': return False
    if t[0] == 'arr': return True
    if t[0] == 'ptr': return has_arr(t[2])
    return has_arr(t[2]) or any(has_arr(p) for p in t[3])
def has_void_param_or_odd(t):
    if t[0] == 'leaf': return False
    if t[0] in ('ptr', 'arr'): return has_void_param_or_odd(t[2])
    # a function returning a function / an array cannot be written as a type name that parse.c reads back
    return t[2][0] in ('fun', 'arr') or any(p == ('leaf', 'void') for p in t[3]) or has_void_param_or_odd(t[2]) \
        or any(has_void_param_or_odd(p) for p in t[3])
def printable(t):
    """sizeof / _Alignof are defined for t (C11 6.5.3.4p1) and chibicc stores a meaningful number"""
    if t[0] == 'fun': return False
    if t == ('leaf', 'void'): return False
    if t[0] == 'arr': return t[1] is not None and printable(t[2])
    return True
def arg_for(p):
    if p[0] == 'leaf' and isinstance(p[1], tuple): return 's0'
    if p[0] == 'leaf' and p[1] == 'void': return None
    return '0'
def probes(t, e='x'):
    """[(level, kind, C expression or None)] walking from the identifier inwards"""
    out = []; lvl = 0
    while True:
        if printable(t): out += [(lvl, 's', '(long)sizeof(%s)' % e), (lvl, 'a', '(long)_Alignof(typeof(%s))' % e)]
        else: out += [(lvl, 's', None), (lvl, 'a', None)]
        if t[0] == 'leaf': break
        if t[0] == 'ptr':
            if t[2] == ('leaf', 'void'):
                out += [(lvl + 1, 's', None), (lvl + 1, 'a', None)]; break
            e = '(*%s)' % e; t = t[2]
        elif t[0] == 'arr': e = '(%s[0])' % e; t = t[2]
        else:
            args = [arg_for(p) for p in t[3]]
            if any(a is None for a in args): stop = True
            else: stop = False
            if stop:
                # a void parameter: not callable; give up below this level
                u = t[2]
                while True:
                    lvl += 1; out += [(lvl, 's', None), (lvl, 'a', None)]
                    if u[0] == 'leaf': break
                    u = u[2]
                break
            e = '(%s(%s))' % (e, ', '.join(args)); t = t[2]
        lvl += 1
    return out

def c_program(ctx, decl_text, typename_text, mtype, generic_ok, named=True, gtype=None):
    if gtype is None: gtype = mtype
    lines = ['int printf(const char*, ...);', 'struct S { char c; long l; };', 'struct S s0;']
    if ctx in ('param', 'rawparam') and not named:
        # an unnamed parameter is visible only in the function's type
        gen = '_Generic(f99, %s: 1, default: 0)' % tyname(('ptr', [], ('fun', 1, ('leaf', 'void'), [gtype])))
        lines += ['void f99(%s);' % decl_text, 'int main(void) { printf("%%d\\n", %s); return 0; }' % gen]
        return '\n'.join(lines) + '\n'
    pr = probes(mtype)
    vals = [p[2] if p[2] else '%dL' % NA for p in pr]
    gen = None
    if generic_ok:
        u = decayed(gtype)
        gen = '_Generic(x, %s: 1, default: 0)' % tyname(u)
        o = other_form(u)
        if o is not None: gen += ', _Generic(x, %s: 1, default: 0)' % tyname(o)
    fmt = ' '.join(['%ld'] * len(vals)) + ((' %d %d' if ', _Generic' in gen else ' %d') if gen else '') + r'\n'
    args = ', '.join(vals + ([gen] if gen else []))
    body = 'printf("%s", %s);' % (fmt, args)
    if ctx in ('var', 'raw'):
        lines += ['extern %s;' % decl_text, 'int main(void) { %s return 0; }' % body]
    elif ctx in ('param', 'rawparam'):
        a = arg_for(mtype) or '0'
        lines += ['void f99(%s) { %s }' % (decl_text, body), 'int main(void) { f99(%s); return 0; }' % a]
    else:
        extra = ''
        if printable(mtype):
            extra = ' printf("%%ld\\n", (long)sizeof(%s));' % typename_text
        lines += ['extern typeof(%s) x;' % typename_text, 'int main(void) { %s%s return 0; }' % (body, extra)]
    return '\n'.join(lines) + '\n'

def decayed(u):
    """the type of the controlling expression `x` of _Generic: functions and arrays decay to pointers"""
    if u[0] == 'fun': return ('ptr', [], u)
    if u[0] == 'arr': return ('ptr', [], u[2])
    return u

def other_form(u):
    """for a pointer to a function without parameters: the same type with `()` and `(void)` exchanged.  chibicc keeps
    the two apart (is_variadic), so its _Generic must NOT select it - this is what tells `()` from `(void)`; in C11
    the two are compatible, so nothing is expected from the spec / gcc at this position (None)"""
    if u[0] == 'ptr' and u[2][0] == 'fun' and not u[2][3] and u[2][1] in (0, 1):
        f = u[2]; return ('ptr', u[1], ('fun', 1 - f[1], f[2], []))
    return None

def predicted(ctx, t, chain, generic_ok, named, side='model'):
    """the numbers the program above prints if the declared type is t with the per-level (size, align) chain"""
    if ctx in ('param', 'rawparam') and not named: return [1]
    out = expected_numbers(ctx, t, chain) + ([1] if generic_ok else [])
    if generic_ok and other_form(decayed(t)) is not None:
        out = out + [0 if side == 'model' else None]
    if ctx == 'typename' and printable(t): out = out + [chain[0]]
    return out

def compile_run(cmd, tmp, name, text):
    src = os.path.join(tmp, name + '.c'); exe = os.path.join(tmp, name + '.exe')
    open(src, 'w').write(text)
    try:
        p = subprocess.run(cmd + ['-o', exe, src], capture_output=True, text=True, timeout=60)
        if p.returncode != 0:
            msg = (p.stderr or p.stdout).strip().splitlines()[-1:] or ['']
            return ('toolarge' if 'array too large' in msg[0] else 'reject', msg)
        q = subprocess.run([exe], capture_output=True, text=True, timeout=20)
        if q.returncode != 0: return ('crash', q.returncode)
        return ('ok', [int(x) for x in q.stdout.split()])
    except subprocess.TimeoutExpired:
        return ('timeout', None)

def expected_numbers(ctx, t, chain):
    """what the C program prints if the type is t with the given per-level (size, align) chain"""
    pr = probes(t); out = []
    for i, p in enumerate(pr):
        out.append(chain[i] if (p[2] and i < len(chain)) else NA)
    return out

# ---------------------------------------------------------------- driver
def case_text(ctx, b, d):
    if ctx in ('raw', 'rawparam'): return LEAF_C[b] + ' ' + ' '.join(c_tok(t) for t in d)
    return (LEAF_C[b] + ' ' + c_decl(d)).strip()

def run(src_dir, seed=1, n=400, verif_dir=None):
    t0 = time.time()
    if verif_dir is None: verif_dir = os.path.dirname(os.path.dirname(os.path.abspath(__file__)))
    cc = os.path.join(src_dir, 'chibicc')
    cases = gen_cases(seed, n)
    tmp = tempfile.mkdtemp(prefix='tie_decl_')
    try:
        coq = run_coq(cases, verif_dir, tmp)
        jobs = []
        for i, (ctx, b, d) in enumerate(cases):
            M = dec_model(coq[i][0]); S = dec_spec(coq[i][1])
            text = case_text(ctx, b, d)
            # the program is derived from the model's type; if the model rejects, from the spec's (expect a rejection)
            steer = M['type'] if M['status'] == 'ok' else (S['type'] if S else ('leaf', 'int'))
            steer_u = unq(steer)
            named = not (M['status'] == 'ok' and M['name'] == -1) if ctx in ('param', 'rawparam') else True
            generic_ok = not has_void_param_or_odd(steer_u) and steer_u != ('leaf', 'void')
            if not named and not generic_ok: named = True      # nothing observable: let it fail loudly
            # the association of the _Generic probe is written WITH the spec's qualifiers when the types agree
            # (gcc compares them; chibicc has none); top-level qualifiers are dropped by lvalue conversion
            gtype = steer_u
            if S is not None and unq(S['type']) == steer_u:
                gtype = S['type'] if S['type'][0] != 'ptr' else ('ptr', [], S['type'][2])
            prog = c_program(ctx, text, text, steer_u, generic_ok, named, gtype)
            jobs.append((i, ctx, b, d, M, S, text, steer_u, generic_ok, named, prog))
        have_gcc = shutil.which('gcc') is not None
        def work(j):
            i, ctx, b, d, M, S, text, steer_u, generic_ok, named, prog = j
            r = compile_run([cc], tmp, 'c%d' % i, prog)
            g = None
            if have_gcc and S is not None and S['c11_ok']:
                g = compile_run(['gcc', '-w', '-std=gnu11', '-Dtypeof=__typeof__'], tmp, 'g%d' % i, prog)
            return r, g
        with ThreadPoolExecutor(max_workers=4) as ex: results = list(ex.map(work, jobs))
        impl_vs_spec, impl_vs_model, deviations, spec_vs_gcc, samples = [], [], [], [], []
        dist = {'ctx': {}, 'depth': {}, 'features': {}, 'class': {}, 'chibicc': {}}
        distinct = set(); evaluations = 0
        def bump(k, v): dist[k][v] = dist[k].get(v, 0) + 1
        for j, (r, g) in zip(jobs, results):
            i, ctx, b, d, M, S, text, steer_u, generic_ok, named, prog = j
            evaluations += 1
            bump('ctx', ctx)
            if ctx not in ('raw', 'rawparam'):
                dl = dtl_len(d); bump('depth', str(dl)); fs = set(); feats(d, fs)
                for f in sorted(fs): bump('features', f)
                if dl >= 2: distinct.add((ctx, b, json.dumps(d)))
            else:
                if len(d) >= 4: distinct.add((ctx, b, json.dumps(d)))
            inside = S is not None and S['c11_ok'] and S['elems_ok']
            bump('class', 'raw-tokens' if S is None else
                 (('inside-hypotheses-oversize' if S['oversize'] else 'inside-hypotheses') if inside else 'outside-hypotheses'))
            bump('chibicc', r[0])
            # --- the model's prediction of the program's output: "array too large" is error_tok; tokens left over in
            #     front of ";" / ")" and a missing name in a declaration make the caller report an error
            if M['status'] == 'toolarge':
                pred_m = ('toolarge', None)
            elif M['status'] == 'ok' and M['rest'] == 1 and not (ctx in ('var', 'raw') and M['name'] == -1):
                pred_m = ('ok', predicted(ctx, steer_u, M['chain'], generic_ok, named))
            else:
                pred_m = ('reject', None)
            case_id = {'i': i, 'ctx': ctx, 'c': text}
            def agree(out, exp): return len(out) == len(exp) and all(e is None or e == o for o, e in zip(out, exp))
            ok_m = (r[0] == pred_m[0]) and (r[0] != 'ok' or r[1] == pred_m[1])
            if not ok_m:
                impl_vs_model.append({'case': case_id, 'impl': r, 'model': pred_m})
            # --- the property itself
            if S is not None:
                same_type = M['status'] == 'ok' and M['type'] == unq(S['type'])
                exp_full = predicted(ctx, steer_u, S['chain'], generic_ok, named, 'spec') if same_type else None
                good_full = same_type and r[0] == 'ok' and agree(r[1], exp_full)
                info = {'case': case_id, 'c11_ok': S['c11_ok'], 'elems_ok': S['elems_ok'], 'oversize': S['oversize'], 'impl': r,
                        'spec': {'type': tyname(unq(S['type']), 'x'), 'numbers': exp_full,
                                 'expected': (('rejected with "array too large"' if S['oversize'] else 'accepted')
                                              if inside else 'nothing (outside the hypotheses)')},
                        'model_type': tyname(M['type'], 'x') if M['status'] == 'ok' else M['status']}
                if inside and S['oversize']:
                    # an implementation limit: the ONLY allowed answer is the located diagnostic
                    if r[0] != 'toolarge': impl_vs_spec.append(info)
                elif inside:
                    if not good_full: impl_vs_spec.append(info)
                elif not good_full:
                    deviations.append(info)
                # --- gcc against the spec (only where the program was derived from the spec's own type)
                if g is not None and same_type and g[0] == 'ok' and not agree(g[1], exp_full):
                    spec_vs_gcc.append({'case': case_id, 'gcc': g, 'spec': exp_full})
            if len(samples) < 6:
                samples.append({'case': case_id, 'chibicc': r, 'model': pred_m,
                                'spec_type': tyname(unq(S['type']), 'x') if S else None})
        return {'evaluations': evaluations, 'distinct_nontrivial': len(distinct), 'distribution': dist,
                'impl_vs_spec': impl_vs_spec, 'impl_vs_model': impl_vs_model,
                'deviations_outside_hypotheses': deviations, 'spec_vs_gcc': spec_vs_gcc,
                'samples': samples, 'seed': seed, 'seconds': round(time.time() - t0, 1)}
    finally:
        shutil.rmtree(tmp, ignore_errors=True)

if __name__ == '__main__':
    if len(sys.argv) < 2:
        print('usage: tie_decl.py <src_dir> [seed] [n]'); sys.exit(2)
    src = sys.argv[1]; seed = int(sys.argv[2]) if len(sys.argv) > 2 else 1; n = int(sys.argv[3]) if len(sys.argv) > 3 else 400
    print(json.dumps(run(src, seed, n, os.path.dirname(os.path.dirname(os.path.abspath(__file__)))), indent=1))
