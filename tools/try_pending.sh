#!/bin/bash
# try_pending.sh <name under seeded/_pending> <property id>: confirm the change in a scratch worktree, then apply it to /repo, run the quick check, undo
name=$1; id=$2; d=/verif/seeded/_pending/$name
[ -n "$(git -C /repo status --porcelain)" ] && { echo "/repo has uncommitted changes"; exit 2; }
res=$(/verif/tools/confirm_seed.sh $d | tail -1); echo "confirm: $res"
git -C /repo apply $d/patch.diff || exit 3
cd /verif; out=$(./check $id quick 2>&1); rc=$?
git -C /repo checkout -- .
echo "$name: check $id quick exit=$rc $(echo "$out" | grep -c '^VIOLATION') violation line(s) $(echo "$out" | grep -o 'no-failing-input-found' | head -1)"
echo "$out" | grep '^VIOLATION' | head -3
