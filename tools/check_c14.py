#!/usr/bin/env python3
"""C14 - driver process discipline under failure and concurrency.
   proof (for every mode, -o, input list and outcome pattern: exit status, temporaries, outputs,
   stop at first failure; non-interference of disjoint runs) + correspondence: the real driver,
   in a private mount namespace with its own /tmp and shimmed as/ld, on EVERY command shape x
   EVERY single point of failure, compared with the extracted model (exit status, files
   changed, temporaries left, number of as/ld invocations)."""
import os, sys, time, random, json, itertools
sys.path.insert(0, os.path.dirname(os.path.abspath(__file__)))
from vlib import *

PID = 'C14'
THEOREMS = ['C14_driver_discipline', 'C14_failed_unit_output_untouched', 'C14_noninterference', 'C14_nonvacuous']
MODELRUN = os.path.join(VERIF, 'ocaml/modelrun')

def model(queries):
    rc, out, err = sh([MODELRUN, 'driver'], input='\n'.join(queries) + '\n')
    res = []
    for l in out.strip().split('\n'):
        d = dict(x.split('=', 1) for x in l.split(' '))
        res.append(dict(exit=int(d['exit']), tmps=d['tmps'], spawns=[s for s in d['spawns'].split(',') if s], written=[w for w in d['written'].split(',') if w]))
    return res

def path_name(p, kinds, mode):
    if p == 'opt': return 'out.bin'
    if p == 'a.out': return 'a.out'
    if p.startswith('out'):
        i = int(p[3:]); return 'in%d.%s' % (i, 's' if mode == 'S' else 'o')
    return p

def main():
    run = Run(PID, THEOREMS)
    rng = run.rng
    try:
        src = build_impl()
    except BuildFailed as e:
        run.proof_broken.append('scratch build of /repo failed: ' + str(e)[-800:])
        return run.finish(dict(evaluations=0), [], [])
    run.check_proofs(deps=['theories/Model/Driver.vo'])
    NCORPUS = run_corpus(run, PID, src)          # minimised past failures first
    rc, o, e = sh([os.path.join(VERIF, 'ocaml/build.sh')], timeout=900)
    if rc != 0:
        run.corr_broken.append('extracted model does not build: ' + (o + e)[-300:])
        return run.finish(dict(evaluations=0), [], [])
    rc, o, e = sh(['unshare', '-m', 'true'])
    if rc != 0:
        run.corr_broken.append('cannot create a private mount namespace (unshare -m): ' + e[-200:])
        return run.finish(dict(evaluations=0), [], [])

    # ---- every command shape: 4 modes x with/without -o x 1..3 inputs over {C, A, O}
    shapes = []
    for mode in 'ESCL':
        for has_o in (False, True):
            for n in (1, 2, 3):
                for kinds in itertools.product('CAO', repeat=n):
                    shapes.append((mode, has_o, ''.join(kinds)))
    if run.quick():
        shapes = [s for s in shapes if len(s[2]) <= 2] + rng.sample([s for s in shapes if len(s[2]) == 3], 40)
    # fault-free model run gives the subprocess pipeline; then one scenario per single point of failure
    base = model(['%s %d %s -1' % (m, o, k) for m, o, k in shapes])
    scen = []
    for (m, o, k), b in zip(shapes, base):
        scen.append((m, o, k, -1, 'exit'))
        for fi in range(len(b['spawns'])):
            scen.append((m, o, k, fi, 'exit'))
            if not b['spawns'][fi].startswith('cc1') and (not run.quick() or rng.random() < 0.3):
                scen.append((m, o, k, fi, 'signal'))
    preds = model(['%s %d %s %d' % (m, o, k, f) for m, o, k, f, h in scen])

    def run_one(x):
        (m, o, k, f, how), b = x
        sc = dict(mode=m, has_o=o, kinds=k, how=how, main_at=(k.index('C') if 'C' in k else 0) if m == 'L' else -1)
        if f >= 0:
            sp = b['spawns'][f]             # the process that fails in the model
            name = sp.rstrip('+-')
            if name.startswith('cc1:'): sc['bad_c'] = int(name[4:])
            elif name.startswith('as:'):
                sc['as_fail'] = sum(1 for s in b['spawns'][:f + 1] if s.startswith('as:'))
            else: sc['ld_fail'] = 1
        rc, out, err = sh(['unshare', '-m', 'python3', os.path.join(VERIF, 'tools/c14_scenario.py'), src, json.dumps(sc)], timeout=120)
        try: obs = json.loads(out.strip().split('\n')[-1])
        except Exception: obs = dict(error=(out + err)[-300:])
        return sc, obs
    evals = 0; nontriv = set(); samples = []; dist = dict(shapes=len(shapes), scenarios=len(scen), by_mode={}, fault_kinds={})
    results = pmap(run_one, list(zip(scen, preds)), workers=16)
    for ((m, o, k, f, how), b), (sc, obs) in zip(zip(scen, preds), results):
        evals += 1
        dist['by_mode'][m] = dist['by_mode'].get(m, 0) + 1
        fk = 'none' if f < 0 else b['spawns'][f].split(':')[0].rstrip('+-') + '/' + how
        dist['fault_kinds'][fk] = dist['fault_kinds'].get(fk, 0) + 1
        cmd = 'chibicc %s%s%s' % ({'E': '-E ', 'S': '-S ', 'C': '-c ', 'L': ''}[m], '-o out.bin ' if o else '', ' '.join('in%d.%s' % (i, {'C': 'c', 'A': 's', 'O': 'o'}[c]) for i, c in enumerate(k)))
        if 'error' in obs:
            run.corr_broken.append('scenario runner failed: ' + obs['error']); continue
        exp_changed = sorted(set(path_name(p, k, m) for p in b['written'] if p != 'stdout'))
        exp_as = sum(1 for s in b['spawns'] if s.startswith('as:')); exp_ld = sum(1 for s in b['spawns'] if s.startswith('ld'))
        problems = []
        if obs['exit'] != b['exit']: problems.append('exit status %d, model %d' % (obs['exit'], b['exit']))
        if obs['leftover']: problems.append('temporary files left: %s' % obs['leftover'])
        if obs['removed']: problems.append('files removed: %s' % obs['removed'])
        if obs['changed'] != exp_changed: problems.append('files written %s, model %s' % (obs['changed'], exp_changed))
        if obs['as_calls'] != exp_as or obs['ld_calls'] != exp_ld: problems.append('as/ld invocations %d/%d, model %d/%d' % (obs['as_calls'], obs['ld_calls'], exp_as, exp_ld))
        if ('stdout' in b['written']) != (obs['stdout_len'] > 0) and m == 'E' and not o: problems.append('-E output presence differs')
        if f >= 0: nontriv.add((m, o, k, f, how))
        if problems:
            # property-level violations (independent of the model): status, leftovers, failed unit's output touched
            bad_unit_out = None
            if f >= 0 and b['spawns'][f].startswith('cc1:'):
                i = int(b['spawns'][f].rstrip('+-')[4:]); bad_unit_out = 'out.bin' if o else 'in%d.%s' % (i, 's' if m == 'S' else 'o')
            prop = (f >= 0 and obs['exit'] == 0) or (f < 0 and b['exit'] == 0 and obs['exit'] != 0) or obs['leftover'] or \
                   (bad_unit_out and bad_unit_out in obs['changed']) or (f < 0 and obs['exit'] == 0 and obs['changed'] != exp_changed)
            rec = dict(kind='driver-discipline', command=cmd, fault=('none' if f < 0 else '%s fails by %s' % (b['spawns'][f].rstrip('+-'), how)),
                       problems=problems, observed=obs, model=b, scenario=sc,
                       replay='unshare -m python3 /verif/tools/c14_scenario.py <chibicc dir> \'%s\'' % json.dumps(sc))
            if prop: run.violation(rec, dict(area='driver', mode=m, fault=fk))
            else: run.corr_broken.append('%s [%s]: %s' % (cmd, rec['fault'], '; '.join(problems)))
        if len(samples) < 3 and f >= 0: samples.append(dict(command=cmd, fault=b['spawns'][f], observed={x: obs[x] for x in ('exit', 'changed', 'leftover')}))

    # ---- unreadable input / unwritable output directory
    for sc, what in [(dict(mode='C', has_o=False, kinds='CC', unreadable=1), 'unreadable input'),
                     (dict(mode='S', has_o=False, kinds='C', out_is_dir='in0.s'), 'unwritable output'),
                     (dict(mode='C', has_o=False, kinds='CC', out_is_dir='in1.o'), 'unwritable object output'),
                     (dict(mode='L', has_o=True, kinds='C', main_at=0, out_is_dir='out.bin'), 'unwritable output (link)'),
                     (dict(mode='C', has_o=False, kinds='CC', in_is_dir=1), 'input that cannot be read (a directory)'),
                     (dict(mode='S', has_o=False, kinds='C', in_is_dir=0), 'input that cannot be read (a directory), -S'),
                     (dict(mode='S', has_o=True, kinds='C', out_path='/dev/full'), 'output that cannot be written (/dev/full), -S'),
                     (dict(mode='E', has_o=True, kinds='C', out_path='/dev/full'), 'output that cannot be written (/dev/full), -E'),
                     (dict(mode='E', has_o=False, kinds='C', stdout_full=1), 'standard output that cannot be written, -E of a few bytes'),
                     (dict(mode='E', has_o=True, kinds='C', out_path='-', stdout_full=1), 'standard output that cannot be written, -E -o -'),
                     (dict(mode='S', has_o=True, kinds='C', out_path='-', stdout_full=1), 'standard output that cannot be written, -S -o -')]:
        rc, out, err = sh(['unshare', '-m', 'python3', os.path.join(VERIF, 'tools/c14_scenario.py'), src, json.dumps(sc)], timeout=120); evals += 1
        try: obs = json.loads(out.strip().split('\n')[-1])
        except Exception: run.corr_broken.append('scenario runner failed: ' + (out + err)[-200:]); continue
        bad_out = [c for c in obs['changed'] if sc.get('in_is_dir', -1) >= 0 and c.startswith('in%d.' % sc['in_is_dir']) and not c.endswith('.c')]
        if obs['exit'] == 0 or obs['leftover'] or obs['exit'] < 0 or obs['exit'] > 1 or bad_out:
            run.violation(dict(kind='driver-discipline', fault=what, observed=obs, scenario=sc, output_created_for_failed_unit=bad_out), dict(area='driver', fault=what))

    # ---- concurrent invocations in one directory
    conc = '''import os, sys, subprocess, json
binary = open(sys.argv[1] + '/chibicc', 'rb').read()
subprocess.run(['mount', '-t', 'tmpfs', 'none', '/tmp'], check=True)
os.makedirs('/tmp/bin'); open('/tmp/bin/chibicc', 'wb').write(binary); os.chmod('/tmp/bin/chibicc', 0o755); sys.argv[1] = '/tmp/bin'
os.makedirs('/tmp/w'); N = %d
for i in range(N): open('/tmp/w/u%%d.c' %% i, 'w').write('int v%%d(void) { return %%d; }\\n' %% (i, i))
ps = [subprocess.Popen([sys.argv[1] + '/chibicc', '-c', 'u%%d.c' %% i], cwd='/tmp/w') for i in range(N)]
rcs = [p.wait() for p in ps]
ok = all(os.path.exists('/tmp/w/u%%d.o' %% i) and os.path.getsize('/tmp/w/u%%d.o' %% i) > 0 for i in range(N))
syms = subprocess.run('nm /tmp/w/*.o | grep -c " T v"', shell=True, capture_output=True, text=True).stdout.strip()
print(json.dumps(dict(rcs=rcs, ok=ok, syms=syms, leftover=[x for x in os.listdir('/tmp') if x.startswith('chibicc-')])))
''' % (12 if run.quick() else 48)
    wd = scratch_dir(); open(os.path.join(wd, 'conc.py'), 'w').write(conc)
    for rep in range(2 if run.quick() else 8):
        rc, out, err = sh(['unshare', '-m', 'python3', os.path.join(wd, 'conc.py'), src], timeout=300); evals += 1
        try: obs = json.loads(out.strip().split('\n')[-1])
        except Exception: run.corr_broken.append('concurrency runner failed: ' + (out + err)[-200:]); continue
        n = 12 if run.quick() else 48
        if any(obs['rcs']) or not obs['ok'] or obs['leftover'] or obs['syms'] != str(n):
            run.violation(dict(kind='concurrent-invocations-interfere', observed=obs), dict(area='driver-concurrency'))

    cov = dict(evaluations=evals, distinct_nontrivial=len(nontriv), exhaustive=not run.quick(),
               rule='all command shapes (4 modes x with/without -o x 1..3 inputs over {.c,.s,.o}; 3-input shapes sampled in the quick tier) x no fault + every single point of failure of the resulting subprocess pipeline (k-th cc1 by a bad translation unit, k-th as and ld by PATH shims exiting 1 or killing themselves with SIGSEGV), unreadable input, unwritable output paths, and %d concurrent -c runs in one directory; each run in its own mount namespace with a private empty /tmp; non-trivial = a fault is injected' % (12 if run.quick() else 48),
               samples=samples, input_distribution=dist, traces_validated_against_impl=evals)
    return run.finish(cov,
        ['a failing as/ld leaves its output path untouched (true of the shims, and of GNU as/ld which remove partial output); the driver itself being killed is outside the property',
         'unshare -m (root) provides the private /tmp that makes "no temporary left" observable without interference from other processes'],
        ['Coq 8.16.1 kernel, no axioms', 'hand-written Model/Driver.v tied to main.c by the exhaustive scenario runs (exit status, files written, as/ld invocation counts, temporaries)',
         'tools/c14_scenario.py (scenario runner), the kernel file system and the real as/ld behind the shims'])

if __name__ == '__main__':
    sys.exit(main())
