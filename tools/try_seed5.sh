#!/bin/bash
# try_seed3.sh <ID> [check id]: confirm /tmp/mut5/<ID>/out in a scratch worktree, then apply it to /repo, run the quick check, undo
id=$1; pid=${2:-$id}; d=/tmp/mut5/$id/out
[ -n "$(git -C /repo status --porcelain)" ] && { echo "/repo has uncommitted changes"; exit 2; }
res=$(/verif/tools/confirm_seed.sh $d | tail -1); echo "confirm: $res"
git -C /repo apply $d/patch.diff || exit 3
cd /verif; out=$(./check $pid quick 2>&1); rc=$?
git -C /repo checkout -- .
python3 /verif/tools/gen_all.py /repo >/dev/null
echo "$id: check $pid quick exit=$rc $(echo "$out" | grep -c '^VIOLATION') violation line(s) $(echo "$out" | grep -o 'no-failing-input-found' | head -1)"
echo "$out" | grep '^VIOLATION' | head -3
