#!/usr/bin/env python3
"""Print the prompt given to an independent mutation sub-agent for one property."""
import json,sys
pid=sys.argv[1]
for l in open('/verif/properties.jsonl'):
    p=json.loads(l)
    if p['id']==pid: break
print(f"""You are helping evaluate a verification effort by seeding ONE realistic bug into a small C compiler (rui314/chibicc).

Your private checkout is the git worktree /tmp/mut/{pid}-wt (build with `make -j8`, run the suite with `make test`). Work ONLY inside /tmp/mut/{pid}-wt and /tmp/mut/{pid}-out. Do NOT read or touch /verif or /repo (other than through your worktree), and do not look for any other verification material on this machine.

The property your change must break:

  Title: {p['title']}
  Statement: {p['statement']}
  Quantified over: {p['quantifier']['text']}

Task: make a small change to chibicc's source (the kind of plausible mistake a developer makes in a refactoring, an "optimisation", an off-by-one, a wrong table entry, a forgotten case, two sites that each look fine alone but no longer agree) such that
  1. chibicc still compiles (`make -j8`) without new warnings that would give it away;
  2. the whole existing test suite still passes (`make test` prints OK for every test and driver.sh passes) - run it and confirm;
  3. the property above is now violated for SOME input, but only one that needs something specific to manifest: an unusual input, a boundary value, a multi-step sequence of operations, a particular position relative to a threshold, a fault at a particular point - NOT something ordinary everyday use would expose at once.
The unchanged tree already contains some bugs of its own; your change must introduce NEW misbehaviour: your demonstration must PASS on the unchanged tree and FAIL with your change applied.

Deliverables, all in /tmp/mut/{pid}-out/ :
  - patch.diff   : output of `git diff` in the worktree (must apply cleanly with `git apply` to a clean checkout of the same commit)
  - demo.sh (+ any input files it needs, all inside that directory): `demo.sh <path-to-chibicc-checkout-dir>` uses <dir>/chibicc (and <dir>/include) and exits 0 if the behaviour is correct, non-zero (with a short message) if the property is violated. Keep it self-contained and offline (gcc is available for linking/reference).
  - meta.json    : {{"property":"{pid}","summary":"what the change does","needs_to_manifest":"what specific input/sequence triggers it","files_changed":[...],"commands_run":[...],"demo_unchanged_exit":0,"demo_changed_exit":<n>}}

Verify yourself: demo passes on the clean worktree, fails with the patch; make test passes with the patch. When finished, restore the worktree to clean (`git -C /tmp/mut/{pid}-wt checkout -- .` and `make clean` there). Keep your final report to a few lines: what you changed and what triggers it.""")
