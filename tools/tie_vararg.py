#!/usr/bin/env python3
"""C06 / package vararg: tie of Model/Vararg.v (codegen.c emit_text prologue of a variadic function, include/stdarg.h
va_start / va_arg walkers, parse.c __builtin_reg_class, caller via Model/Abi.v) and Spec/VarargSpec.v (psABI 3.5.7)
to the real chibicc.

run(src_dir, seed, n, verif_dir): n random variadic signatures (1-8 named parameters, 0-14 variadic actuals over
{long, double, long double, structs of 1-2 eightbytes of classes INTEGER/SSE/mixed, structs > 16 bytes}); every eightbyte
carries a distinct number.  All callees f<i> go into callee.c (each prints what it reads with va_arg), all calls into
caller.c; both are compiled with the REAL chibicc and with gcc and linked in the pairings chibicc->chibicc,
gcc->chibicc, chibicc->gcc.  chibicc -S of callee.c gives the prologue text.  ONE coqc call evaluates for every case
the model (call_reads, va_start) and the spec (spec_reads), and prologue_stores once.
  impl_vs_spec  : some pairing read something else than the actuals passed (C 7.16.1.1 / psABI 3.5.7), or the psABI
                  spec itself does (spec_reads), on a signature without a known finding
  impl_vs_model : the prologue text (gp_offset, fp_offset, overflow_arg_area, reg_save_area initial values, the 14
                  register stores and their offsets) differs from va_start / prologue_stores of the model, or what the
                  chibicc->chibicc program read differs from the model's call_reads
  known_findings: mismatches on signatures where a long double lands on an odd stack word (C06-stack-arg-alignment)
"""
import os, sys, json, random, subprocess, tempfile, shutil, re

# name -> (C typedef body or None, coq vty, classes of the eightbytes: 'I' long, 'F' double, 'L' long double (2 words))
TYPES = {
    'long': (None, 'VInt', ['I']),
    'double': (None, 'VFlt', ['F']),
    'ldbl': (None, 'VLdbl', ['L']),
    'S_l': ('long a;', '(VSmall false None)', ['I']),
    'S_d': ('double a;', '(VSmall true None)', ['F']),
    'S_ll': ('long a; long b;', '(VSmall false (Some false))', ['I', 'I']),
    'S_dd': ('double a; double b;', '(VSmall true (Some true))', ['F', 'F']),
    'S_ld': ('long a; double b;', '(VSmall false (Some true))', ['I', 'F']),
    'S_dl': ('double a; long b;', '(VSmall true (Some false))', ['F', 'I']),
    'B_3': ('long a; long b; long c;', '(VBig 3)', ['I', 'I', 'I']),
    'B_4': ('double a; long b; double c; long d;', '(VBig 4)', ['F', 'I', 'F', 'I']),
}
CNAME = {'long': 'long', 'double': 'double', 'ldbl': 'long double'}
FIELDS = 'abcd'
SCALARS = ['long', 'double']
SMALL = ['S_l', 'S_d', 'S_ll', 'S_dd', 'S_ld', 'S_dl']
BIG = ['B_3', 'B_4']

def cname(t): return CNAME.get(t, t)
def nwords(t): return 2 if t == 'ldbl' else len(TYPES[t][2])

def enc(cls, idv):
    """the number the callee prints for an eightbyte with id idv"""
    return {'I': idv, 'F': 2 * idv + 1, 'L': 4 * idv + 1}[cls]

def literal(t, ids):
    cl = TYPES[t][2]
    def one(c, i): return {'I': '%dL' % i, 'F': '%d.5' % i, 'L': '%d.25L' % i}[c]
    if t in CNAME: return one(cl[0], ids[0])
    return '(%s){%s}' % (t, ', '.join(one(c, i) for c, i in zip(cl, ids)))

def expected_line(t, ids):
    cl = TYPES[t][2]
    return ' '.join(str(enc(c, i)) for c, i in zip(cl, ids))

def line_of_words(t, ws):
    """the line a callee would print if va_arg yielded the eightbytes ws (ids)"""
    if ws is None: return 'undefined'
    if t == 'ldbl': return str(enc('L', ws[0])) if len(ws) == 2 and ws[1] == ws[0] + 1 else 'garbage%s' % ws
    cl = TYPES[t][2]
    if len(ws) != len(cl): return 'garbage%s' % ws
    return ' '.join(str(enc(c, i)) for c, i in zip(cl, ws))

def gen_case(rng, k):
    mode = rng.choice(['scalar', 'scalar', 'gpfull', 'fpfull', 'mixed', 'mixed', 'structs', 'mem', 'ldbl'])
    def pick():
        if mode == 'scalar': return rng.choice(SCALARS)
        if mode == 'gpfull': return rng.choice(['long'] * 5 + ['double', 'S_ll', 'S_l', 'S_ld'])
        if mode == 'fpfull': return rng.choice(['double'] * 5 + ['long', 'S_dd', 'S_d', 'S_dl'])
        if mode == 'structs': return rng.choice(SMALL + SCALARS)
        if mode == 'mem': return rng.choice(BIG + BIG + SCALARS + SMALL)
        if mode == 'ldbl': return rng.choice(['ldbl', 'ldbl'] + SCALARS + SMALL + BIG)
        return rng.choice(SCALARS * 3 + SMALL + BIG)
    nn = rng.choice([1, 1, 2, 3, 4, 5, 6, 7, 8])
    nv = rng.choice([0, 1, 2, 3, 5, 7, 8, 9, 10, 12, 14])
    named = [pick() for _ in range(nn)]
    var = [pick() for _ in range(nv)]
    return finish_case(k, named, var, mode)

def finish_case(k, named, var, mode):
    idc = [100 * (k % 1000) + 1]
    def ids(t):
        r = list(range(idc[0], idc[0] + nwords(t))); idc[0] += nwords(t); return r
    return {'k': k, 'mode': mode, 'named': [(t, ids(t)) for t in named], 'var': [(t, ids(t)) for t in var]}

def boundary_cases():
    B = []
    B.append((['long'], ['long'] * 5 + ['long', 'long']))                       # gp boundary 48
    B.append((['double'], ['double'] * 7 + ['double', 'double']))               # fp boundary 176
    B.append((['long'] * 6 + ['double'] * 2, ['long', 'double', 'long']))       # named fill gp
    B.append((['long'] * 8, ['long', 'double']))                                # named stack parameters
    B.append((['double'] * 8, ['double', 'long', 'double']))
    B.append((['long', 'B_3'], ['long', 'B_3', 'double']))                      # named struct in memory
    B.append((['S_ld', 'S_dl'], ['S_ld', 'S_dl', 'S_ll', 'S_dd', 'S_ll', 'S_ll', 'S_dd', 'S_dd', 'S_dd', 'S_ld']))
    B.append((['long'] * 5, ['S_ll', 'long', 'S_ld', 'long']))                  # struct does not fit: all in memory
    B.append((['double'] * 7, ['S_dd', 'double', 'S_dl', 'double']))
    B.append((['long', 'ldbl'], ['ldbl', 'long', 'ldbl']))
    B.append((['long'], ['long'] * 6 + ['ldbl']))                               # long double at an odd stack word
    B.append((['long'] * 7, ['ldbl']))
    return B

def ldbl_misaligned(case):
    """packed stack layout (chibicc) differs from the psABI's 16-aligned one for some long double"""
    gp = fp = st = 0
    for t, _ in case['named'] + case['var']:
        cl = TYPES[t][2]
        if t == 'ldbl':
            if st % 2: return True
            st += 2; continue
        if t in BIG: st += len(cl); continue
        g, f = cl.count('I'), cl.count('F')
        if gp + g <= 6 and fp + f <= 8: gp += g; fp += f
        else: st += len(cl)
    return False

def c_sources(cases):
    hdr = ['int printf(const char *, ...);']
    for t, (body, _, _) in TYPES.items():
        if body: hdr.append('typedef struct { %s } %s;' % (body, t))
    callee = ['#include <stdarg.h>'] + hdr
    caller = list(hdr)
    main = ['int main(void) {']
    for c in cases:
        k = c['k']
        params = ', '.join('%s p%d' % (cname(t), i) for i, (t, _) in enumerate(c['named']))
        proto = ', '.join(cname(t) for t, _ in c['named'])
        caller.append('void f%d(%s, ...);' % (k, proto))
        body = ['void f%d(%s, ...) {' % (k, params), '  va_list ap; va_start(ap, p%d);' % (len(c['named']) - 1),
                '  printf("case %d\\n");' % k]
        for t, _ in c['var']:
            cl = TYPES[t][2]
            def pr(c_, e): return {'I': ('%ld', e), 'F': ('%ld', '(long)(%s * 2)' % e), 'L': ('%ld', '(long)(%s * 4)' % e)}[c_]
            if t in CNAME:
                f, e = pr(cl[0], 'x'); fmt, args = f, e
            else:
                ps = [pr(c_, 'x.%s' % FIELDS[i]) for i, c_ in enumerate(cl)]
                fmt, args = ' '.join(p[0] for p in ps), ', '.join(p[1] for p in ps)
            body.append('  { %s x = va_arg(ap, %s); printf("%s\\n", %s); }' % (cname(t), cname(t), fmt, args))
        body += ['  va_end(ap);', '}']
        callee += body
        main.append('  f%d(%s);' % (k, ', '.join(literal(t, ids) for t, ids in c['named'] + c['var'])))
    main += ['  printf("end\\n");', '  return 0;', '}']
    return '\n'.join(callee) + '\n', '\n'.join(caller + main) + '\n'

def coq_list(xs): return '[' + '; '.join(xs) + ']'
def coq_args(args): return coq_list('(%s, %s)' % (TYPES[t][1], coq_list(str(i) for i in ids)) for t, ids in args)

def coq_eval(cases, verif_dir, tmp):
    lines = ['From Coq Require Import List ZArith.', 'From Chibicc Require Import Model.Vararg Spec.VarargSpec.',
             'Import ListNotations.', 'Local Open Scope Z_scope.', 'Set Printing Width 100000.', 'Set Printing Depth 100000.',
             'Eval vm_compute in prologue_stores.']
    for c in cases:
        lines.append('Eval vm_compute in (call_reads %s %s, spec_reads %s %s, va_start %s).' % (
            coq_args(c['named']), coq_args(c['var']), coq_args(c['named']), coq_args(c['var']),
            coq_list(TYPES[t][1] for t, _ in c['named'])))
    path = os.path.join(tmp, 'Cases_vararg.v')
    open(path, 'w').write('\n'.join(lines) + '\n')
    r = subprocess.run(['coqc', '-Q', os.path.join(verif_dir, 'coq', 'theories'), 'Chibicc', path], cwd=tmp,
                       capture_output=True, text=True, timeout=300)
    if r.returncode != 0: raise RuntimeError('coqc failed: ' + r.stderr[-2000:])
    blocks = [b.strip() for b in re.split(r'^\s*= ', r.stdout, flags=re.M)[1:]]
    blocks = [re.sub(r'\s+', ' ', b.split('\n     :')[0]) for b in blocks]
    if len(blocks) != len(cases) + 1: raise RuntimeError('coqc output: %d blocks for %d cases' % (len(blocks), len(cases)))
    stores = [(int(a), 'gp' if s == 'SrcGp' else 'xmm', int(i)) for a, s, i in re.findall(r'\((\d+), (SrcGp|SrcXmm) (\d+)\)', blocks[0])]
    def reads(txt):
        out = []
        for m in re.finditer(r'Some \[([^\]]*)\]|None', txt):
            out.append(None if m.group(0) == 'None' else [int(x) for x in m.group(1).split(';') if x.strip()])
        return out
    res = []
    for b in blocks[1:]:
        m = re.match(r'\((\[.*\]), (\[.*\]), \{\| gp_offset := (\d+); fp_offset := (\d+); overflow_arg_area := (\d+); reg_save_area := (\d+) \|\}\)$', b)
        if not m: raise RuntimeError('cannot parse coq result: ' + b[:300])
        # the two lists: split at the "], [" on top level
        depth = 0; cut = None
        for i, ch in enumerate(b[1:], 1):
            if ch == '[': depth += 1
            elif ch == ']':
                depth -= 1
                if depth == 0: cut = i; break
        res.append({'model': reads(b[1:cut + 1]), 'spec': reads(b[cut + 2:b.index('{|')]),
                    'va': [int(m.group(j)) for j in (3, 4, 5, 6)]})
    return stores, res

GPREGS = ['%rdi', '%rsi', '%rdx', '%rcx', '%r8', '%r9']

def parse_prologues(asm):
    """function name -> (gp_offset, fp_offset, overflow, rsa offset rel. area, [(rel offset, kind, index)])"""
    out = {}
    fn = None; lines = asm.split('\n')
    i = 0
    while i < len(lines):
        m = re.match(r'^(f\d+):$', lines[i])
        if m:
            fn = m.group(1); j = i + 1; pro = []
            while j < len(lines) and j < i + 40: pro.append(lines[j].strip()); j += 1
            try:
                idx = next(q for q, l in enumerate(pro) if l.startswith('movl $'))
                m1 = re.match(r'movl \$(\d+), (-?\d+)\(%rbp\)', pro[idx]); off = int(m1.group(2)); gp = int(m1.group(1))
                m2 = re.match(r'movl \$(\d+), (-?\d+)\(%rbp\)', pro[idx + 1]); fp = int(m2.group(1)); assert int(m2.group(2)) == off + 4
                assert pro[idx + 2] == 'movq %%rbp, %d(%%rbp)' % (off + 8)
                m3 = re.match(r'addq \$(-?\d+), (-?\d+)\(%rbp\)', pro[idx + 3]); ov = int(m3.group(1)); assert int(m3.group(2)) == off + 8
                assert pro[idx + 4] == 'movq %%rbp, %d(%%rbp)' % (off + 16)
                m4 = re.match(r'addq \$(-?\d+), (-?\d+)\(%rbp\)', pro[idx + 5]); rsa = int(m4.group(1)) - off; assert int(m4.group(2)) == off + 16
                stores = []
                for l in pro[idx + 6: idx + 20]:
                    ms = re.match(r'(movq|movsd|movaps|movups) (%\w+), (-?\d+)\(%rbp\)', l)
                    if not ms: break
                    r_ = ms.group(2)
                    if r_ in GPREGS: stores.append((int(ms.group(3)) - off, 'gp', GPREGS.index(r_)))
                    elif r_.startswith('%xmm'): stores.append((int(ms.group(3)) - off, 'xmm', int(r_[4:])))
                out[fn] = (gp, fp, ov, rsa, stores)
            except Exception as e:
                out[fn] = ('unparsed', str(e), pro[:12])
        i += 1
    return out

def sh(cmd, cwd, timeout=120):
    r = subprocess.run(cmd, cwd=cwd, capture_output=True, text=True, timeout=timeout, errors='replace')
    return r.returncode, r.stdout, r.stderr

def split_output(out):
    res = {}; cur = None
    for l in out.split('\n'):
        m = re.match(r'case (\d+)$', l)
        if m: cur = int(m.group(1)); res[cur] = []
        elif l == 'end': cur = None
        elif cur is not None and l != '': res[cur].append(l)
    return res

def run(src_dir, seed=1, n=150, verif_dir=None):
    if verif_dir is None: verif_dir = os.path.dirname(os.path.dirname(os.path.abspath(__file__)))
    src_dir = os.path.abspath(src_dir); chibicc = os.path.join(src_dir, 'chibicc')
    rng = random.Random(seed)
    cases = []
    for nm, vr in boundary_cases():
        if len(cases) < n: cases.append(finish_case(len(cases), nm, vr, 'boundary'))
    while len(cases) < n: cases.append(gen_case(rng, len(cases)))
    tmp = tempfile.mkdtemp(prefix='tie_vararg_')
    result = {'evaluations': 0, 'distinct_nontrivial': 0, 'distribution': {}, 'impl_vs_spec': [], 'impl_vs_model': [],
              'known_findings': [], 'samples': []}
    try:
        callee, caller = c_sources(cases)
        open(os.path.join(tmp, 'callee.c'), 'w').write(callee); open(os.path.join(tmp, 'caller.c'), 'w').write(caller)
        stores, coq = coq_eval(cases, verif_dir, tmp)
        GCC = ['gcc', '-std=gnu11', '-w', '-O1']
        for what in ('callee', 'caller'):
            for who, cc in (('cc', [chibicc]), ('gcc', GCC)):
                rc, o, e = sh(cc + ['-c', '-o', '%s_%s.o' % (what, who), what + '.c'], tmp)
                if rc != 0:
                    (result['impl_vs_model'] if who == 'cc' else result['known_findings']).append(
                        {'case': what + '.c', 'impl': '%s rejects: %s' % (who, e[-400:]), 'model': 'accepted'})
                    if who == 'cc': return result
        rc, o, e = sh([chibicc, '-S', '-o', 'callee.s', 'callee.c'], tmp)
        pro = parse_prologues(open(os.path.join(tmp, 'callee.s')).read())
        outs = {}
        for cw, ew in (('cc', 'cc'), ('gcc', 'cc'), ('cc', 'gcc')):
            exe = 'exe_%s_%s' % (cw, ew)
            rc, o, e = sh(['gcc', '-o', exe, 'caller_%s.o' % cw, 'callee_%s.o' % ew], tmp)
            if rc != 0:
                result['impl_vs_model'].append({'case': exe, 'impl': 'link failed: ' + e[-300:], 'model': 'links'}); continue
            rc, o, e = sh(['./' + exe], tmp, timeout=30)
            outs[(cw, ew)] = (rc, split_output(o))
        sigs = set()
        for c, cq in zip(cases, coq):
            k = c['k']
            sig = (tuple(t for t, _ in c['named']), tuple(t for t, _ in c['var']))
            known = ldbl_misaligned(c)
            desc = 'f(%s | %s)' % (', '.join(sig[0]), ', '.join(sig[1]))
            exp = [expected_line(t, ids) for t, ids in c['var']]
            model_lines = [line_of_words(t, w) for (t, _), w in zip(c['var'], cq['model'])]
            spec_lines = [line_of_words(t, w) for (t, _), w in zip(c['var'], cq['spec'])]
            result['evaluations'] += 1
            result['distribution'][c['mode']] = result['distribution'].get(c['mode'], 0) + 1
            if sig not in sigs and len(sig[1]) >= 3:
                sigs.add(sig); result['distinct_nontrivial'] += 1
            # prologue text against the model
            p = pro.get('f%d' % k)
            mva = cq['va']
            if p is None or p[0] == 'unparsed':
                result['impl_vs_model'].append({'case': desc, 'impl': 'prologue not recognised: %s' % (p,), 'model': mva})
            else:
                if list(p[:4]) != mva:
                    result['impl_vs_model'].append({'case': desc, 'impl': {'gp_offset': p[0], 'fp_offset': p[1], 'overflow': p[2], 'reg_save_area': p[3]},
                                                    'model': dict(zip(['gp_offset', 'fp_offset', 'overflow', 'reg_save_area'], mva))})
                if sorted(p[4]) != sorted(stores):
                    result['impl_vs_model'].append({'case': desc + ' register stores', 'impl': sorted(p[4]), 'model': sorted(stores)})
            bucket = result['known_findings'] if known else result['impl_vs_spec']
            if not known and spec_lines != exp:
                bucket.append({'case': desc + ' [psABI spec]', 'impl': spec_lines, 'spec': exp})
            per = {}
            for pair, (rc, om) in outs.items():
                got = om.get(k)
                per['%s->%s' % pair] = got
                if got != exp:
                    e_ = {'case': desc + ' [%s->%s]' % pair, 'impl': got if got is not None else 'no output (exit %s)' % rc, 'spec': exp}
                    if known: e_['finding'] = 'C06-stack-arg-alignment'
                    bucket.append(e_)
                if pair == ('cc', 'cc') and not known and got != model_lines:
                    result['impl_vs_model'].append({'case': desc + ' [reads cc->cc]', 'impl': got, 'model': model_lines})
            if len(result['samples']) < 5:
                result['samples'].append({'case': desc, 'expected': exp, 'model': model_lines, 'spec': spec_lines, 'impl': per,
                                          'va_start_model': mva, 'va_start_impl': list(p[:4]) if p and p[0] != 'unparsed' else None})
        return result
    finally:
        shutil.rmtree(tmp, ignore_errors=True)

if __name__ == '__main__':
    src = sys.argv[1]
    seed = int(sys.argv[2]) if len(sys.argv) > 2 else 1
    n = int(sys.argv[3]) if len(sys.argv) > 3 else 150
    print(json.dumps(run(src, seed, n), indent=1))
