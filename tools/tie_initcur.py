#!/usr/bin/env python3
"""C05 / package initcur: tie of Model/InitCursor.v (parse.c's initializer parser on an abstract syntax)
and Spec/InitSpec.v (C11 6.7.9 as a cursor over subobject paths) to the real chibicc.

run(src_dir, seed, n, verif_dir) generates n (type, initializer) pairs in the abstract syntax of
Spec/InitSyntax.v (46 boundary cases first, then seeded random ones produced by a python cursor so that most are
valid), prints each as a C program that defines the object once with static storage at file scope and once with
automatic storage and prints every scalar leaf, compiles and runs it with the REAL chibicc, and evaluates the same
pairs with the Coq model, the Coq spec and the Coq predicates `valid` / `clean` in ONE coqc call
(Cases_initcur.v in a fresh temp dir, -Q <verif_dir>/coq/theories Chibicc; the .vo files must exist).
  impl_vs_model : chibicc's object (or its rejection) differs from the model's  -> the model no longer describes parse.c
  impl_vs_spec  : on an input that satisfies `valid` (Properties_C05_initcur.v: C05_initcur_model_is_6_7_9), or that is
                  in the tied-only class of plainly initialized flexible array members (fam_simple below), chibicc's
                  object differs from C11 6.7.9 -> the property fails on this input
  deviations_outside_valid : inputs outside `valid` where chibicc and the spec differ: the recorded findings
                  (DELIVERY_initcur.md) and rejected constraint violations; informational
Expression id k is the int constant 1000+k (k chosen so that a char leaf never sees 0), string elements are printed
as a literal, leaves are int / char / long; 30 % of the lists carry a trailing comma.
"""
import os, sys, json, random, subprocess, tempfile, shutil, re, time
from concurrent.futures import ThreadPoolExecutor

# ---------------------------------------------------------------- abstract syntax (python side)
# type:  ('s', k) | ('a', n|None, elem) | ('S', [ty]) | ('U', [ty])
# init:  ('e', k) | ('str', [codes incl. final 0]) | ('l', [(ds, init)], trailing_comma)
# desig: ('i', n) | ('r', a, b) | ('f', m)

def child(U, i):
    if U[0] == 'a': return U[2] if (U[1] is None or i < U[1]) else None
    if U[0] in 'SU': return U[1][i] if i < len(U[1]) else None
    return None
def sub(U, p):
    for i in p:
        U = child(U, i)
        if U is None: return None
    return U
def nxt(U, i):
    if U[0] == 'a': return [i + 1] if (U[1] is None or i + 1 < U[1]) else None
    if U[0] == 'S': return [i + 1] if i + 1 < len(U[1]) else None
    return None
def nxt_path(U, p):
    if not p: return None
    V = child(U, p[0])
    if V is None: return None
    q = nxt_path(V, p[1:])
    return [p[0]] + q if q is not None else nxt(U, p[0])
def down(U):
    if U[0] == 's': return []
    return [0] + down(child(U, 0))
def first_leaf(U, p): return p + down(sub(U, p))
def is_char_array(U): return U[0] == 'a' and U[2] == ('s', 1)

class Gen:
    def __init__(self, rng): self.rng = rng; self.k = 0
    def eid(self):
        self.k += 1
        while (1000 + self.k) % 256 == 0: self.k += 1
        return self.k
    def ty(self, depth, top=False, fam_ok=False):
        r = self.rng.random()
        if depth <= 0 or (r < 0.25 and not top): return ('s', self.rng.choice([0, 0, 0, 1, 2]))
        if r < 0.55:
            if self.rng.random() < 0.2: return ('a', self.rng.randint(2, 5), ('s', 1))
            n = self.rng.randint(1, 3)
            if top and self.rng.random() < 0.3: n = None
            return ('a', n, self.ty(depth - 1))
        if r < 0.9:
            ms = [self.ty(depth - 1) for _ in range(self.rng.randint(1, 3))]
            if top and fam_ok and self.rng.random() < 0.25:
                ms.append(('a', None, ('s', self.rng.choice([0, 1]))))
            return ('S', ms)
        return ('U', [self.ty(depth - 1) for _ in range(self.rng.randint(1, 3))])
    def rand_path(self, U, maxlen):
        p = []
        while len(p) < maxlen:
            W = sub(U, p)
            if W[0] == 's': break
            if p and self.rng.random() < 0.35: break
            if W[0] == 'a': i = self.rng.randrange(W[1] if W[1] is not None else 5)
            else: i = self.rng.randrange(len(W[1]))
            p.append(i)
        return p
    def desigs(self, U, p, allow_range):
        ds = []; W = U; q = list(p); out_p = []
        for idx, i in enumerate(p):
            if W[0] == 'a':
                hi = W[1] if W[1] is not None else i + 3
                if allow_range and self.rng.random() < 0.15 and i + 1 < hi:
                    b = self.rng.randint(i + 1, min(hi - 1, i + 2)); ds.append(('r', i, b)); out_p.append(b)
                else: ds.append(('i', i)); out_p.append(i)
            else: ds.append(('f', i)); out_p.append(i)
            W = child(W, i)
        return ds, out_p
    def init_for(self, U, p, W, depth, mode):
        """an initializer for subobject p (type W) of U; returns (init, done_path)"""
        rng = self.rng
        if W[0] == 's':
            if rng.random() < 0.06: return ('l', [([], ('e', self.eid()))], False), p
            return ('e', self.eid()), p
        if is_char_array(W) and rng.random() < 0.5:
            ln = rng.randint(1, (W[1] or 4) + (1 if rng.random() < 0.2 else 0))
            s = [rng.randint(97, 122) for _ in range(ln - 1)] + [0]
            if rng.random() < 0.3: return ('l', [([], ('str', s))], rng.random() < 0.3), p
            return ('str', s), p
        if rng.random() < (0.5 if depth > 0 else 0.0) or W[0] == 'a' and W[1] is None:
            return self.blist(W, depth - 1, mode), p
        q = first_leaf(U, p)
        return ('e', self.eid()), q
    def blist(self, U, depth, mode):
        """a braced list for an object of type U"""
        rng = self.rng; items = []
        if U[0] == 's': return ('l', [([], ('e', self.eid()))], False)
        c = [0]; target = rng.choice([1, 2, 3, 4, 6, 9])
        if U[0] == 'U': target = 1
        while len(items) < target:
            use_d = rng.random() < mode['pdes'] and (U[0] != 'U' or not items)
            if c is None and not use_d:
                if rng.random() < mode['pexcess'] and U[0] != 'U': items.append(([], ('e', self.eid())))
                break
            if U[0] == 'a' and rng.random() < mode.get('psimple', 0):
                # the range form inside `valid`: [a ... b] = initializer for ONE element
                hi = U[1] if U[1] is not None else 6
                a = rng.randrange(hi); b = rng.randint(a, min(hi - 1, a + 2))
                e = U[2]
                if e[0] == 's': v = ('e', self.eid())
                elif is_char_array(e) and rng.random() < 0.5: v = ('str', [rng.randint(97, 122), 0])
                else: v = self.blist(e, depth - 1, mode)
                items.append(([('r', a, b)], v)); c = nxt_path(U, [b]); continue
            if rng.random() < mode.get('psimple', 0) * 0.6:
                # a designator path ENDING in a range, with an initializer for ONE element (inside `valid`)
                pp = self.rand_path(U, 2); Wp = sub(U, pp)
                if pp and Wp is not None and Wp[0] == 'a':
                    hi = Wp[1] if Wp[1] is not None else 5
                    a = rng.randrange(hi); b = rng.randint(a, min(hi - 1, a + 2)); e = Wp[2]
                    if e[0] == 's': v = ('e', self.eid())
                    elif is_char_array(e) and rng.random() < 0.5: v = ('str', [rng.randint(97, 122), 0])
                    else: v = self.blist(e, depth - 1, mode)
                    ds = [('i', i) if Wx[0] == 'a' else ('f', i) for i, Wx in zip(pp, [sub(U, pp[:j]) for j in range(len(pp))])]
                    items.append((ds + [('r', a, b)], v)); c = nxt_path(U, pp + [b]); continue
            if use_d:
                p = self.rand_path(U, 3)
                if not p: continue
                ds, p = self.desigs(U, p, mode['ranges'])
            else: ds, p = [], c
            W = sub(U, p)
            v, done = self.init_for(U, p, W, depth, mode)
            items.append((ds, v))
            c = nxt_path(U, done)
        return ('l', items, rng.random() < 0.3 and U[0] != 's')
    def case(self):
        rng = self.rng; self.k = 0
        mode = {'pdes': rng.choice([0.0, 0.0, 0.3, 0.5]), 'pexcess': rng.choice([0, 0, 0.3]), 'ranges': rng.random() < 0.2, 'psimple': rng.choice([0, 0, 0.25])}
        T = self.ty(rng.choice([1, 2, 2, 3]), top=True, fam_ok=True)
        if T[0] == 's': v = ('e', self.eid()) if rng.random() < 0.7 else ('l', [([], ('e', self.eid()))], False)
        elif is_char_array(T) and rng.random() < 0.4:
            s = [rng.randint(97, 122) for _ in range(rng.randint(0, 4))] + [0]
            v = ('str', s)
        else: v = self.blist(T, rng.choice([0, 1, 2]), mode)
        return T, v

BOUNDARY = [
    # (type, init) aimed at single case splits of the proofs / quirks of parse.c
    (('a', 3, ('s', 0)), ('l', [([], ('e', 1)), ([], ('e', 2)), ([], ('e', 3))], True)),
    (('a', 3, ('s', 0)), ('l', [([], ('e', 1))], False)),
    (('a', 2, ('s', 0)), ('l', [([], ('e', 1)), ([], ('e', 2)), ([], ('e', 3))], False)),                    # excess
    (('a', 2, ('a', 2, ('s', 0))), ('l', [([], ('e', 1)), ([], ('e', 2)), ([], ('e', 3))], False)),       # elision
    (('a', 2, ('a', 2, ('s', 0))), ('l', [([], ('l', [([], ('e', 1))], False)), ([], ('e', 2)), ([], ('e', 3))], True)),
    (('a', 2, ('S', [('a', 2, ('s', 0)), ('s', 0)])), ('l', [([('i', 0), ('f', 0), ('i', 1)], ('e', 1)), ([], ('e', 2)), ([], ('e', 3)), ([], ('e', 4)), ([], ('e', 5))], False)),
    (('S', [('S', [('s', 0), ('s', 0)]), ('s', 0)]), ('l', [([('f', 0), ('f', 1)], ('e', 1)), ([], ('e', 2))], False)),
    (('S', [('S', [('s', 0), ('s', 0)]), ('s', 0)]), ('l', [([('f', 1)], ('e', 1)), ([('f', 0)], ('e', 2)), ([], ('e', 3)), ([], ('e', 4))], False)),
    (('S', [('S', [('s', 0), ('s', 0)]), ('s', 0)]), ('l', [([], ('e', 1)), ([], ('e', 2)), ([], ('e', 3)), ([('f', 0)], ('l', [([], ('e', 5))], False))], False)),   # braced override (finding)
    (('a', 2, ('a', 6, ('s', 0))), ('l', [([('i', 1), ('r', 2, 4)], ('e', 7)), ([], ('e', 8))], False)),     # nested range (former finding 2, repaired; inside valid)
    (('a', 8, ('s', 0)), ('l', [([('r', 1, 3)], ('e', 7)), ([], ('e', 8)), ([('r', 5, 6)], ('e', 1)), ([], ('e', 2))], False)),
    (('a', None, ('s', 0)), ('l', [([('i', 4)], ('e', 1)), ([('i', 1)], ('e', 2)), ([], ('e', 3))], False)),
    (('a', None, ('S', [('s', 0), ('s', 0)])), ('l', [([('i', 2), ('f', 0)], ('e', 1)), ([], ('e', 2)), ([], ('e', 3))], False)),
    (('a', None, ('s', 1)), ('str', [97, 98, 0])),
    (('a', 2, ('s', 1)), ('str', [97, 98, 0])),
    (('a', 4, ('s', 1)), ('l', [([], ('str', [97, 0]))], True)),
    (('S', [('U', [('s', 0), ('s', 2)]), ('s', 0)]), ('l', [([('f', 0), ('f', 1)], ('e', 5)), ([], ('e', 6))], False)),
    (('S', [('U', [('s', 0), ('s', 2)]), ('s', 0)]), ('l', [([], ('e', 5)), ([], ('e', 6))], False)),
    (('U', [('s', 0), ('s', 2)]), ('l', [([('f', 1)], ('e', 5))], True)),
    (('U', [('a', 2, ('s', 0)), ('s', 2)]), ('l', [([], ('e', 5))], False)),
    (('S', [('s', 0), ('a', None, ('s', 0))]), ('l', [([], ('e', 1)), ([], ('l', [([], ('e', 2)), ([], ('e', 3))], False))], False)),
    (('S', [('s', 0), ('a', None, ('s', 0))]), ('l', [([], ('e', 1)), ([], ('e', 2)), ([], ('e', 3))], False)),
    (('S', [('s', 0), ('a', None, ('s', 1))]), ('l', [([], ('e', 1)), ([], ('str', [97, 98, 0]))], False)),
    (('s', 0), ('l', [([], ('e', 1))], False)),
    (('S', [('s', 0), ('a', 4, ('S', [('s', 0), ('s', 2)])), ('s', 0)]), ('l', [([('f', 1), ('r', 1, 2)], ('l', [([], ('e', 1)), ([], ('e', 2))], False)), ([], ('e', 3)), ([], ('e', 4)), ([], ('e', 5))], False)),   # .m[1 ... 2] = {..}, then on after element 2
    (('a', None, ('a', 3, ('s', 0))), ('l', [([('i', 2), ('r', 0, 1)], ('e', 1)), ([], ('e', 2)), ([], ('e', 3))], False)),   # [2][0 ... 1] = 1, 2, 3 in an array of unknown bound
    (('S', [('a', 8, ('s', 1))]), ('l', [([], ('str', [100, 101, 102, 97, 117, 108, 116, 0])), ([('f', 0)], ('str', [97, 98, 0]))], False)),   # a string overriding a longer string: the tail is zero again
    (('S', [('a', 4, ('s', 1)), ('s', 0)]), ('l', [([('f', 0), ('i', 2)], ('e', 5)), ([('f', 0)], ('l', [([], ('str', [97, 0]))], False)), ([], ('e', 6))], False)),   # braced string overriding an element
    (('S', [('a', 2, ('a', 2, ('a', 3, ('s', 1)))), ('s', 0)]), ('l', [([], ('str', [97, 98, 0])), ([], ('str', [99, 0])), ([], ('str', [100, 0])), ([], ('str', [101, 0])), ([], ('e', 7))], False)),   # strings by elision through two array levels
    (('s', 0), ('l', [([], ('l', [([], ('e', 1))], False))], False)),                                             # int x = {{1}}: chibicc accepts any depth
    (('S', [('s', 0), ('s', 2)]), ('l', [([], ('l', [([], ('l', [([], ('e', 1))], False))], False)), ([], ('e', 2))], False)),
    (('a', 2, ('s', 0)), ('l', [([], ('e', 1)), ([], ('e', 2)), ([], ('l', [([], ('e', 3))], False))], False)),     # excess { 3 } is skipped
    (('a', 2, ('s', 0)), ('l', [([], ('e', 1)), ([], ('e', 2)), ([], ('l', [([], ('e', 3)), ([], ('e', 4))], False))], False)),   # excess { 3, 4 }: rejected
    (('a', 2, ('s', 0)), ('l', [([('f', 0)], ('e', 1))], False)),                                                 # .m in an array list: rejected
    (('S', [('s', 0), ('s', 0)]), ('l', [([('i', 0)], ('e', 1))], False)),                                        # [0] in a struct list: rejected
    (('U', [('s', 0), ('s', 2)]), ('l', [([('f', 0)], ('e', 1)), ([('f', 1)], ('e', 2))], False)),                # two items in a union's braces: rejected (limitation)
    (('U', [('s', 0), ('s', 2)]), ('l', [([], ('e', 1)), ([], ('e', 2))], False)),
    (('S', [('U', [('s', 0), ('s', 2)]), ('s', 0)]), ('l', [([('f', 0), ('f', 0)], ('e', 1)), ([('f', 0), ('f', 1)], ('e', 2)), ([], ('e', 3))], False)),   # switching the union member (outside valid)
    (('a', 3, ('s', 0)), ('l', [([('i', 3)], ('e', 1))], False)),                                                 # index = bound: rejected
    (('a', 4, ('a', 2, ('s', 0))), ('l', [([('r', 1, 2)], ('l', [([], ('e', 1)), ([], ('e', 2))], False)), ([], ('e', 3))], False)),   # valid range form
    (('a', 3, ('a', 3, ('s', 0))), ('l', [([('r', 0, 1), ('i', 1)], ('e', 7)), ([], ('e', 8)), ([], ('e', 9))], False)),     # range then index: replicated continuation
    (('S', [('a', 2, ('a', 3, ('s', 1)))]), ('l', [([], ('str', [97, 98, 0]))], False)),                       # string elided through an array (former finding 3, repaired)
    (('a', None, ('S', [('a', 4, ('s', 1)), ('s', 0)])), ('l', [([], ('str', [97, 98, 0])), ([], ('e', 1)), ([], ('l', [([], ('str', [99, 100, 101, 102, 0])), ([], ('e', 2))], False)), ([('i', 3), ('f', 0)], ('l', [([], ('str', [103, 0]))], False))], False)),
    (('a', None, ('s', 1)), ('l', [([], ('str', [104, 105, 0]))], True)),
    (('U', [('a', 3, ('s', 1)), ('s', 0)]), ('str', [97, 0])),
    (('a', 2, ('a', 2, ('a', 2, ('s', 0)))), ('l', [([('i', 0), ('i', 1), ('i', 1)], ('e', 1)), ([], ('e', 2)), ([], ('l', [([], ('e', 3))], False)), ([], ('e', 4))], False)),
]

def down_str(U):
    if U[0] == 's' or is_char_array(U): return []
    return [0] + down_str(child(U, 0))

def fam_simple(T, v):
    """TIED ONLY (not covered by the Coq theorem): a struct whose last member is a flexible array member that is
    initialized in one of the two plain ways: (A) by exactly one item, a braced list or a string literal, positional
    or designated `.fam`; (B) by the tail of the list, all expressions without designators, for scalar elements.
    The rest of the list must be something `valid` would accept; the Coq `clean` flag is required separately."""
    if T[0] != 'S' or not T[1] or T[1][-1][0] != 'a' or T[1][-1][1] is not None or v[0] != 'l': return False
    last = len(T[1]) - 1; fam = T[1][-1]
    def has_unknown(U, top):
        if U[0] == 'a': return (U[1] is None and not top) or has_unknown(U[2], False)
        if U[0] in 'SU': return any(has_unknown(m, False) for m in U[1])
        return False
    if any(has_unknown(m, False) for m in T[1][:-1]) or has_unknown(fam[2], False): return False
    c = [0]; touch = []
    for k, (ds, w) in enumerate(v[1]):
        if any(d[0] == 'r' for d in ds): return False
        p = [d[1] for d in ds] if ds else c
        if p is None or sub(T, p) is None: return False
        if w[0] == 'e': done = first_leaf(T, p)
        elif w[0] == 'str':
            W = sub(T, p)
            done = p + down_str(W)
        else: done = p
        if done[0] == last: touch.append((k, p, ds, w))
        c = nxt_path(T, done)
    if not touch: return True
    k0, p0, ds0, w0 = touch[0]
    if len(touch) == 1 and p0 == [last] and w0[0] in ('l', 'str') and len(ds0) <= 1:
        if w0[0] == 'l' and any(any(d[0] == 'r' for d in ds) for ds, _ in w0[1]): return False
        return True
    if fam[2][0] == 's' and len(touch) == len(v[1]) - k0 and all(not ds and w[0] == 'e' for _, _, ds, w in touch): return True
    return False

# ---------------------------------------------------------------- printing: Coq
def coq_ty(U):
    if U[0] == 's': return '(TScalar %d)' % U[1]
    if U[0] == 'a': return '(TArray %s %s)' % ('None' if U[1] is None else '(Some %d)' % U[1], coq_ty(U[2]))
    return '(%s [%s])' % ('TStruct' if U[0] == 'S' else 'TUnion', '; '.join(coq_ty(m) for m in U[1]))
def coq_d(d):
    return {'i': lambda: '(DIndex %d)' % d[1], 'r': lambda: '(DRange %d %d)' % (d[1], d[2]), 'f': lambda: '(DField %d)' % d[1]}[d[0]]()
def coq_init(v):
    if v[0] == 'e': return '(IExpr %d)' % v[1]
    if v[0] == 'str': return '(IStr [%s])' % '; '.join(map(str, v[1]))
    s = 'INil'
    for ds, w in reversed(v[1]): s = '(ICons [%s] %s %s)' % ('; '.join(coq_d(d) for d in ds), coq_init(w), s)
    return '(IList %s)' % s

COQ_PRE = r'''From Coq Require Import List Arith Bool.
From Chibicc Require Import Spec.InitSyntax Spec.InitSpec Model.InitCursor %(validmod)s.
Import ListNotations.
Set Printing Width 1000000. Set Printing Depth 1000000.
Fixpoint enc_ty (U : ty) : list nat :=
  match U with
  | TScalar k => [0; k]
  | TArray None e => 1 :: 0 :: 0 :: enc_ty e
  | TArray (Some n) e => 1 :: 1 :: n :: enc_ty e
  | TStruct ms => 2 :: length ms :: flat_map enc_ty ms
  | TUnion ms => 3 :: length ms :: flat_map enc_ty ms
  end.
Definition enc_leaf (x : path * option val) : list nat :=
  length (fst x) :: fst x ++ match snd x with None => [0; 0] | Some (VExpr e) => [1; e] | Some (VChar c) => [2; c] end.
Definition enc_leaves (l : leaves) : list nat := flat_map enc_leaf l.
Definition out (T : ty) (v : init) : list (list nat) :=
  let s := spec T v in
  match model T v with
  | Some m => [[1]; enc_ty (fst m); enc_leaves (snd m); enc_ty (fst s); enc_leaves (snd s); [if %(valid)s T v then 1 else 0; if %(clean)s T (spec_events T v) then 1 else 0]]
  | None => [[0]; []; []; enc_ty (fst s); enc_leaves (snd s); [if %(valid)s T v then 1 else 0; if %(clean)s T (spec_events T v) then 1 else 0]]
  end.
'''

def dec_ty(a, i=0):
    if a[i] == 0: return ('s', a[i + 1]), i + 2
    if a[i] == 1:
        e, j = dec_ty(a, i + 3)
        return ('a', a[i + 2] if a[i + 1] else None, e), j
    n = a[i + 1]; j = i + 2; ms = []
    for _ in range(n):
        m, j = dec_ty(a, j); ms.append(m)
    return ('S' if a[i] == 2 else 'U', ms), j
def dec_leaves(a):
    out = []; i = 0
    while i < len(a):
        n = a[i]; p = tuple(a[i + 1:i + 1 + n]); tag, x = a[i + 1 + n], a[i + 2 + n]; i += n + 3
        out.append((p, None if tag == 0 else ('e', x) if tag == 1 else ('c', x)))
    return out

def run_coq(cases, verif_dir, tmp):
    theories = os.path.join(verif_dir, 'coq', 'theories')
    have_valid = os.path.exists(os.path.join(theories, 'Spec', 'InitValid.vo'))
    pre = COQ_PRE % {'validmod': 'Spec.InitValid' if have_valid else '', 'valid': 'valid' if have_valid else '(fun _ _ => false)', 'clean': 'clean' if have_valid else '(fun _ _ => false)'}
    body = [pre]
    for i, (T, v) in enumerate(cases):
        body.append('Eval vm_compute in (%d, out %s %s).' % (i, coq_ty(T), coq_init(v)))
    f = os.path.join(tmp, 'Cases_initcur.v'); open(f, 'w').write('\n'.join(body) + '\n')
    p = subprocess.run(['coqc', '-Q', theories, 'Chibicc', '-w', '-deprecated-syntactic-definition,-deprecated', f],
                       cwd=tmp, capture_output=True, text=True, timeout=600)
    if p.returncode != 0: raise RuntimeError('coqc failed: ' + p.stderr[-2000:])
    res = {}
    for m in re.finditer(r'=\s*\((\d+),\s*(\[.*?\]\])\)\s*:', p.stdout.replace('\n', ' ')):
        lists = json.loads(m.group(2).replace(';', ','))
        ok, mty, ml, sty, sl, val = lists
        res[int(m.group(1))] = {
            'model': None if ok == [0] else (dec_ty(mty)[0], dec_leaves(ml)),
            'spec': (dec_ty(sty)[0], dec_leaves(sl)), 'valid': val[0] == 1, 'clean': val[1] == 1}
    if len(res) != len(cases): raise RuntimeError('coqc output not understood: %d of %d' % (len(res), len(cases)))
    return res

# ---------------------------------------------------------------- printing: C
KIND = {0: 'int', 1: 'char', 2: 'long'}
class CPrinter:
    def __init__(self, prefix): self.prefix = prefix; self.defs = []; self.n = 0
    def tyname(self, U):
        """returns (base spelling, declarator suffix)"""
        if U[0] == 's': return KIND[U[1]], ''
        if U[0] == 'a':
            b, s = self.tyname(U[2])
            return b, '[%s]' % ('' if U[1] is None else U[1]) + s
        self.n += 1; name = '%s_%d' % (self.prefix, self.n)
        body = []
        for j, m in enumerate(U[1]):
            b, s = self.tyname(m); body.append('%s m%d%s;' % (b, j, s))
        kw = 'struct' if U[0] == 'S' else 'union'
        self.defs.append('%s %s { %s };' % (kw, name, ' '.join(body)))
        return '%s %s' % (kw, name), ''
def c_desig(d):
    return {'i': lambda: '[%d]' % d[1], 'r': lambda: '[%d ... %d]' % (d[1], d[2]), 'f': lambda: '.m%d' % d[1]}[d[0]]()
def c_str(s):
    body = s[:-1] if s and s[-1] == 0 else s
    return '"' + ''.join(chr(c) for c in body) + '"'
def c_init(v):
    if v[0] == 'e': return str(1000 + v[1])
    if v[0] == 'str': return c_str(v[1])
    its = []
    for ds, w in v[1]:
        its.append((''.join(c_desig(d) for d in ds) + ' = ' if ds else '') + c_init(w))
    return '{ ' + ', '.join(its) + (', }' if v[2] and its else ' }')
def c_access(U, p, base):
    s = base
    for i in p:
        s += '[%d]' % i if U[0] == 'a' else '.m%d' % i
        U = child(U, i)
    return s, U
def leaf_kind(U, p): return sub(U, p)

def c_case(idx, T, v, decl_ty, paths):
    """C text for one case: type definitions, the static object, a function printing both objects"""
    pr = CPrinter('T%d' % idx)
    b, s = pr.tyname(T)
    ini = c_init(v)
    lines = list(pr.defs)
    lines.append('static %s g%d%s = %s;' % (b, idx, s, ini))
    body = ['%s a%s = %s;' % (b, s, ini)]
    for tag, obj in (('s', 'g%d' % idx), ('a', 'a')):
        body.append('printf("C%d%s");' % (idx, tag))
        if T[0] == 'a' and T[1] is None:
            body.append('printf(" n=%%ld", (long)(sizeof(%s)/sizeof(%s[0])));' % (obj, obj))
        for p in paths:
            acc, W = c_access(decl_ty, p, obj)
            cast = '(long)(unsigned char)' if W == ('s', 1) else '(long)'
            body.append('printf(" %%ld", %s%s);' % (cast, acc))
        body.append('printf("\\n");')
    lines.append('void f%d(void) { %s }' % (idx, ' '.join(body)))
    return '\n'.join(lines)

def expected(U, leaves):
    out = []
    for p, x in leaves:
        W = sub(U, list(p))
        if x is None: out.append(0)
        elif x[0] == 'c': out.append(x[1])
        else: out.append((1000 + x[1]) & 255 if W == ('s', 1) else 1000 + x[1])
    return out

def compile_run(cc, inc, tmp, name, text):
    src = os.path.join(tmp, name + '.c'); exe = os.path.join(tmp, name)
    open(src, 'w').write(text)
    p = subprocess.run([cc, '-I' + inc, '-o', exe, src], capture_output=True, text=True, timeout=120)
    if p.returncode != 0: return None, (p.stderr.strip().split('\n') or [''])[-1][:200]
    q = subprocess.run([exe], capture_output=True, text=True, timeout=20)
    if q.returncode != 0: return None, 'run rc=%d' % q.returncode
    return q.stdout, ''

def features(T, v):
    f = set()
    def ty(U, top):
        if U[0] == 'a':
            f.add('array-unknown' if U[1] is None and top else 'fam' if U[1] is None else 'array'); ty(U[2], False)
        elif U[0] in 'SU':
            f.add('struct' if U[0] == 'S' else 'union')
            for m in U[1]: ty(m, False)
    def ini(w, depth):
        if w[0] == 'str': f.add('string')
        if w[0] == 'l':
            if depth: f.add('nested-braces')
            if w[2]: f.add('trailing-comma')
            for ds, x in w[1]:
                if ds: f.add('designator')
                if len(ds) > 1: f.add('designator-path')
                if any(d[0] == 'r' for d in ds): f.add('range')
                ini(x, depth + 1)
    ty(T, True); ini(v, 0)
    return f

def run(src_dir, seed=1, n=160, verif_dir=None):
    t0 = time.time()
    verif_dir = verif_dir or os.path.dirname(os.path.dirname(os.path.abspath(__file__)))
    cc = os.path.join(src_dir, 'chibicc'); inc = os.path.join(src_dir, 'include')
    rng = random.Random(seed); g = Gen(rng)
    cases = list(BOUNDARY)
    while len(cases) < n: cases.append(g.case())
    cases = cases[:max(n, 1)]
    tmp = tempfile.mkdtemp(prefix='tie_initcur_')
    try:
        coq = run_coq(cases, verif_dir, tmp)
        # one C function per case; the paths printed are those of the model's result (the spec's when the model rejects)
        texts = {}; paths = {}
        for i, (T, v) in enumerate(cases):
            r = coq[i]
            ref = r['model'] or r['spec']
            ps = [p for p, _ in ref[1]]
            if r['model'] and [p for p, _ in r['spec'][1]] != ps:
                ps = ps + [p for p, _ in r['spec'][1] if p not in ps]
            paths[i] = ps
            texts[i] = c_case(i, T, v, ref[0], ps)
        hdr = 'int printf(const char *, ...);\n'
        accept = [i for i in range(len(cases)) if coq[i]['model'] is not None]
        reject = [i for i in range(len(cases)) if coq[i]['model'] is None]
        outputs = {}; rejected = {}
        def batch(ids, name):
            text = hdr + '\n'.join(texts[i] for i in ids) + '\nint main(void) { %s return 0; }\n' % ' '.join('f%d();' % i for i in ids)
            return compile_run(cc, inc, tmp, name, text)
        def do_batch(job):
            k, ids = job
            out, err = batch(ids, 'b%d' % k)
            if out is None and len(ids) > 1:
                res = []
                for i in ids: res.append((i,) + batch([i], 'c%d' % i))
                return res
            return [(i, out, err) for i in ids]
        B = 12
        jobs = [(k, accept[k:k + B]) for k in range(0, len(accept), B)] + [(10000 + i, [i]) for i in reject]
        with ThreadPoolExecutor(max_workers=4) as ex:
            for res in ex.map(do_batch, jobs):
                for i, out, err in res:
                    if out is None: rejected[i] = err
                    else: outputs[i] = out
        impl_vs_model = []; impl_vs_spec = []; deviations = []; samples = []; dist = {}; distinct = set(); evaluations = 0
        for i, (T, v) in enumerate(cases):
            r = coq[i]; evaluations += 1
            tied_fam = fam_simple(T, v) and r['clean']
            fs = features(T, v)
            if tied_fam: dist['fam-tied-only'] = dist.get('fam-tied-only', 0) + 1
            for x in fs: dist[x] = dist.get(x, 0) + 1
            dist['valid' if r['valid'] else 'outside-valid'] = dist.get('valid' if r['valid'] else 'outside-valid', 0) + 1
            ctext = c_init(v); cty = coq_ty(T)
            if fs - {'array', 'struct'}: distinct.add((cty, ctext))
            desc = {'type': cty, 'init': ctext}
            if i in rejected:
                impl = {'reject': rejected[i]}
            else:
                vals = {}
                for line in outputs[i].split('\n'):
                    m = re.match(r'C%d([sa])( n=(\d+))?((?: -?\d+)*)$' % i, line)
                    if m: vals[m.group(1)] = (int(m.group(3)) if m.group(3) else None, [int(x) for x in m.group(4).split()])
                impl = vals if len(vals) == 2 else {'reject': 'no output'}
            def compare(ref):
                """None if impl agrees with the (type, leaves) ref, else a description of impl"""
                if 'reject' in impl: return impl
                U, lv = ref
                want = dict(zip([p for p, _ in lv], expected(U, lv)))
                for tag in 'sa':
                    nlen, got = impl[tag]
                    gotd = dict(zip(paths[i], got))
                    if nlen is not None and (U[0] != 'a' or U[1] != nlen): return {tag: 'length %s' % nlen}
                    for p, w in want.items():
                        if gotd.get(p) != w: return {tag: {'path': list(p), 'got': gotd.get(p), 'want': w}}
                return None
            if r['model'] is None:
                if 'reject' not in impl: impl_vs_model.append({'case': desc, 'impl': impl, 'model': 'reject'})
                d_model = None if 'reject' in impl else impl
            else:
                d_model = compare(r['model'])
                if d_model is not None: impl_vs_model.append({'case': desc, 'impl': d_model, 'model': str(r['model'][1])})
            d_spec = compare(r['spec'])
            if d_spec is not None:
                rec = {'case': desc, 'impl': d_spec, 'spec': str(r['spec'][1])}
                (impl_vs_spec if (r['valid'] or tied_fam) else deviations).append(rec)
            if len(samples) < 5:
                samples.append({'case': desc, 'impl': impl if 'reject' in impl else {k: list(v) for k, v in impl.items()},
                                'model': None if r['model'] is None else expected(*r['model']), 'spec': expected(*r['spec']), 'valid': r['valid']})
        return {'evaluations': evaluations, 'distinct_nontrivial': len(distinct), 'distribution': dist,
                'impl_vs_spec': impl_vs_spec, 'impl_vs_model': impl_vs_model, 'deviations_outside_valid': deviations,
                'samples': samples, 'seconds': round(time.time() - t0, 1)}
    finally:
        shutil.rmtree(tmp, ignore_errors=True)

if __name__ == '__main__':
    src = sys.argv[1]
    seed = int(sys.argv[2]) if len(sys.argv) > 2 else 1
    n = int(sys.argv[3]) if len(sys.argv) > 3 else 160
    vd = os.path.dirname(os.path.dirname(os.path.abspath(__file__)))
    print(json.dumps(run(src, seed, n, vd), indent=1))
