#!/usr/bin/env python3
"""Tie of package ffold (C07): constant trees over int / float / double leaves, folded by the REAL chibicc
(`static T s = EXPR;`, enum positions) and evaluated at run time by the code chibicc emits (same tree on volatile
objects), against the Coq spec (Spec/C11Float.v feval) and the Coq model of the folder (Model/FloatFold.v)."""
import os, sys, json, random, struct, subprocess, tempfile, shutil, re

CT = {'i32': 'int', 'u32': 'unsigned', 'i64': 'long', 'u64': 'unsigned long', 'f32': 'float', 'f64': 'double',
      'i8': 'signed char', 'u8': 'unsigned char', 'i16': 'short', 'u16': 'unsigned short', 'bool': '_Bool'}
QT = {'i32': 'TI I32', 'u32': 'TI U32', 'i64': 'TI I64', 'u64': 'TI U64', 'f32': 'TF32', 'f64': 'TF64',
      'i8': 'TI I8', 'u8': 'TI U8', 'i16': 'TI I16', 'u16': 'TI U16', 'bool': 'TI IBool'}
RANK = ['i32', 'u32', 'i64', 'u64']
ARITH = {'+': 'Add', '-': 'Sub', '*': 'Mul', '/': 'Div'}
CMP = {'<': 'OLt', '<=': 'OLe', '>': 'OGt', '>=': 'OGe', '==': 'OEq', '!=': 'ONe'}

def common(a, b):
    if 'f64' in (a, b): return 'f64'
    if 'f32' in (a, b): return 'f32'
    pa = a if a in RANK else 'i32'; pb = b if b in RANK else 'i32'
    return RANK[max(RANK.index(pa), RANK.index(pb))]

def ty(e):
    k = e[0]
    if k == 'lit': return e[1]
    if k == 'fs': return 'f32'
    if k == 'fd': return 'f64'
    if k == 'neg': return common('i32', ty(e[1]))
    if k in ('not', 'and', 'or'): return 'i32'
    if k == 'bin': return common(ty(e[2]), ty(e[3])) if e[1] in ARITH else 'i32'
    if k == 'cast': return e[1]
    if k == 'cond': return common(ty(e[2]), ty(e[3]))

def d2b(x): return struct.unpack('<Q', struct.pack('<d', x))[0]
def s2b(x): return struct.unpack('<I', struct.pack('<f', x))[0]
def b2d(b): return struct.unpack('<d', struct.pack('<Q', b))[0]
def b2s(b): return struct.unpack('<f', struct.pack('<I', b))[0]

def leaf(rng):
    r = rng.random()
    if r < 0.3:
        t = rng.choice(RANK)
        z = rng.choice([0, 1, 2, 3, 7, 100, 2147483647, rng.randrange(0, 1 << 31)])
        if t in ('i32', 'i64') and rng.random() < 0.3: z = -z
        if t == 'u64' and rng.random() < 0.4: z = rng.choice([(1 << 64) - 1, (1 << 63) + 1025, (1 << 63) + rng.randrange(1 << 40)])
        if t == 'i64' and rng.random() < 0.3: z = rng.choice([(1 << 62) + 12345, -(1 << 62) - 1, (1 << 53) + 1])
        return ('lit', t, z)
    if r < 0.62:
        m = rng.choice([1.0, 1.5, 0.1, 3.0, 1 + 2.0 ** -23, 2.0 ** -24 * (1 + 2.0 ** -23), 2.0 ** -25, 16777217.0, 0.0, 2.5, 1e10])
        if rng.random() < 0.4: m = rng.uniform(0.01, 100.0)
        if rng.random() < 0.25: m = -m
        return ('fs', s2b(struct.unpack('<f', struct.pack('<f', m))[0]))
    m = rng.choice([1.0, 0.1, 0.2, 2.9, 1 + 2.0 ** -52, 2.0 ** -53 * (1 + 2.0 ** -52), 2.0 ** -53, 9007199254740993.0, 1e19, 1.8e19,
                    3e9, 0.0, 1e300, 2.0 ** 63, 0.5])
    if rng.random() < 0.4: m = rng.uniform(0.001, 1000.0)
    if rng.random() < 0.25: m = -m
    return ('fd', d2b(m))

def gen(rng, d):
    if d == 0 or rng.random() < 0.15: return leaf(rng)
    r = rng.random()
    if r < 0.5: return ('bin', rng.choice(list(ARITH)), gen(rng, d - 1), gen(rng, d - 1))
    if r < 0.6: return ('bin', rng.choice(list(CMP)), gen(rng, d - 1), gen(rng, d - 1))
    if r < 0.68: return ('neg', gen(rng, d - 1))
    if r < 0.84: return ('cast', rng.choice(['f32', 'f64', 'f32', 'f64', 'i32', 'u32', 'i64', 'u64', 'u8', 'i16', 'bool']), gen(rng, d - 1))
    if r < 0.9: return ('cond', gen(rng, d - 1), gen(rng, d - 1), gen(rng, d - 1))
    if r < 0.94: return ('not', gen(rng, d - 1))
    return (rng.choice(['and', 'or']), gen(rng, d - 1), gen(rng, d - 1))

def focused(rng):
    """operands whose exact result rounds differently at 64 and at 53 bits (double rounding through long double)"""
    if rng.random() < 0.3:      # (unsigned long) of a float / double in [2^63, 2^64): the (uint64_t) route of eval2_raw
        x = 2.0 ** 63 * (1 + rng.random() * 0.999)
        l = ('fd', d2b(x)) if rng.random() < 0.6 else ('fs', s2b(struct.unpack('<f', struct.pack('<f', x))[0]))
        l = l if rng.random() < 0.5 else ('bin', '+', l, ('lit', 'i32', rng.randrange(0, 4096)))
        return ('cast', 'u64', l) if rng.random() < 0.4 else ('noroot', l)     # noroot: `static unsigned long s = <floating tree>;`
    k = rng.randrange(-20, 20)
    a = 2.0 ** k; b = 2.0 ** (k - 53) * (1 + 2.0 ** -52)
    if rng.random() < 0.5: a, b = -a, -b
    e = ('bin', '+', ('fd', d2b(a)), ('fd', d2b(b)))
    if rng.random() < 0.5: e = ('bin', rng.choice(['-', '*']), e, ('fd', d2b(a)))
    return e

def lit_c(e):
    k = e[0]
    if k == 'lit':
        t, z = e[1], e[2]
        return '(%d%s)' % (z, {'i32': '', 'u32': 'u', 'i64': 'L', 'u64': 'UL'}[t])
    if k == 'fs': return '(' + b2s(e[1]).hex() + 'f)'
    return '(' + b2d(e[1]).hex() + ')'

def to_c(e, leaves):
    k = e[0]
    if k in ('lit', 'fs', 'fd'):
        if leaves is None: return lit_c(e)
        leaves.append(e); return 'VNAME%d' % (len(leaves) - 1)
    if k == 'neg': return '(-' + to_c(e[1], leaves) + ')'
    if k == 'not': return '(!' + to_c(e[1], leaves) + ')'
    if k == 'and': return '(' + to_c(e[1], leaves) + ' && ' + to_c(e[2], leaves) + ')'
    if k == 'or': return '(' + to_c(e[1], leaves) + ' || ' + to_c(e[2], leaves) + ')'
    if k == 'bin': return '(' + to_c(e[2], leaves) + ' ' + e[1] + ' ' + to_c(e[3], leaves) + ')'
    if k == 'cast': return '((' + CT[e[1]] + ')' + to_c(e[2], leaves) + ')'
    if k == 'cond': return '(' + to_c(e[1], leaves) + ' ? ' + to_c(e[2], leaves) + ' : ' + to_c(e[3], leaves) + ')'

def to_coq(e):
    k = e[0]
    if k == 'lit': return '(FLit %s (%d))' % (QT[e[1]][3:], e[2])
    if k == 'fs': return '(FLitS (b32_of_bits %d))' % e[1]
    if k == 'fd': return '(FLitD (b64_of_bits %d))' % e[1]
    if k == 'neg': return '(FUn Neg %s)' % to_coq(e[1])
    if k == 'not': return '(FUn LogNot %s)' % to_coq(e[1])
    if k == 'and': return '(FBin LAnd %s %s)' % (to_coq(e[1]), to_coq(e[2]))
    if k == 'or': return '(FBin LOr %s %s)' % (to_coq(e[1]), to_coq(e[2]))
    if k == 'bin': return '(FBin %s %s %s)' % ({**ARITH, **CMP}[e[1]], to_coq(e[2]), to_coq(e[3]))
    if k == 'cast': return '(FCast (%s) %s)' % (QT[e[1]], to_coq(e[2]))
    if k == 'cond': return '(FCond %s %s %s)' % (to_coq(e[1]), to_coq(e[2]), to_coq(e[3]))

HEAD = """From Coq Require Import ZArith Bool List.
From Flocq Require Import Core Binary Bits.
From Chibicc Require Import Spec.C11Int Spec.C11Float Spec.C11LDouble Model.ConstFold Model.FloatGen Model.FloatFold.
Local Open Scope Z_scope.
Set Printing Width 100000. Set Printing Depth 100000.
Definition nb (v : val) : Z := match v with VI z => z
 | VS x => if is_nan 24 128 x then -1 else bits_of_b32 x | VD x => if is_nan 53 1024 x then -1 else bits_of_b64 x end.
(* C11 6.7.9p11: the value of the initializer converted to the type of the object *)
Definition sp (t : ty) (e : fexpr) : option Z := match feval (fun _ => VI 0) e with
 | Some v => match convert t v with Some w => Some (nb w) | None => None end | None => None end.
Definition md (t : ty) (e : fexpr) : option Z := static_bits t e.
"""

def run_coq(cases, verif_dir, wd):
    src = HEAD + ''.join('Eval vm_compute in (%d, sp (%s) %s, md (%s) %s).\n' % (i, QT[ot], to_coq(e), QT[ot], to_coq(e)) for i, (ot, e) in enumerate(cases))
    f = os.path.join(wd, 'Cases_ffold.v'); open(f, 'w').write(src)
    p = subprocess.run(['timeout', '300', 'coqc', '-Q', os.path.join(verif_dir, 'coq', 'theories'), 'Chibicc', f],
                       capture_output=True, text=True, cwd=wd)
    if p.returncode != 0: raise RuntimeError('coqc failed: ' + (p.stdout + p.stderr)[-800:])
    res = {}
    for m in re.finditer(r'=\s*\((\d+),\s*(None|Some\s+\(?-?\d+\)?),\s*(None|Some\s+\(?-?\d+\)?)\)', p.stdout):
        def pv(s): return None if s == 'None' else int(re.sub(r'[^-\d]', '', s))
        res[int(m.group(1))] = (pv(m.group(2)), pv(m.group(3)))
    if len(res) != len(cases): raise RuntimeError('coqc printed %d results for %d cases' % (len(res), len(cases)))
    return res

def norm(t, bits):
    if t == 'f32': return -1 if ((bits >> 23) & 0xff) == 0xff and bits & 0x7fffff else bits
    if t == 'f64': return -1 if ((bits >> 52) & 0x7ff) == 0x7ff and bits & ((1 << 52) - 1) else bits
    w = {'i32': 32, 'u32': 32, 'i64': 64, 'u64': 64, 'i8': 8, 'u8': 8, 'i16': 16, 'u16': 16, 'bool': 8}[t]
    bits &= (1 << w) - 1
    if t[0] == 'i' and bits >> (w - 1): bits -= 1 << w
    return bits

def c_program(cases, idx):
    out = ['int printf(const char*, ...);', 'void *memcpy(void*, const void*, unsigned long);']
    body = []
    for i in idx:
        t, e = cases[i]; T = CT[t]
        out.append('static %s s%d = %s;' % (T, i, to_c(e, None)))
        leaves = []; rt = to_c(e, leaves)
        for j, l in enumerate(leaves):
            out.append('volatile %s v%d_%d = %s;' % (CT[ty(l)], i, j, lit_c(l)))
        rt = re.sub(r'VNAME(\d+)', lambda m: 'v%d_%s' % (i, m.group(1)), rt)
        en = ''
        if t == 'i32' and ty(e) == 'i32':
            out.append('enum { E%d = %s }; char A%d[(%s) >= 0 ? ((%s) & 1023) + 1 : 1];' % (i, to_c(e, None), i, to_c(e, None), to_c(e, None)))
            en = ' printf("N %d %%d %%d\\n", E%d, (int)sizeof A%d);' % (i, i, i)
        body.append('{ %s r = %s; unsigned long a = 0, b = 0; memcpy(&a, &s%d, sizeof r); memcpy(&b, &r, sizeof r); printf("R %d %%lu %%lu\\n", a, b);%s }'
                    % (T, rt, i, i, en))
    out.append('int main(void) {'); out += body; out.append('return 0; }')
    return '\n'.join(out) + '\n'

def run_c(cc, prog, wd, name, extra=()):
    f = os.path.join(wd, name + '.c'); open(f, 'w').write(prog); exe = os.path.join(wd, name)
    p = subprocess.run([cc, *extra, '-o', exe, f], capture_output=True, text=True)
    if p.returncode != 0: return None, (p.stdout + p.stderr)[-600:]
    q = subprocess.run([exe], capture_output=True, text=True)
    R, N = {}, {}
    for line in q.stdout.splitlines():
        w = line.split()
        if w[0] == 'R': R[int(w[1])] = (int(w[2]), int(w[3]))
        else: N[int(w[1])] = (int(w[2]), int(w[3]))
    return (R, N), ''

def make_cases(seed, n):
    rng = random.Random(seed); cases = []
    while len(cases) < n:
        e = focused(rng) if rng.random() < 0.15 else gen(rng, rng.randrange(1, 6))
        if e[0] == 'noroot':
            cases.append(('u64', e[1])); continue
        if rng.random() < 0.15: e = ('cast', rng.choice(['i32', 'i32', 'u64', 'i64']), e)
        ot = ty(e)
        r = rng.random()
        if r < 0.35:        # the object's type differs from the initializer's: write_gvar_data converts (6.7.9p11)
            if ot in ('f32', 'f64'): ot = rng.choice(['u64', 'u64', 'i64', 'i32', 'u32', 'u8', 'i16', 'bool'])
            else: ot = rng.choice(['f32', 'f64', 'f32', 'f64', 'u8', 'i16', 'u64', 'bool'])
        cases.append((ot, e))
    return cases

def run(src_dir, seed=1, n=300, verif_dir=None):
    verif_dir = verif_dir or os.path.dirname(os.path.dirname(os.path.abspath(__file__)))
    cases = make_cases(seed, n); wd = tempfile.mkdtemp(prefix='tie_ffold_')
    try:
        coq = run_coq(cases, verif_dir, wd)
        idx = [i for i in range(len(cases)) if coq[i][0] is not None]
        dist = {'undefined_in_c11': len(cases) - len(idx), 'float': 0, 'double': 0, 'integer': 0, 'enum_and_bound': 0, 'nan': 0}
        res, err = run_c(os.path.join(src_dir, 'chibicc'), c_program(cases, idx), wd, 'prog')
        if res is None: raise RuntimeError('chibicc failed: ' + err)
        R, N = res
        gres, _ = run_c('gcc', c_program(cases, idx), wd, 'progg', ('-w', '-O0'))
        ivs, ivm, samples, gcc_vs_spec, distinct = [], [], [], 0, set()
        for i in idx:
            t, e = cases[i]; spec, model = coq[i]
            st, rt = norm(t, R[i][0]), norm(t, R[i][1])
            if model is not None: model = norm(t, model)   # object bytes: NaNs identified, integers read in the object's type
            if ty(e) != t: dist['converted_by_initialization'] = dist.get('converted_by_initialization', 0) + 1
            dist['float' if t == 'f32' else 'double' if t == 'f64' else 'integer'] += 1
            if spec == -1: dist['nan'] += 1
            distinct.add((t, spec))
            c = to_c(e, None)
            if st != spec or rt != spec: ivs.append({'case': 'static %s s = %s;' % (CT[t], c), 'impl': {'static': st, 'runtime': rt}, 'spec': spec})
            if st != model: ivm.append({'case': 'static %s s = %s;' % (CT[t], c), 'impl': st, 'model': model})
            if i in N:
                dist['enum_and_bound'] += 1
                want = (spec, (spec & 1023) + 1 if spec >= 0 else 1)
                if N[i] != want: ivs.append({'case': 'enum { E = %s }; char A[...]' % c, 'impl': list(N[i]), 'spec': list(want)})
            if gres and i in gres[0] and norm(t, gres[0][i][0]) != spec: gcc_vs_spec += 1
            if len(samples) < 5: samples.append({'case': c, 'type': t, 'static': st, 'runtime': rt, 'spec': spec, 'model': model})
        return {'evaluations': 2 * len(idx) + 2 * dist['enum_and_bound'], 'distinct_nontrivial': len(distinct), 'distribution': dist,
                'impl_vs_spec': ivs, 'impl_vs_model': ivm, 'gcc_vs_spec': gcc_vs_spec, 'samples': samples}
    finally:
        shutil.rmtree(wd, ignore_errors=True)

if __name__ == '__main__':
    a = sys.argv
    print(json.dumps(run(a[1], int(a[2]) if len(a) > 2 else 1, int(a[3]) if len(a) > 3 else 300), indent=1))
