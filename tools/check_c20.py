#!/usr/bin/env python3
"""C20 - evaluation leaves no residue on the machine stack or the x87 stack.
   proofs (every well-typed scalar expression / statement of the model leaves both stacks where
   they were, exactly one value, no underflow, no x87 overflow while need <= 8) + correspondence:
   (a) generated expressions and statements over the three register classes (long, double,
       long double): the sequence of stack / x87 instructions chibicc emits between two markers
       = the sequence of the extracted model (so the theorem speaks about the emitted code);
   (b) every function of those and of richer generated programs is run through an abstract
       interpreter of the emitted assembly (depth and x87 depth along all paths, joins must agree);
   (c) run time: rsp and the x87 tag word before / after 1000 repetitions of generated statements
       (incl. forms outside the model: structs, op=, ++/--, float, _Bool, bit-fields, switch,
       statement expressions), and the values of long double expressions against gcc."""
import os, sys, time, random, json, re
sys.path.insert(0, os.path.dirname(os.path.abspath(__file__)))
from vlib import *

PID = 'C20'
THEOREMS = ['C20_expression_balanced', 'C20_statement_balanced', 'C20_need_covers_value', 'C20_deep_right_nesting_overflows', 'C20_left_nesting_is_flat', 'C20_nonvacuous']
MODELRUN = os.path.join(VERIF, 'ocaml/modelrun')
CT = {'I': 'long', 'F': 'double', 'X': 'long double'}
SLOTS = {'I': 1, 'F': 1, 'X': 2}

class G:
    """generates (prefix AST, C text, x87 need estimate) with the static depth codegen.c would have"""
    def __init__(self, rng, protos, runtime=False, pure=False):
        self.rng = rng; self.protos = protos; self.runtime = runtime; self.pure = pure
    def var(self, c): return {'I': 'i%d', 'F': 'f%d', 'X': 'x%d'}[c] % self.rng.randint(0, 1)
    def lit(self, c):
        if c == 'I': return '%dL' % self.rng.randint(0, 9)
        if c == 'F': return '%d.5' % self.rng.randint(0, 9)
        return '%d.25L' % self.rng.randint(0, 9)
    def expr(self, c, depth, d):
        """returns (ast, ctext); c = class wanted, depth = remaining nesting, d = static stack depth"""
        rng = self.rng
        if depth <= 0 or rng.random() < 0.15:
            if rng.random() < 0.5: return 'N ' + c, self.lit(c)
            return 'V ' + c, self.var(c)
        r = rng.random()
        if r < 0.25:
            a_d, b_d = (d, d) if c == 'X' else (d + 1, d)
            b = self.expr(c, depth - 1, b_d); a = self.expr(c, depth - 1, a_d)
            op = rng.choice(['+', '-', '*'] + (['&', '|', '^'] if c == 'I' else []))
            return 'B %s %s %s' % (c, a[0], b[0]), '(%s %s %s)' % (a[1], op, b[1])
        if r < 0.35 and c == 'I':
            oc = rng.choice('IFX')
            a_d, b_d = (d, d) if oc == 'X' else (d + 1, d)
            b = self.expr(oc, depth - 1, b_d); a = self.expr(oc, depth - 1, a_d)
            return 'C %s %s %s' % (oc, a[0], b[0]), '((long)(%s %s %s))' % (a[1], rng.choice(['<', '<=', '==', '!=']), b[1])
        if r < 0.40:
            a = self.expr(c, depth - 1, d); return 'G %s %s' % (c, a[0]), '(-%s)' % a[1]
        if r < 0.46 and c == 'I':
            oc = rng.choice('IFX'); a = self.expr(oc, depth - 1, d); return 'L %s %s' % (oc, a[0]), '((long)!%s)' % a[1]
        if r < 0.60:
            f = rng.choice('IFX'); a = self.expr(f, depth - 1, d)
            return 'K %s %s %s' % (f, c, a[0]), '((%s)%s)' % (CT[c], a[1])
        if r < 0.70 and not self.pure:
            v = self.expr(c, depth - 1, d + 1)
            if rng.random() < 0.5: return 'A %s N I %s' % (c, v[0]), '(%s = %s)' % (self.var(c), v[1])
            return 'A %s V I %s' % (c, v[0]), '(*%s = %s)' % ({'I': 'pi', 'F': 'pf', 'X': 'px'}[c], v[1])
        if r < 0.78:
            c0 = rng.choice('IFX'); x = self.expr(c0, depth - 1, d); a = self.expr(c, depth - 1, d); b = self.expr(c, depth - 1, d)
            return 'Q %s %s %s %s %s' % (c0, c, x[0], a[0], b[0]), '(%s ? %s : %s)' % (x[1], a[1], b[1])
        if r < 0.84 and c == 'I':
            c1, c2 = rng.choice('IFX'), rng.choice('IFX'); a = self.expr(c1, depth - 1, d); b = self.expr(c2, depth - 1, d)
            k = rng.choice(['D', 'O'])
            return '%s %s %s %s %s' % (k, c1, c2, a[0], b[0]), '((long)(%s %s %s))' % (a[1], '&&' if k == 'D' else '||', b[1])
        if r < 0.90:
            c1 = rng.choice('IFX'); a = self.expr(c1, depth - 1, d); b = self.expr(c, depth - 1, d)
            if rng.random() < 0.4: return 'M I X %s %s %s' % (c1, a[0], b[0]), '((void)%s, %s)' % (a[1], b[1])
            return 'M %s %s %s' % (c1, a[0], b[0]), '(%s, %s)' % (a[1], b[1])
        # call
        cands = [p for p in self.protos if p[1] == c]
        name, ret, params = rng.choice(cands)
        gp = fp = 0; flags = []
        for pc in params:
            if pc == 'I': st = gp >= 6; gp += 0 if st else 1
            elif pc == 'F': st = fp >= 8; fp += 0 if st else 1
            else: st = True
            flags.append(st)
        stack = sum(SLOTS[pc] for pc, st in zip(params, flags) if st)
        pad = (d + stack) % 2
        cur = d + pad
        asts = [None] * len(params); texts = [None] * len(params)
        for want in (True, False):
            for i in reversed(range(len(params))):
                if flags[i] != want: continue
                a = self.expr(params[i], depth - 1, cur); asts[i], texts[i] = a
                cur += SLOTS[params[i]]
        ast = 'F %s %d %d %s' % (ret, pad, len(params), ' '.join('%s %d %s' % (pc, 1 if st else 0, a) for pc, st, a in zip(params, flags, asts)))
        return ast, '%s(%s)' % (name, ', '.join(texts))
    def stmt(self, depth):
        rng = self.rng; r = rng.random()
        if depth <= 0 or r < 0.45:
            c = rng.choice('IFX'); e = self.expr(c, rng.randint(1, 3), 0)
            return 'SE %s %s' % (c, e[0]), e[1] + ';'
        if r < 0.60:
            c0 = rng.choice('IFX'); x = self.expr(c0, 2, 0); a = self.stmt(depth - 1); b = self.stmt(depth - 1)
            return 'SI %s %s %s %s' % (c0, x[0], a[0], b[0]), 'if (%s) { %s } else { %s }' % (x[1], a[1], b[1])
        if r < 0.72:
            ci0 = rng.choice('IFX'); i0 = self.expr(ci0, 2, 0); c0 = rng.choice('IFX'); x = self.expr(c0, 2, 0); ci = rng.choice('IFX'); inc = self.expr(ci, 2, 0); b = self.stmt(depth - 1)
            cond = x[1] if not self.runtime else '(k++ < 3 && (%s, 1))' % x[1]
            xa = x[0] if not self.runtime else None
            if self.runtime: return None, 'for (%s; %s; %s) { %s }' % (i0[1], cond, inc[1], b[1])
            return 'SF SE %s %s %s %s %s %s %s' % (ci0, i0[0], c0, x[0], ci, inc[0], b[0]), 'for (%s; %s; %s) { %s }' % (i0[1], x[1], inc[1], b[1])
        if r < 0.80:
            b = self.stmt(depth - 1); c0 = rng.choice('IFX'); x = self.expr(c0, 2, 0)
            if self.runtime: return None, 'do { %s } while (k++ < 3 && (%s, 1));' % (b[1], x[1])
            return 'SD %s %s %s' % (b[0], c0, x[0]), 'do { %s } while (%s);' % (b[1], x[1])
        if r < 0.93:
            n = rng.randint(0, 3); ss = [self.stmt(depth - 1) for _ in range(n)]
            return 'SB %d %s' % (n, ' '.join(s[0] or '' for s in ss)), '{ %s }' % ' '.join(s[1] for s in ss)
        e = self.expr('I', 2, 0)
        return 'SR I %s' % e[0], 'return %s;' % e[1]

XRET = {'fn1', 'fn4', 'fn7'}

def asm_ops(body):
    """classify the instructions of a marker-delimited region"""
    ls = [x.strip() for l in body.split('\n') if l.strip() and not l.strip().startswith('.loc') for x in l.split(';') if x.strip()]
    out = []; i = 0; sym = None; pend = False
    while i < len(ls):
        l = ls[i]; nx = ls[i + 1] if i + 1 < len(ls) else ''
        ms = re.match(r'(?:lea|mov) ([A-Za-z_][A-Za-z_0-9]*)(?:@GOTPCREL)?\(%rip\), %rax', l)
        if ms: sym = ms.group(1)
        if l.startswith('call'): pend = sym in XRET
        m = re.match(r'sub \$(\d+), %rsp', l)
        if l.startswith('push '): out.append('U')
        elif l.startswith('pop '): out.append('O')
        elif m and m.group(1) == '8' and nx.startswith('movsd %xmm0, (%rsp)'): out.append('u'); i += 1
        elif l.startswith('movsd (%rsp), %xmm') and nx == 'add $8, %rsp': out.append('o'); i += 1
        elif m: out.append('S%d' % (int(m.group(1)) // 8))
        elif re.match(r'add \$(\d+), %rsp', l):
            out.append('A%d' % (int(re.match(r'add \$(\d+)', l).group(1)) // 8))
            if pend: out.append('F'); pend = False
        elif re.match(r'(fldt|fldl|flds|fildq|fildl|filds|fildll|fldz|fld1)\b', l): out.append('F')
        elif re.match(r'(fstpt|fstpl|fstps|fistpq|fistpl|fistps|fistpll|faddp|fsubrp|fsubp|fmulp|fdivrp|fdivp|fcomip|fucomip)\b', l) or l == 'fstp %st(0)': out.append('f')
        i += 1
    return ''.join(out)

def abstract_interpret(asm):
    """per function: propagate (stack depth in bytes relative to the post-prologue rsp, x87 depth) along all paths;
       returns list of problems"""
    probs = []
    funcs = re.split(r'\n(?=[A-Za-z_][A-Za-z_0-9.]*:\n  push %rbp)', asm)
    for fn in funcs:
        m = re.match(r'([A-Za-z_][A-Za-z_0-9.]*):\n  push %rbp', fn)
        if not m: continue
        name = m.group(1)
        lines = [x.strip() for l in fn.split('\n')[1:] if l.strip() and not l.strip().startswith('.loc') for x in l.split(';') if x.strip()]
        # skip the prologue: push %rbp / mov %rsp,%rbp / sub $N,%rsp / mov %rsp, off(%rbp)
        k = 0
        while k < len(lines) and not lines[k].startswith('mov %rsp, -'): k += 1
        lines = lines[k + 1:]
        state = (0, 0); at_label = {}; dead = False
        dyn = False; sym = None; numfwd = {}; numdef = {}
        for idx, l in enumerate(lines):
            nm = re.match(r'(\d+):$', l)
            if nm:
                n = nm.group(1)
                for st in numfwd.pop(n, []):
                    if dead: state = st; dead = False
                    elif st != state and not dyn: probs.append('%s: paths join at local label %s with different states %s vs %s' % (name, n, st, state))
                numdef[n] = state; dead = False
                continue
            lm = re.match(r'(\.L[A-Za-z_0-9.$]*):$', l)
            if lm:
                lab = lm.group(1)
                if lab in at_label:
                    if not dead and at_label[lab] != state and not dyn: probs.append('%s: paths join at %s with different states %s vs %s' % (name, lab, at_label[lab], state))
                    state = at_label[lab]
                else:
                    if dead: continue_state = None
                    at_label[lab] = state
                dead = False
                continue
            if dead: continue
            d, x = state
            jn = re.match(r'(jmp|je|jne|jns|js|jae|jb|jl|jle|jg|jge|ja|jbe|jz|jnz|jp|jnp)\s+(\d+)([fb])$', l)
            if jn:
                if jn.group(3) == 'f': numfwd.setdefault(jn.group(2), []).append(state)
                elif numdef.get(jn.group(2)) not in (None, state) and not dyn: probs.append('%s: backward jump to local label %s with a different state' % (name, jn.group(2)))
                if jn.group(1) == 'jmp': dead = True
                continue
            jm = re.match(r'(jmp|je|jne|jns|js|jae|jb|jl|jle|jg|jge|ja|jbe|jz|jnz|jp|jnp)\s+(\.L[A-Za-z_0-9.$]*)', l)
            if jm:
                lab = jm.group(2)
                if lab in at_label:
                    if at_label[lab] != state and not dyn: probs.append('%s: jump to %s with state %s, label has %s' % (name, lab, state, at_label[lab]))
                else: at_label[lab] = state
                if jm.group(1) == 'jmp': dead = True
                continue
            if l.startswith('jmp *'): dead = True; continue
            ms = re.match(r'(?:lea|mov) ([A-Za-z_][A-Za-z_0-9]*)(?:@GOTPCREL)?\(%rip\), %rax', l)
            if ms: sym = ms.group(1)
            if l.startswith('push '): d += 8
            elif l.startswith('pop '): d -= 8
            elif re.match(r'sub \$(\d+), %rsp', l): d += int(re.match(r'sub \$(\d+)', l).group(1))
            elif re.match(r'add \$(\d+), %rsp', l): d -= int(re.match(r'add \$(\d+)', l).group(1))
            elif re.match(r'(sub|add|mov|lea|and) .*%rsp$', l) and not l.startswith('mov %rsp'): dyn = True      # alloca / VLA: deliberate
            elif re.match(r'(fldt|fldl|flds|fildq|fildl|filds|fildll|fldz|fld1)\b', l): x += 1
            elif re.match(r'(fstpt|fstpl|fstps|fistpq|fistpl|fistps|fistpll|faddp|fsubrp|fsubp|fmulp|fdivrp|fdivp|fcomip|fucomip)\b', l) or l == 'fstp %st(0)': x -= 1
            elif l.startswith('call'):
                if sym in XRET: x += 1
            elif l == 'ret': dead = True
            if d < 0 and not dyn: probs.append('%s: pops below the frame at instruction %d (%s)' % (name, idx, l)); d = 0
            if x < 0: probs.append('%s: x87 stack underflow at instruction %d (%s)' % (name, idx, l)); x = 0
            if x > 8: probs.append('%s: x87 stack overflow (depth %d) at instruction %d (%s)' % (name, x, idx, l)); x = 8
            state = (d, x)
    return probs

PROTOS = [('fn0', 'I', 'II'), ('fn1', 'X', 'XIF'), ('fn2', 'F', 'FXF'), ('fn3', 'I', 'IIIIIIII'), ('fn4', 'X', 'XX'), ('fn5', 'F', 'FFFFFFFFFI'), ('fn6', 'I', ''), ('fn7', 'X', 'IXIXF'), ('fn8', 'F', 'X')]
PARAMS = 'long i0, long i1, double f0, double f1, long double x0, long double x1, long *pi, double *pf, long double *px'

def main():
    run = Run(PID, THEOREMS)
    rng = run.rng
    try:
        src = build_impl()
    except BuildFailed as e:
        run.proof_broken.append('scratch build of /repo failed: ' + str(e)[-800:])
        return run.finish(dict(evaluations=0), [], [])
    wd = scratch_dir()
    run.check_proofs(deps=['theories/Model/StackDisc.vo', 'theories/Proofs/StackDiscProofs.vo'])
    NCORPUS = run_corpus(run, PID, src)          # minimised past failures first
    rc, o, e = sh([os.path.join(VERIF, 'ocaml/build.sh')], timeout=900)
    if rc != 0:
        run.corr_broken.append('extracted model does not build: ' + (o + e)[-300:])
        return run.finish(dict(evaluations=0), [], [])
    chibi = os.path.join(src, 'chibicc')
    evals = 0; nontriv = 0; dist = {}; samples = []
    def count(k, n=1): dist[k] = dist.get(k, 0) + n
    protos = [(n, r, list(p)) for n, r, p in PROTOS]
    decl = ''.join('%s %s(%s);\n' % (CT[r], n, ', '.join(CT[c] for c in p) or 'void') for n, r, p in protos)

    # ---------------- (a) op sequence = model ----------------
    NA = 300 if run.quick() else 3000
    g = G(rng, protos)
    tests = []
    for k in range(NA):
        if k % 3 == 0:
            c = rng.choice('IFX'); a = g.expr(c, rng.randint(1, 4), 0); tests.append(('SE %s %s' % (c, a[0]), a[1] + ';'))
        else:
            tests.append(g.stmt(rng.randint(1, 3)))
    CH = 60
    chunks = [tests[i:i + CH] for i in range(0, len(tests), CH)]
    p = sh([MODELRUN, 'sdisc'], input='\n'.join(t[0] for t in tests) + '\n', timeout=300)
    mlines = p[1].strip().split('\n')
    if len(mlines) != len(tests):
        run.corr_broken.append('modelrun sdisc failed: ' + (p[2] or p[1])[-300:])
        mlines = ['0 0 FAIL FAIL | '] * len(tests)
    def one_chunk(ci):
        ch = chunks[ci]
        f = os.path.join(wd, 'a%d.c' % ci)
        open(f, 'w').write(decl + ''.join('long t_%d(%s) {\n  asm("# BEGIN %d");\n  %s\n  asm("# END %d");\n  return 0;\n}\n' % (ci * CH + j, PARAMS, ci * CH + j, t[1], ci * CH + j) for j, t in enumerate(ch)))
        rc, out, err = sh([chibi, '-S', '-o', '-', f], timeout=120)
        return ci, rc, out, err
    allasm = []
    for ci, rc, out, err in pmap(one_chunk, range(len(chunks))):
        if rc != 0:
            run.violation(dict(kind='valid-program-rejected', stderr=err[-400:], chunk=ci), dict(area='compile')); continue
        allasm.append(out)
        for j, t in enumerate(chunks[ci]):
            k = ci * CH + j; evals += 1
            m = re.search(r'# BEGIN %d\n(.*?)# END %d\n' % (k, k), out, re.S)
            if not m: run.corr_broken.append('markers of test %d not found' % k); continue
            got = asm_ops(m.group(1))
            head, ops = mlines[k].split('|'); ops = ops.strip()
            wt, need, fd, fx = head.split()
            if wt != '1': run.corr_broken.append('generated AST %d is not well-typed for the model: %s' % (k, t[0])); continue
            if int(need) > 8: count('needs-more-than-8-x87'); continue
            nontriv += 1; count('sequence-compared')
            if fd != '0' or fx not in ('0',):
                run.corr_broken.append('model run of test %d does not end balanced: %s %s' % (k, fd, fx))
            if got != ops:
                run.corr_broken.append('stack/x87 instruction sequence of test %d differs from the model' % k)
                write_replay(PID, 'seq_%d.json' % k, dict(statement=t[1], ast=t[0], chibicc_ops=got, model_ops=ops))
            if len(samples) < 2: samples.append(dict(statement=t[1][:200], ops=ops))

    # ---------------- (b) abstract interpretation of everything emitted ----------------
    for out in allasm:
        for pr in abstract_interpret(out):
            evals += 1
            run.violation(dict(kind='unbalanced-code', problem=pr, how='abstract interpretation of chibicc -S output (stack bytes, x87 depth) along all paths'), dict(area='asm', construct='unbalanced'))
    count('functions-interpreted', sum(o.count('push %rbp') for o in allasm))

    # ---------------- (c) run time: rsp / x87 tag word after repetitions; values vs gcc ----------------
    helper = os.path.join(wd, 'helper.c')
    open(helper, 'w').write('''
long get_rsp(void) { long r; __asm__ volatile ("mov %%rsp, %0" : "=r"(r)); return r; }
int x87_used(void) { unsigned short env[14]; __asm__ volatile ("fnstenv %0; fldenv %0" : "+m"(env)); unsigned short tag = env[4]; int n = 0; for (int i = 0; i < 8; i++) if (((tag >> (2 * i)) & 3) != 3) n++; return n; }
long fn0(long a, long b) { return a - b; }
long double fn1(long double a, long b, double c) { return a + b + c; }
double fn2(double a, long double b, double c) { return a + (double)b - c; }
long fn3(long a, long b, long c, long d, long e, long f, long g, long h) { return a + b + c + d + e + f + g + 3 * h; }
long double fn4(long double a, long double b) { return a * 2 - b; }
double fn5(double a, double b, double c, double d, double e, double f, double g, double h, double i, long j) { return a + b + c + d + e + f + g + h + 2 * i + j; }
long fn6(void) { return 42; }
long double fn7(long a, long double b, long c, long double d, double e) { return a + b * 2 + c - d + e; }
double fn8(long double a) { return (double)a / 2; }
''')
    rc, o, e = sh(['gcc', '-O1', '-c', '-o', os.path.join(wd, 'helper.o'), helper])
    EXTRA = ['st.a = st.b; st2 = st;', 'i0 += x0;', 'x0 += i1;', 'x1++; ++x0; x0--;', 'f0 *= x1;', 'fl = x0; x0 = fl;', 'bo = x0; x1 = bo;', 'bf.w = x0; x0 = bf.w;', 'switch (i0 & 3) { case 0: x0 = x0 + 1; break; case 1: x1 = -x1; default: f0 = x0; }',
             'x0 = ({ long double q = x1; q + 1; });', 'x1 = retst(x0).v;', 'takes(st, x0, st2);', 'i1 = x0 < x1 ? i0 : 3;', 'x0 = x0 * x1 / (x1 + 1000);', '(void)(x0 + 1); x0; x1 * 2; fn4(x0, x1); (x0, x1);',
             'for (int q = 0; q < 3; q++, x0) x1;', 'x0 = i0 ? x0 : x1; x0 || x1; !x0;', 'uc = x0; x0 = uc; us = x1;', 'ul = x0; x1 = ul; x0 = (unsigned long)-1;', '*px = *px + 1; px[0] -= 1;']
    NC = 60 if run.quick() else 400
    gr = G(rng, protos, runtime=True)
    rt = []
    for k in range(NC):
        if k < len(EXTRA): body = EXTRA[k]
        else:
            s = gr.stmt(rng.randint(1, 3)); body = s[1]
            if 'return' in body: continue
        rt.append((k, body))
    def one_rt(t):
        k, body = t
        f = os.path.join(wd, 'r%d.c' % k)
        prog = '''int printf(const char *, ...);
long get_rsp(void); int x87_used(void);
%s
struct S { long a, b; long double v; } st, st2; struct BF { int w : 5; } bf; float fl; _Bool bo; unsigned char uc; unsigned short us; unsigned long ul;
struct S retst(long double v) { struct S s = {1, 2, v}; return s; }
void takes(struct S a, long double b, struct S c) { st2.v = a.v + b + c.v; }
long work(%s) {
  long k = 0;
  %s
  return 0;
}
int main(void) {
  long i0 = 3, i1 = 5; double f0 = 1.5, f1 = 2.5; long double x0 = 1.25L, x1 = 3.5L; long li = 7; double lf = 0.5; long double lx = 9.75L;
  long r0 = get_rsp(); int u0 = x87_used();
  for (int it = 0; it < 1000; it++) work(i0, i1, f0, f1, x0, x1, &li, &lf, &lx);
  long r1 = get_rsp(); int u1 = x87_used();
  long double t = x0 * 2 + lx;
  printf("%%ld %%d %%d %%d\\n", r1 - r0, u0, u1, (int)(t * 4));
  return 0;
}
''' % (decl, PARAMS, body)
        open(f, 'w').write(prog)
        rc, out, err = sh([chibi, '-c', '-o', f + '.o', f], timeout=60)
        if rc != 0: return k, body, 'compile:' + err[-300:], None, None
        rc, out, err = sh(['gcc', '-o', f + '.exe', f + '.o', os.path.join(wd, 'helper.o')], timeout=60)
        if rc != 0: return k, body, 'link:' + err[-300:], None, None
        rc, out, err = sh([f + '.exe'], timeout=20)
        rcs, outs, errs = sh([chibi, '-S', '-o', '-', f], timeout=60)
        # reference value from gcc
        rc2, o2, e2 = sh(['gcc', '-w', '-O0', '-o', f + '.gcc', f, os.path.join(wd, 'helper.o')], timeout=60)
        ref = sh([f + '.gcc'], timeout=20)[1] if rc2 == 0 else None
        return k, body, (rc, out), outs if rcs == 0 else None, ref
    for k, body, res, asm, ref in pmap(one_rt, rt):
        evals += 1
        if isinstance(res, str):
            run.violation(dict(kind='valid-program-rejected', statement=body, message=res), dict(area='runtime', construct='rejected')); continue
        rc, out = res
        nontriv += 1; count('runtime-probe')
        f = out.split()
        if rc != 0 or len(f) != 4 or f[0] != '0' or f[1] != '0' or f[2] != '0':
            run.violation(dict(kind='residue', statement=body, exit=rc, output=out.strip(), meaning='rsp difference, x87 registers in use before and after 1000 repetitions, check value',
                               how='long work(...) { <statement> } called 1000 times from main; helper.o (gcc) reads rsp and the x87 tag word'), dict(area='runtime', construct='residue'))
        elif ref is not None and ref.split()[-1:] != f[-1:]:
            run.violation(dict(kind='later-long-double-result-corrupted', statement=body, chibicc=out.strip(), gcc=ref.strip()), dict(area='runtime', construct='corrupted'))
        if asm:
            for pr in abstract_interpret(asm):
                run.violation(dict(kind='unbalanced-code', statement=body, problem=pr), dict(area='asm', construct='unbalanced'))

    # values of long double expressions (every expression leaves exactly one usable value) vs gcc
    NV = 40 if run.quick() else 300
    gv = G(rng, protos, pure=True)      # no assignments: their order relative to other operands is unspecified
    vals = []
    for k in range(NV):
        c = rng.choice('XXXIF'); e = gv.expr(c, rng.randint(1, 4), 0)
        vals.append((c, e[1]))
    vals += [('X', '((x0 = 7.25L) * 2)'), ('X', '(x1 = (x0 = 3.5L))'), ('X', '((*px = x1) + 1)'), ('X', '(x0 += 2, x0)'), ('X', '(x0++ , x0)'), ('X', '(i0 ? (x0 = x1) : x0)'),
             ('F', '((double)(x0 = f1))'), ('I', '((long)(x1 = i1))'), ('X', 'fn4((x0 = 2.5L), 1.0L)')]
    deep = 'x0+(x1+(x0+(x1+(x0+(x1+(x0+(x1+(x0+x1))))))))'
    vals.append(('X', deep))
    f = os.path.join(wd, 'vals.c')
    open(f, 'w').write('int printf(const char *, ...);\n' + decl + 'int main(void) {\n  long li = 7; double lf = 0.5; long double lx = 9.75L;\n' +
        ''.join('  { long i0 = 3, i1 = 5; double f0 = 1.5, f1 = 2.5; long double x0 = 1.25L, x1 = 3.5L; long *pi = &li; double *pf = &lf; long double *px = &lx; %s v = %s; printf("%%d %%.10Lg\\n", %d, (long double)v); }\n' % (CT[c], t, k) for k, (c, t) in enumerate(vals)) + '  return 0;\n}\n')
    rc, o, e = sh([chibi, '-c', '-o', f + '.o', f], timeout=120)
    if rc != 0:
        run.violation(dict(kind='valid-program-rejected', stderr=e[-300:]), dict(area='values', construct='rejected'))
    else:
        sh(['gcc', '-o', f + '.exe', f + '.o', os.path.join(wd, 'helper.o')]); r1 = sh([f + '.exe'], timeout=30)
        sh(['gcc', '-w', '-O0', '-o', f + '.gcc', f, os.path.join(wd, 'helper.o')]); r2 = sh([f + '.gcc'], timeout=30)
        a, b = r1[1].strip().split('\n'), r2[1].strip().split('\n')
        for k, (c, t) in enumerate(vals):
            evals += 1; nontriv += 1; count('value-compared')
            la = a[k] if k < len(a) else 'missing'; lb = b[k] if k < len(b) else 'missing'
            if la != lb:
                # division-free, so any difference is a lost or corrupted value; double rounding of mixed double/long double arithmetic is C02's
                if c == 'X' or 'nan' in la or 'missing' in la:
                    run.violation(dict(kind='expression-value', expression=t, chibicc=la, gcc=lb), dict(area='values', construct='x87-depth' if t == deep else 'value'))
                else: count('value-differs-non-ldouble')

    cov = dict(evaluations=evals, distinct_nontrivial=nontriv, input_distribution=dist, samples=samples,
               rule='(a) %d generated statements/expressions over long, double and long double (arithmetic, comparisons, casts between the three classes, assignment through variables and pointers, ?:, && ||, comma, (void), calls of 9 prototypes with register- and stack-passed arguments and alignment pads, if/for/do/blocks/return): the push/pop/pushf/popf/sub-add rsp/fld/fstp-class instruction sequence between two asm markers = the extracted model; (b) abstract interpretation (stack bytes, x87 depth, joins) of every emitted function; (c) %d run-time probes: 1000 calls of a function holding one generated or hand-written statement (structs by value, op=, ++/--, float/_Bool/bit-field/unsigned conversions, switch, statement expressions, discarded values): rsp and the x87 tag word unchanged, a later long double computation = gcc; %d expression values vs gcc' % (NA, len(rt), NV),
               traces_validated_against_impl=nontriv)
    return run.finish(cov,
        ['the x87 tag word is read by a gcc-compiled helper (fnstenv); gcc 12 -O0 gives the reference values',
         'storage obtained with alloca or a VLA is deliberate residue and is not generated here (C04 covers it)'],
        ['Coq 8.16.1 kernel, no axioms', 'hand-written Model/StackDisc.v: classes of values instead of C types, structured control flow instead of labels; tied to codegen.c by the instruction-sequence correspondence (a)',
         'aggregates, bit-fields, atomics, variadic calls and alloca are outside the model and covered by (b)/(c) only; x87 capacity (need <= 8) is a hypothesis of the theorems: right-nested long double expressions deeper than 7 overflow (known finding)'])

if __name__ == '__main__':
    sys.exit(main())
