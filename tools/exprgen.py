"""Random integer expression trees shared by C01 and C07.
   tree := ('L', ty, val) | ('U', op, e) | ('B', op, a, b) | ('C', ty, e) | ('Q', c, a, b) | ('M', a, b)
   The same tree is printed (a) in the prefix syntax of `modelrun cexpr` (Coq spec + folder model),
   (b) as C text, either from literals only (constant expression) or with every leaf a volatile
   variable (run-time evaluation)."""
import subprocess, os

TYPES = ['bool', 'i8', 'u8', 'i16', 'u16', 'i32', 'u32', 'i64', 'u64']
CNAME = {'bool': '_Bool', 'i8': 'signed char', 'u8': 'unsigned char', 'i16': 'short', 'u16': 'unsigned short',
         'i32': 'int', 'u32': 'unsigned int', 'i64': 'long', 'u64': 'unsigned long'}
WIDTH = {'bool': 1, 'i8': 8, 'u8': 8, 'i16': 16, 'u16': 16, 'i32': 32, 'u32': 32, 'i64': 64, 'u64': 64}
SIGNED = {'i8', 'i16', 'i32', 'i64'}
UNOPS = {'neg': '-', 'not': '~', 'lnot': '!', 'plus': '+'}
BINOPS = {'add': '+', 'sub': '-', 'mul': '*', 'div': '/', 'mod': '%', 'and': '&', 'or': '|', 'xor': '^', 'shl': '<<', 'shr': '>>',
          'eq': '==', 'ne': '!=', 'lt': '<', 'le': '<=', 'gt': '>', 'ge': '>=', 'land': '&&', 'lor': '||'}

def tmin(t): return -(1 << (WIDTH[t] - 1)) if t in SIGNED else 0
def tmax(t): return 1 if t == 'bool' else ((1 << (WIDTH[t] - 1)) - 1 if t in SIGNED else (1 << WIDTH[t]) - 1)

def boundary_values(t):
    lo, hi = tmin(t), tmax(t)
    vs = {lo, hi, 0, 1, lo + 1, hi - 1, hi // 2, hi // 2 + 1, 2, 3, 7, 31, 32, 33, 63, 64, 255, 256, 65535, 65536,
          (1 << 31) - 1, 1 << 31, (1 << 32) - 1, 1 << 32, -1, -2, -128, -129, -32768, -(1 << 31), -(1 << 31) - 1}
    return sorted(v for v in vs if lo <= v <= hi)

def rand_value(rng, t):
    if rng.random() < 0.6: return rng.choice(boundary_values(t))
    return rng.randint(tmin(t), tmax(t))

def gen_leaf(rng, small_bias=False):
    t = rng.choice(TYPES)
    v = rand_value(rng, t)
    if small_bias and rng.random() < 0.5: v = max(tmin(t), min(tmax(t), rng.randint(-3, 70)))
    return ('L', t, v)

def gen_expr(rng, depth):
    if depth <= 0 or rng.random() < 0.15:
        return gen_leaf(rng)
    r = rng.random()
    if r < 0.15:
        return ('U', rng.choice(list(UNOPS)), gen_expr(rng, depth - 1))
    if r < 0.75:
        op = rng.choice(list(BINOPS))
        a = gen_expr(rng, depth - 1)
        b = gen_leaf(rng, small_bias=True) if op in ('shl', 'shr') and rng.random() < 0.8 else gen_expr(rng, depth - 1)
        return ('B', op, a, b)
    if r < 0.88:
        return ('C', rng.choice(TYPES), gen_expr(rng, depth - 1))
    if r < 0.96:
        return ('Q', gen_expr(rng, depth - 1), gen_expr(rng, depth - 1), gen_expr(rng, depth - 1))
    return ('M', gen_expr(rng, depth - 1), gen_expr(rng, depth - 1))

def to_prefix(e):
    k = e[0]
    if k == 'L': return 'L %s %d' % (e[1], e[2])
    if k == 'U': return 'U %s %s' % (e[1], to_prefix(e[2]))
    if k == 'B': return 'B %s %s %s' % (e[1], to_prefix(e[2]), to_prefix(e[3]))
    if k == 'C': return 'C %s %s' % (e[1], to_prefix(e[2]))
    if k == 'Q': return 'Q %s %s %s' % (to_prefix(e[1]), to_prefix(e[2]), to_prefix(e[3]))
    return 'M %s %s' % (to_prefix(e[1]), to_prefix(e[2]))

def lit_c(t, v):
    """a constant expression of exactly type t and value v, spelled from literals and casts whose
    meaning does not depend on the folder under test more than necessary"""
    if t == 'i32':
        return str(v) if v >= 0 else ('(-%d)' % -v if v > -(1 << 31) else '(-2147483647-1)')
    if t == 'u32': return '%du' % v
    if t == 'i64':
        return '%dl' % v if v >= 0 else ('(-%dl)' % -v if v > -(1 << 63) else '(-9223372036854775807l-1)')
    if t == 'u64': return '%dul' % v
    return '((%s)%s)' % (CNAME[t], ('(-%d)' % -v) if v < 0 else str(v))

def to_c(e, leaf):
    """leaf: function (ty, val) -> C text"""
    k = e[0]
    if k == 'L': return leaf(e[1], e[2])
    if k == 'U': return '(%s%s)' % (UNOPS[e[1]], to_c(e[2], leaf))
    if k == 'B': return '(%s %s %s)' % (to_c(e[2], leaf), BINOPS[e[1]], to_c(e[3], leaf))
    if k == 'C': return '((%s)%s)' % (CNAME[e[1]], to_c(e[2], leaf))
    if k == 'Q': return '(%s ? %s : %s)' % (to_c(e[1], leaf), to_c(e[2], leaf), to_c(e[3], leaf))
    return '(%s, %s)' % (to_c(e[1], leaf), to_c(e[2], leaf))

def to_const_c(e): return to_c(e, lit_c)

class VarPool:
    """leaves become volatile globals v<N> of the leaf's type"""
    def __init__(self): self.vars = []
    def leaf(self, t, v):
        self.vars.append((t, v)); return 'v%d' % (len(self.vars) - 1)
    def decls(self):
        return ''.join('volatile %s v%d = %s;\n' % (CNAME[t], i, lit_c(t, v)) for i, (t, v) in enumerate(self.vars))

def spec_query(modelrun, exprs):
    """returns list of (c11_type, c11_value|None, model_type, model_value_string)"""
    p = subprocess.run([modelrun, 'cexpr'], input='\n'.join(to_prefix(e) for e in exprs) + '\n', capture_output=True, text=True, timeout=600)
    out = []
    for l in p.stdout.strip().split('\n'):
        a, b = l.split(' | ')
        t, v = a.split(' '); mt, mv = b.split(' ')
        out.append((t, None if v == 'UB' else int(v), mt, mv))
    return out

def depth_of(e):
    if e[0] == 'L': return 0
    return 1 + max(depth_of(x) for x in e[1:] if isinstance(x, tuple))

def conv(t, v):
    if t == 'bool': return 1 if v != 0 else 0
    w = WIDTH[t]; r = v % (1 << w)
    if t in SIGNED and r >= (1 << (w - 1)): r -= 1 << w
    return r
