#!/usr/bin/env python3
"""C16 - atomic read-modify-write operations are indivisible.
   proof (linearizability of the emitted step structure under every schedule, any number of
   threads; no lost update; CAS failure semantics) + correspondence of the step structure with
   the emitted text (one plain load, lock cmpxchg of the right width with write-back, xchg) +
   stdatomic.h semantics + multi-threaded stress (search, never a proof)."""
import os, sys, time, random, json, re
sys.path.insert(0, os.path.dirname(os.path.abspath(__file__)))
from vlib import *

PID = 'C16'
THEOREMS = ['C16_linearizable', 'C16_no_lost_update', 'C16_cas_failure', 'C16_nonvacuous']
TYPES = [('char', 1), ('unsigned char', 1), ('short', 2), ('unsigned short', 2), ('int', 4), ('unsigned', 4), ('long', 8), ('unsigned long', 8)]
OPS = ['+=', '-=', '*=', '|=', '&=', '^=', '<<=', '>>=', '/=', '%=']
DX = {1: '%dl', 2: '%dx', 4: '%edx', 8: '%rdx'}; AX = {1: '%al', 2: '%ax', 4: '%eax', 8: '%rax'}

def fn_bodies(asm):
    out, cur = {}, None
    for l in asm.split('\n'):
        m = re.match(r'^([A-Za-z_]\w*):$', l)
        if m and not l.startswith('.L'):
            cur = []; out[m.group(1)] = cur; continue
        if cur is not None:
            s = l.strip()
            if s and not s.startswith('.loc') and not s.startswith('.file'): cur.append(re.sub(r'\s+', ' ', s))
    return out

def main():
    run = Run(PID, THEOREMS)
    rng = run.rng
    try:
        src = build_impl()
    except BuildFailed as e:
        run.proof_broken.append('scratch build of /repo failed: ' + str(e)[-800:])
        return run.finish(dict(evaluations=0), [], [])
    wd = scratch_dir()
    run.check_proofs(deps=['theories/Model/Atomic.vo'])
    NCORPUS = run_corpus(run, PID, src)          # minimised past failures first
    CHIBI = [os.path.join(src, 'chibicc'), '-I' + os.path.join(src, 'include')]
    evals = 0; nontriv = set(); samples = []

    # ---- (a) the emitted text has the step structure of the model, for every operator x width x place
    fns, lines = [], ['#include <stdatomic.h>', 'struct S { long pad; _Atomic char c1; _Atomic short c2; _Atomic int c4; _Atomic long c8; }; struct S gs;']
    k = 0
    for ct, sz in TYPES:
        lines.append('_Atomic %s g%d;' % (ct, sz * 10 + (1 if 'unsigned' in ct else 0)))
    for ct, sz in TYPES:
        gname = 'g%d' % (sz * 10 + (1 if 'unsigned' in ct else 0))
        for op in OPS:
            for place in ('global', 'pointer', 'member', 'local'):
                name = 'f%d' % k; k += 1
                if place == 'global': body = '%s %s 3;' % (gname, op); sig = 'void %s(void)' % name
                elif place == 'pointer': body = '*p %s 3;' % op; sig = 'void %s(_Atomic %s *p)' % (name, ct)
                elif place == 'member':
                    if 'unsigned' in ct: continue
                    body = 'q->c%d %s 3;' % (sz, op); sig = 'void %s(struct S *q)' % name
                else: body = '_Atomic %s x = 1; x %s 3; return x;' % (ct, op); sig = 'long %s(void)' % name
                lines.append('%s { %s }' % (sig, body)); fns.append((name, 'rmw', sz, '%s %s on %s' % (ct, op, place)))
        for inc in ('++', '--'):
            name = 'f%d' % k; k += 1
            lines.append('void %s(_Atomic %s *p) { (*p)%s; %s*p; }' % (name, ct, inc, inc)); fns.append((name, 'rmw2', sz, '%s %s' % (ct, inc)))
        name = 'f%d' % k; k += 1
        lines.append('%s %s(_Atomic %s *p, %s v) { return atomic_exchange(p, v); }' % (ct, name, ct, ct)); fns.append((name, 'xchg', sz, '%s exchange' % ct))
        name = 'f%d' % k; k += 1
        lines.append('_Bool %s(_Atomic %s *p, %s *e, %s d) { return atomic_compare_exchange_strong(p, e, d); }' % (name, ct, ct, ct)); fns.append((name, 'cas', sz, '%s compare_exchange' % ct))
        for fo in ('add', 'sub', 'or', 'xor', 'and'):
            name = 'f%d' % k; k += 1
            lines.append('%s %s(_Atomic %s *p, %s v) { return atomic_fetch_%s(p, v); }' % (ct, name, ct, ct, fo)); fns.append((name, 'rmw', sz, '%s atomic_fetch_%s' % (ct, fo)))
    f = os.path.join(wd, 'text.c'); open(f, 'w').write('\n'.join(lines) + '\n')
    rc, asm, err = sh(CHIBI + ['-S', '-o', '-', f], timeout=120)
    if rc != 0:
        run.violation(dict(kind='atomic-operations-rejected', stderr=err[-400:], input_file=write_replay(PID, 'text.c', open(f).read())), dict(area='atomic-compile'))
    else:
        bodies = fn_bodies(asm)
        for name, kind, sz, desc in fns:
            b = bodies.get(name, []); evals += 1
            text = '\n'.join(b)
            problems = []
            ncas = len(re.findall(r'^lock cmpxchg ', text, re.M))
            if kind in ('rmw', 'cas', 'rmw2'):
                want = {'rmw': 1, 'cas': 1, 'rmw2': 2}[kind]
                if ncas != want: problems.append('expected %d lock cmpxchg, found %d' % (want, ncas))
                for m in re.finditer(r'^lock cmpxchg (%\w+), \((%\w+)\)\n(.*)\n(.*)\n(.*)\n(.*)\n(.*)', text, re.M):
                    if m.group(1) != DX[sz]: problems.append('cmpxchg operand %s, width %d needs %s' % (m.group(1), sz, DX[sz]))
                    tail = m.groups()[2:]
                    if tail[0] != 'sete %cl' or tail[1] != 'je 1f' or tail[2] != 'mov %s, (%%r8)' % AX[sz] or tail[3] != '1:' or tail[4] != 'movzbl %cl, %eax':
                        problems.append('sequence after cmpxchg is %s' % list(tail))
                # the address of the expected-value object must be taken, and the expected value loaded, immediately before the
                # instruction (nothing may run in between that could clobber %r8 / %rax): mov %rax,%r8 ; <load> ; pop %rdx ; pop %rdi
                for i_, l_ in enumerate(b):
                    if l_.startswith('lock cmpxchg '):
                        win = b[max(0, i_ - 4):i_]
                        if len(win) < 4 or win[0] != 'mov %rax, %r8' or not re.match(r'(movs[bw]l|movz[bw]l|movsxd|mov) \(%rax\), %[er]ax$', win[1]) or win[2:] != ['pop %rdx', 'pop %rdi']:
                            problems.append('instructions before cmpxchg are %s' % win)
                if kind in ('rmw', 'rmw2'):
                    # the loop: a failed CAS must branch back (do ... while (!cas)), and the new value must not be stored by a plain mov
                    if not re.search(r'^(je|jne|jmp) \.L\.', text, re.M): problems.append('no loop branch around the compare-and-swap')
            if kind == 'xchg':
                if not re.search(r'^xchg %s, \(%%rdi\)$' % re.escape(AX[sz]), text, re.M): problems.append('no xchg %s, (%%rdi)' % AX[sz])
            if problems:
                run.violation(dict(kind='atomic-step-structure', operation=desc, problems=problems, emitted=b[:80],
                                   meaning='the model step relation has one plain load then lock cmpxchg of the object width with write-back of the observed value on failure'),
                              dict(area='atomic-text', op=desc.split(' ')[-1] if kind != 'rmw' else 'rmw'))
            else:
                nontriv.add(desc)
        samples.append({'operation': fns[0][3], 'emitted_tail': bodies.get(fns[0][0], [])[-14:]})

    # ---- (b) single-thread semantics of the stdatomic.h API (returned values)
    api = '''#include <stdatomic.h>
int printf(const char *, ...);
long six(long a, long b, long c, long d, long e, long f) { return a + b + c + d + e + f; }
int main(void) {
  _Atomic int x = 5; int r[12];
  r[0] = atomic_fetch_add(&x, 3); r[1] = x; r[2] = atomic_fetch_sub(&x, 1); r[3] = x; r[4] = atomic_fetch_or(&x, 8); r[5] = x;
  r[6] = atomic_fetch_and(&x, 12); r[7] = x; r[8] = atomic_fetch_xor(&x, 5); r[9] = x; r[10] = atomic_exchange(&x, 42); r[11] = x;
  for (int i = 0; i < 12; i++) printf("%d ", r[i]);
  int e = 41; _Bool ok1 = atomic_compare_exchange_strong(&x, &e, 7); int e1 = e, x1 = x;
  e = 42; _Bool ok2 = atomic_compare_exchange_strong(&x, &e, 7); printf("| %d %d %d | %d %d %d ", ok1, e1, x1, ok2, e, x);
  _Atomic unsigned char c = 250; int a = (c += 10), b = c++, d = ++c, g = atomic_fetch_add(&c, 250); printf("| %d %d %d %d %d ", a, b, d, g, c);
  _Atomic long l = 1; long o = atomic_fetch_add_explicit(&l, 1l << 40, memory_order_relaxed); printf("| %ld %ld ", o, l);
  long e2 = 5; _Bool ok3 = atomic_compare_exchange_strong(&l, &e2, six(1, 2, 3, 4, 5, 6)); printf("| %d %ld %ld\\n", ok3, e2, l);
  return 0;
}
'''
    f = os.path.join(wd, 'api.c'); open(f, 'w').write(api)
    st, got = compile_run(CHIBI, f, os.path.join(wd, 'api.exe')); evals += 1
    exp = '5 8 8 7 7 15 15 12 12 9 9 42 | 0 42 42 | 1 42 7 | 4 4 6 6 0 | 1 1099511627777 | 0 1099511627777 1099511627777'
    if st != 'ok' or got.strip() != exp:
        run.violation(dict(kind='stdatomic-api-semantics', what=st, got=got.strip(), expected=exp,
                           meaning='old values returned by atomic_fetch_*, exchange, compare-exchange success/failure write-back, op= / ++ on _Atomic unsigned char',
                           replay_program=api), dict(area='atomic-api'))

    # ---- (b2) the same API on objects that are not integers: float, double, _Bool, pointers (exchange / compare-exchange / op= are generic, 7.17.7)
    api2 = '''#include <stdatomic.h>
int printf(const char *, ...);
_Atomic double d = 1.5; _Atomic float f = 2.5f; _Atomic char c = 7; _Atomic long l = 5; _Atomic _Bool b; int arr[8]; int *_Atomic p = arr;
int main(void) {
  double od = atomic_exchange(&d, 2); float of = atomic_exchange(&f, 3.25);
  double e = 2.0; int ok1 = atomic_compare_exchange_strong(&d, &e, 9);
  double e2 = 1.0; int ok2 = atomic_compare_exchange_strong(&d, &e2, 4.5);
  float ef = 3.25f; int ok3 = atomic_compare_exchange_strong(&f, &ef, 1);
  char oc = atomic_exchange(&c, 300); long ol = atomic_exchange(&l, -1);
  d += 1; f /= 2; c += 200; l <<= 3; b |= 1; p += 3; p++; int *op = atomic_exchange(&p, arr + 1);
  double r = (d -= 0.25); float pf = f++; _Atomic double loc = 0.5; loc *= 8; --loc;
  printf("%g %g %d %d %g %d %g %g %g %d %ld %d %ld %d %ld %ld %g %g %g\\n", od, (double)of, ok1, ok2, e2, ok3, (double)ef, (double)d, (double)f, oc, ol, c, (long)l, (int)b, (long)(op - arr), (long)(p - arr), r, (double)pf, (double)loc);
  return 0;
}
'''
    f = os.path.join(wd, 'api2.c'); open(f, 'w').write(api2)
    st, got = compile_run(CHIBI, f, os.path.join(wd, 'api2.exe'), run_timeout=10); evals += 1
    exp2 = '1.5 2.5 1 0 9 1 3.25 9.75 1.5 7 5 -12 -8 1 4 1 9.75 0.5 3'
    if st != 'ok' or got.strip() != exp2:
        run.violation(dict(kind='stdatomic-api-semantics', what=st, got=got.strip(), expected=exp2,
                           meaning='exchange, compare-exchange and op= / ++ / -- on _Atomic float, double, char, long, _Bool and pointer objects (single thread); a run that does not end is a compare-exchange loop that can never succeed',
                           replay_program=api2), dict(area='atomic-api', types='non-integer'))
    # ---- (b3) every operand is evaluated exactly once - also when its own evaluation updates the object, so that a compare-exchange
    # inside the operation fails once (a deterministic, single-threaded interference) - and the old value has the object's type
    api3 = '''#include <stdatomic.h>
int printf(const char *, ...);
_Atomic long x; _Atomic int xi; _Atomic unsigned char xc; int calls; long *_Atomic ap; long arr[4];
static long op(long v) { calls++; if (calls == 1) { x += 100; xi += 100; xc += 100; } return v; }
static int acalls; static _Atomic long *addr(void) { acalls++; return &x; }
_Atomic signed char c = -1; _Atomic short s = -2; _Atomic unsigned char uc = 200; _Atomic unsigned short us = 65535; _Atomic _Bool bb = 1;
#define T(init, expr) calls = 0; acalls = 0; x = 0; xi = 0; xc = 0; init; o = (expr); printf("%ld %ld %d %d %d %d | ", o, (long)x, (int)xi, (int)xc, calls, acalls);
int main(void) {
  long o; long e;
  T(, atomic_fetch_add(&x, op(5))) T(, atomic_fetch_sub(&x, op(5))) T(, atomic_fetch_or(&x, op(3))) T(, atomic_fetch_xor(&x, op(3))) T(, atomic_fetch_and(&x, op(6)))
  T(, atomic_fetch_add_explicit(&xi, op(5), memory_order_seq_cst)) T(, atomic_fetch_add(&xc, op(250))) T(, atomic_fetch_add(addr(), op(1)))
  T(, x += op(7)) T(, xi -= op(7)) T(, xc *= op(3)) T(, x <<= op(2)) T(, xi |= op(64)) T(, *addr() += op(1))
  T(, atomic_exchange(&x, op(9))) T(, atomic_exchange(addr(), op(9))) T(e = 100, atomic_compare_exchange_strong(&x, &e, op(11))) T(e = 5, atomic_compare_exchange_weak(&x, &e, op(11)))
  T(, x++) T(, --xi) T(, xc--)
  printf("\\n%d %d %d %d %d ", atomic_exchange(&c, 5), atomic_exchange(&s, 7), atomic_exchange(&uc, 1), atomic_exchange(&us, 2), atomic_exchange(&bb, 0));
  printf("%d %d %d %d %d ", atomic_exchange(&c, -3), atomic_exchange(&s, -300), atomic_exchange(&uc, 255), atomic_exchange(&us, 1), atomic_exchange(&bb, 2));
  printf("%d %d %d %d %d ", atomic_fetch_add(&c, 100), atomic_fetch_sub(&s, 100), atomic_fetch_or(&uc, 0), atomic_fetch_xor(&us, 65535), (int)bb);
  printf("%d %d %d %d %d\\n", (int)(c -= 120), (int)(s *= 300), (int)(uc += 3), (int)us--, (int)(bb ^= 1));
  return 0;
}
'''
    f = os.path.join(wd, 'api3.c'); open(f, 'w').write(api3)
    st, got = compile_run(CHIBI, f, os.path.join(wd, 'api3.exe'), run_timeout=10); evals += 1
    rc, o, e = sh(['gcc', '-w', '-O0', '-o', f + '.g.exe', f]);
    rc2, ref, e2 = sh([f + '.g.exe'], timeout=10) if rc == 0 else (1, '', '')
    if rc != 0 or rc2 != 0: run.corr_broken.append('the operand-evaluation program fails under gcc: ' + (e + e2)[-200:])
    elif st != 'ok' or got != ref:
        run.violation(dict(kind='stdatomic-api-semantics', what=st, got=got.strip()[:900], expected=ref.strip()[:900],
                           meaning='per operation: returned value, object values, number of operand evaluations (the operand updates the object on its first evaluation: an operation that re-evaluates it on a failed compare-exchange shows calls = 2); then old values returned for char/short/_Bool objects',
                           replay_program=api3), dict(area='atomic-api', types='operand-evaluation'))

    # an _Atomic object wider than 8 bytes: either supported or refused with a located diagnostic, never an internal error
    for k, decl in enumerate(['_Atomic long double w;', 'struct S { long a, b; }; _Atomic struct S w; struct S v;']):
        use = 'w += 1;' if k == 0 else '__builtin_atomic_exchange(&w, v);'
        f = os.path.join(wd, 'wide%d.c' % k); open(f, 'w').write('%s\nint main(void) { %s return 0; }\n' % (decl, use))
        rc, o, e = sh(CHIBI + ['-c', '-o', f + '.o', f], timeout=60); evals += 1
        first = e.strip().split('\n')[0] if e.strip() else ''
        if not (rc == 0 or (rc == 1 and re.match(r'.*wide%d\.c:\d+: ' % k, first))):
            run.violation(dict(kind='atomic-wide-object', exit=rc, stderr=e[-300:], program=open(f).read(), meaning='an _Atomic object of 16 bytes must be handled or refused with file:line, not with an internal error'), dict(area='atomic-api', types='wide'))

    # ---- (c) multi-threaded stress (a search for lost updates; asserts only on final values and returned-value sets)
    N, K = (4, 20000) if run.quick() else (16, 100000)
    stress = '''#include <stdatomic.h>
#include <pthread.h>
int printf(const char *, ...); void *calloc(unsigned long, unsigned long);
#define N %d
#define K %d
struct S { long pad; _Atomic long cnt; _Atomic unsigned char b; } gs;
_Atomic long g_add, g_fetch, g_cas, g_mix; _Atomic unsigned short g16; _Atomic unsigned g_xor; _Atomic long *heap;
_Atomic long t_post, t_pre, t_opa; _Atomic int t_dec; unsigned char *seen, *seen1, *seen2, *seen3, *seen4;
/* ticket dispensers: the VALUE of x++ / ++x / (x += 1) / x-- on an _Atomic object is the value of ONE atomic step: no two threads may get the same */
static int ticket(unsigned char *tab, long v, const char *what) { if (v < 0 || v >= (long)N * K || tab[v]++) { printf("%%s returned %%ld twice or out of range\\n", what, v); return 1; } return 0; }
void *worker(void *arg) {
  long id = (long)arg; _Atomic long local = 0;
  for (long i = 0; i < K; i++) {
    g_add += 3; gs.cnt++; gs.b += 1; g16 += 1; *heap += 2; local += 1;
    long old = atomic_fetch_add(&g_fetch, 1);
    if (old < 0 || old >= (long)N * K || seen[old]++) { printf("fetch_add returned %%ld twice or out of range\\n", old); return (void *)1; }
    if (ticket(seen1, t_post++, "x++") || ticket(seen2, ++t_pre - 1, "++x") || ticket(seen3, (t_opa += 1) - 1, "x += 1") || ticket(seen4, (long)N * K - 1 + t_dec--, "x--")) return (void *)1;
    long e = g_cas; while (!atomic_compare_exchange_weak(&g_cas, &e, e + 5)) ;
    atomic_fetch_xor(&g_xor, (unsigned)(1u << (id %% 32)));
    g_mix -= 1; g_mix += 2;
  }
  return (void *)(long)(local != K);
}
int main(void) {
  pthread_t t[N]; seen = calloc((long)N * K, 1); seen1 = calloc((long)N * K, 1); seen2 = calloc((long)N * K, 1); seen3 = calloc((long)N * K, 1); seen4 = calloc((long)N * K, 1); heap = calloc(1, sizeof(long));
  for (long i = 0; i < N; i++) pthread_create(&t[i], 0, worker, (void *)i);
  long bad = 0; for (int i = 0; i < N; i++) { void *r; pthread_join(t[i], &r); bad += (long)r; }
  long total = (long)N * K;
  printf("%%ld %%ld %%ld %%ld %%ld %%ld %%ld %%ld %%ld %%u\\n", bad, g_add - 3 * total, gs.cnt - total, (long)gs.b - (total & 255), (long)g16 - (total & 65535),
         *heap - 2 * total, g_fetch - total, g_cas - 5 * total, g_mix - total, (K %% 2 == 0) ? g_xor : 0u);
  return 0;
}
''' % (N, K)
    f = os.path.join(wd, 'stress.c'); open(f, 'w').write(stress)
    rc, o, e = sh(CHIBI + ['-c', '-o', os.path.join(wd, 'stress.o'), f], timeout=120)
    if rc == 0: rc, o, e = sh(['gcc', '-pthread', '-o', os.path.join(wd, 'stress.exe'), os.path.join(wd, 'stress.o')], timeout=60)
    if rc != 0:
        run.violation(dict(kind='stress-program-rejected', stderr=(o + e)[-300:], replay_program=stress), dict(area='atomic-stress-compile'))
    else:
        for rep in range(3 if run.quick() else 10):
            rc, o, e = sh([os.path.join(wd, 'stress.exe')], timeout=300); evals += 1
            if rc != 0 or o.strip().split('\n')[-1] != '0 0 0 0 0 0 0 0 0 0':
                run.violation(dict(kind='lost-update-under-contention', threads=N, iterations=K, output=o.strip()[-300:], exit=rc,
                                   meaning='bad-workers, then (final - expected) for +=, member ++, 8-bit +=, 16-bit +=, heap +=, fetch_add, CAS loop, -=/+= mix, xor mask',
                                   replay_program=stress), dict(area='atomic-stress'))
                break

    cov = dict(evaluations=evals, distinct_nontrivial=len(nontriv),
               rule='every op= operator x 8 integer types x {global, pointer, struct member, local} + ++/-- + exchange + compare-exchange + atomic_fetch_* : the emitted text must have the step structure of the proved model (lock cmpxchg of the object width, sete/je/write-back, loop, xchg); stdatomic.h returned values; %d-thread stress with %d iterations (search only)' % (N, K),
               samples=samples, traces_validated_against_impl=len(nontriv), threads=N, iterations=K)
    return run.finish(cov,
        ['lock-prefixed instructions and xchg on memory are single indivisible, sequentially consistent steps (Intel SDM); plain loads of an aligned object of at most 8 bytes are single steps',
         'the stress run is a search for a failing schedule, not part of the proof'],
        ['Coq 8.16.1 kernel, no axioms', 'hand-written Model/Atomic.v (step structure) tied to the emitted text by pattern checks on every operator/width/place',
         'objects larger than 8 bytes are not covered (chibicc rejects them with an internal error: C13)'])

if __name__ == '__main__':
    sys.exit(main())
