#!/usr/bin/env python3
"""C01 - integer expressions have the C11 value and the C11 type.
   proofs (typing = C11; regenerated cast table and operator instruction selection compute the
   C11 result on x86-lite for all values) + translator (cast table) + correspondence:
   (a) the -S text of one-operator functions equals the instructions of the proved model,
   (b) generated expressions in every context evaluated at run time against the Coq spec."""
import os, sys, time, random, json, re
sys.path.insert(0, os.path.dirname(os.path.abspath(__file__)))
from vlib import *
from exprgen import *
import gen_casttable

PID = 'C01'
THEOREMS = ['C01_expr_correct', 'C01_expr_code_correct', 'C01_expr_nonvacuous', 'C01_common_type', 'C01_typing', 'C01_cast_table', 'C01_arith', 'C01_compare', 'C01_shift',
            'C01_neg', 'C01_bitnot', 'C01_lognot', 'C01_nonvacuous',
            # package exprmem (Properties_C01_exprmem.v): expressions over local objects: loads, stores, assignment, op=, ++/--, byte memory, frame layout
            'C01_load_store_same', 'C04_store_disjoint', 'C04_store_outside', 'C01_load_by_type', 'C01_store_by_type', 'C01_mem_typing', 'C01_incdec_rewrite', 'C01_exprmem_correct', 'C01_order_irrelevant', 'C01_bin_either_order', 'C01_writes_sound', 'C01_footprint_sound', 'C01_spec_conservative', 'C01_mem_jump_code_simulates', 'C01_exprmem_code_correct', 'C01_layout_wf', 'C01_layout_fits', 'C01_exprmem_correct_laidout', 'C01_wf_frame_check', 'C01_temps_fit_check', 'C01_exprmem_nonvacuous', 'C01_order_nonvacuous', 'C01_bool_postfix_right']
MODELRUN = os.path.join(VERIF, 'ocaml/modelrun')
PRINTF = 'int printf(const char *, ...);\n'
LOAD = {'bool': 'movsbl (%rax), %eax', 'i8': 'movsbl (%rax), %eax', 'u8': 'movzbl (%rax), %eax', 'i16': 'movswl (%rax), %eax',
        'u16': 'movzwl (%rax), %eax', 'i32': 'movsxd (%rax), %rax', 'u32': 'movsxd (%rax), %rax', 'i64': 'mov (%rax), %rax', 'u64': 'mov (%rax), %rax'}
ARITH = ['add', 'sub', 'mul', 'div', 'mod', 'and', 'or', 'xor']
CMP = ['eq', 'ne', 'lt', 'le', 'gt', 'ge']

def model_codegen(queries):
    rc, out, err = sh([MODELRUN, 'codegen'], input='\n'.join(queries) + '\n')
    res = []
    for l in out.strip().split('\n'):
        res.append(None if l == 'TEXT' else [x for x in l[2:].split('; ') if x])
    return res

def asm_functions(text):
    """function name -> list of body instructions (after the parameter stores, up to the jump to the return label)"""
    fns, cur, name = {}, None, None
    for l in text.split('\n'):
        m = re.match(r'^(\w+):$', l)
        if m and not l.startswith('.L'):
            name = m.group(1); cur = []; fns[name] = cur; continue
        if cur is None: continue
        s = l.strip()
        if not s or s.startswith('.loc') or s.startswith('.file'): continue
        if s.startswith('.'):            # directive or local label: end of the function body
            if s.startswith('.L.return'): cur = None
            continue
        cur.append(re.sub(r'\s+', ' ', s))
    out = {}
    for n, ls in fns.items():
        # parameter homes: stores from the argument registers, in order
        homes = []
        body = None
        for i, l in enumerate(ls):
            m = re.match(r'mov %(rdi|edi|di|dil|rsi|esi|si|sil), (-\d+)\(%rbp\)$', l)
            if m and body is None: homes.append(m.group(2)); continue
            if l.startswith('lea ') and body is None: body = i
        if body is None: out[n] = None; continue
        seq = []
        for l in ls[body:]:
            m = re.match(r'lea (-\d+)\(%rbp\), %rax$', l)
            if m and m.group(1) in homes: seq.append('lea %s' % 'ab'[homes.index(m.group(1))] if homes.index(m.group(1)) < 2 else l); continue
            if l.startswith('jmp .L.return'): break
            seq.append(l)
        out[n] = seq
    return out

def text_correspondence(run, src, wd):
    """compile one-operator functions with -S and compare the instruction text with the model"""
    fns = []      # (name, source, description, expected-builder)
    q = []        # model queries, resolved later
    def Q(x): q.append(x); return len(q) - 1
    k = 0
    for op in ARITH + CMP + ['shl', 'shr']:
        for ta in TYPES:
            for tb in TYPES:
                name = 'f%d' % k; k += 1
                if op in ('shl', 'shr'):
                    iT = Q('promote %s' % ta); plan = ('shift', op, ta, tb, iT)
                else:
                    iT = Q('uac %s %s' % (ta, tb)); plan = ('bin', op, ta, tb, iT)
                fns.append((name, plan))
    for o in UNOPS:
        for ta in TYPES:
            name = 'f%d' % k; k += 1
            fns.append((name, ('un', o, ta, Q('promote %s' % ta))))
    for ta in TYPES:
        for tb in TYPES:
            name = 'f%d' % k; k += 1
            fns.append((name, ('cast', ta, tb)))
    types = model_codegen(q)   # for uac/promote queries the "instruction list" is the one-element type name
    rc, out, err = sh([MODELRUN, 'codegen'], input='\n'.join(q) + '\n')
    tnames = out.strip().split('\n')
    # second round: instruction queries
    q2 = []
    def Q2(x): q2.append(x); return len(q2) - 1
    plans = []
    src_lines = []
    for name, plan in fns:
        if plan[0] == 'bin':
            _, op, ta, tb, iT = plan; T = tnames[iT]
            rt = T if op in ARITH else 'i32'
            first, second = (('a', ta), ('b', tb)) if op in ('gt', 'ge') else (('b', tb), ('a', ta))
            mop = {'gt': 'lt', 'ge': 'le'}.get(op, op)
            plans.append((name, [('lea', first[0]), ('load', first[1]), ('q', Q2('cast %s %s' % (first[1], T))), ('lit', 'push %rax'),
                                 ('lea', second[0]), ('load', second[1]), ('q', Q2('cast %s %s' % (second[1], T))), ('lit', 'pop %rdi'),
                                 ('q', Q2('binop %s %s' % (mop, T)))], '%s %s %s' % (ta, op, tb)))
            src_lines.append('%s %s(%s a, %s b) { return a %s b; }' % (CNAME[rt], name, CNAME[ta], CNAME[tb], BINOPS[op]))
        elif plan[0] == 'shift':
            _, op, ta, tb, iT = plan; T = tnames[iT]
            plans.append((name, [('lea', 'b'), ('load', tb), ('lit', 'push %rax'), ('lea', 'a'), ('load', ta), ('q', Q2('cast %s %s' % (ta, T))),
                                 ('lit', 'pop %rdi'), ('q', Q2('binop %s %s' % (op, T)))], '%s %s %s' % (ta, op, tb)))
            src_lines.append('%s %s(%s a, %s b) { return a %s b; }' % (CNAME[T], name, CNAME[ta], CNAME[tb], BINOPS[op]))
        elif plan[0] == 'un':
            _, o, ta, iT = plan; T = tnames[iT]
            if o == 'lnot':
                plans.append((name, [('lea', 'a'), ('load', ta), ('q', Q2('unop lnot %s' % ta))], '%s %s' % (o, ta))); rt = 'i32'
            elif o == 'plus':
                plans.append((name, [('lea', 'a'), ('load', ta), ('q', Q2('cast %s %s' % (ta, T)))] if WIDTH[ta] < 32 else [('lea', 'a'), ('load', ta)], '%s %s' % (o, ta))); rt = T
            else:
                plans.append((name, [('lea', 'a'), ('load', ta), ('q', Q2('cast %s %s' % (ta, T))), ('q', Q2('unop %s %s' % (o, T)))], '%s %s' % (o, ta))); rt = T
            src_lines.append('%s %s(%s a) { return %sa; }' % (CNAME[rt], name, CNAME[ta], UNOPS[o]))
        else:
            _, ta, tb = plan
            plans.append((name, [('lea', 'a'), ('load', ta), ('q', Q2('cast %s %s' % (ta, tb)))] +
                          ([('q', Q2('cast bool bool'))] if tb == 'bool' else []),      # the return statement converts to _Bool once more
                          'cast %s -> %s' % (ta, tb)))
            src_lines.append('%s %s(%s a) { return (%s)a; }' % (CNAME[tb], name, CNAME[ta], CNAME[tb]))
    insns = model_codegen(q2)
    f = os.path.join(wd, 'ops.c'); open(f, 'w').write('\n'.join(src_lines) + '\n')
    rc, asm, err = sh([os.path.join(src, 'chibicc'), '-S', '-o', '-', f], timeout=120)
    if rc != 0:
        run.violation(dict(kind='one-operator-functions-rejected', stderr=err[-300:], input_file=write_replay(PID, 'ops.c', open(f).read())), dict(area='ops-compile'))
        return 0, []
    got = asm_functions(asm)
    mismatches = []
    for (name, plan, desc), srcl in zip(plans, src_lines):
        exp = []
        for kind, x in plan:
            if kind == 'lea': exp.append('lea ' + x)
            elif kind == 'load': exp.append(LOAD[x])
            elif kind == 'lit': exp.append(x)
            else:
                if insns[x] is None: exp = None; break
                exp += insns[x]
        if exp is None: continue
        g = got.get(name)
        if g != exp:
            mismatches.append(dict(function=srcl, operator=desc, emitted=g, model=exp))
    return len(plans), mismatches

# ---------------- run-time contexts ----------------
def runtime_cases(rng, n_expr, depth_choices):
    cases = []   # (kind, tree for the spec, builder info)
    for i in range(n_expr):
        e = gen_expr(rng, rng.choice(depth_choices))
        tc = rng.choice(TYPES)
        cases.append(('ctx', ('C', tc, e), e, tc))
    # compound assignment: every operator x every type pair
    for op in ['add', 'sub', 'mul', 'div', 'mod', 'and', 'or', 'xor', 'shl', 'shr']:
        for tx in TYPES:
            for ty in TYPES:
                vx, vy = rand_value(rng, tx), (rng.choice([0, 1, 3, 7, 15]) if op in ('shl', 'shr') and ty != 'bool' else rand_value(rng, ty))
                cases.append(('opassign', ('C', tx, ('B', op, ('L', tx, vx), ('L', ty, vy))), (op, tx, vx, ty, vy), tx))
    for tx in TYPES:
        for v in boundary_values(tx)[:6] + [rand_value(rng, tx)]:
            for kind, op in (('preinc', 'add'), ('predec', 'sub'), ('postinc', 'add'), ('postdec', 'sub')):
                cases.append((kind, ('C', tx, ('B', op, ('L', tx, v), ('L', 'i32', 1))), (tx, v), tx))
    return cases

def grid_cases():
    """the search run when a correspondence broke (and always in the thorough tier): every binary operator x every operand type pair
    x a grid of boundary values per type (0, 1, extremes, and for 64-bit types the values whose low 32 bits are all zero)"""
    def vals(t):
        lo, hi = tmin(t), tmax(t)
        vs = [0, 1, hi, lo, hi - 1]
        if WIDTH[t] == 64: vs += [1 << 32, (1 << 32) * 3, (1 << 62), hi - (1 << 32) + 1] + ([-(1 << 32), lo + (1 << 32)] if t in SIGNED else [1 << 63, (1 << 64) - (1 << 32)])
        if WIDTH[t] == 32: vs += [1 << 16, 65535] + ([-1, -65536] if t in SIGNED else [1 << 31])
        if t in SIGNED and WIDTH[t] < 32: vs += [-1]
        return sorted(set(v for v in vs if lo <= v <= hi))
    cases = []
    for op in BINOPS:
        for tx in TYPES:
            for ty in TYPES:
                for vx in vals(tx):
                    for vy in (vals(ty) if op not in ('shl', 'shr') else [v for v in (0, 1, 31, 32, 63) if v <= tmax(ty)]):
                        e = ('B', op, ('L', tx, vx), ('L', ty, vy))
                        cases.append(('grid', e, e, 'u64'))
    for op in UNOPS:
        for tx in TYPES:
            for vx in vals(tx):
                e = ('U', op, ('L', tx, vx)); cases.append(('grid', e, e, 'u64'))
    return cases

def build_runtime_program(cases, specs):
    pool = VarPool()
    fdefs, body, expect, meta = [], [], [], []
    for t in TYPES:
        fdefs.append('%s id_%s(%s p) { return p; }' % (CNAME[t], t, CNAME[t]))
    k = 0
    for (kind, tree, info, tc), sp in zip(cases, specs):
        if sp[1] is None: continue
        V = sp[1]; u = conv('u64', V)
        if kind == 'ctx':
            e = info
            ev = to_c(e, pool.leaf)
            inner = spec_inner = None
            fdefs.append('%s ret_%d(void) { return %s; }' % (CNAME[tc], k, ev))
            body.append('  { %s x = %s; %s y; unsigned long z = (unsigned long)(y = %s); int c = 0; if (%s) c = 1; int w = 0; while (%s) { w = 1; break; }'
                        ' printf("%%lu %%lu %%lu %%lu %%lu %%d %%d %%d %%d %%d\\n", (unsigned long)x, (unsigned long)id_%s(%s), (unsigned long)ret_%d(), z, (unsigned long)y, c, w, !(%s), (%s) ? 1 : 2, (%s) && 1); }'
                        % (CNAME[tc], ev, CNAME[tc], ev, ev, ev, tc, ev, k, ev, ev, ev))
            # truth value of the unconverted expression: the spec value of e itself is needed; encoded by a second query (see caller)
            expect.append(('ctx', u)); meta.append((kind, to_c(e, lit_c), tc, V))
        elif kind == 'grid':
            ev = to_c(info, pool.leaf)
            body.append('  { unsigned long r = (unsigned long)(%s); int c = 0; if (%s) c = 1; printf("%%lu %%d\\n", r, c); }' % (ev, ev))
            expect.append(('pair', u, 1 if V != 0 else 0)); meta.append((kind, to_c(info, lit_c), tc, V))
        elif kind == 'opassign':
            op, tx, vx, ty, vy = info
            body.append('  { %s x = %s; %s y = %s; unsigned long r = (unsigned long)(x %s= y); printf("%%lu %%lu\\n", r, (unsigned long)x); }'
                        % (CNAME[tx], pool.leaf(tx, vx), CNAME[ty], pool.leaf(ty, vy), BINOPS[op]))
            expect.append(('pair', u, u)); meta.append((kind, '%s x = %d; %s y = %d; x %s= y' % (CNAME[tx], vx, CNAME[ty], vy, BINOPS[op]), tx, V))
        else:
            tx, v = info
            opx = {'preinc': '++x', 'predec': '--x', 'postinc': 'x++', 'postdec': 'x--'}[kind]
            body.append('  { %s x = %s; unsigned long r = (unsigned long)(%s); printf("%%lu %%lu\\n", r, (unsigned long)x); }' % (CNAME[tx], pool.leaf(tx, v), opx))
            old = conv('u64', v)
            expect.append(('pair', u if kind.startswith('pre') else old, u)); meta.append((kind, '%s x = %d; %s' % (CNAME[tx], v, opx), tx, V))
        k += 1
    text = PRINTF + pool.decls() + '\n'.join(fdefs) + '\nint main(void) {\n' + '\n'.join(body) + '\n  return 0;\n}\n'
    return text, expect, meta

def main():
    run = Run(PID, THEOREMS)
    rng = run.rng
    try:
        src = build_impl()
    except BuildFailed as e:
        run.proof_broken.append('scratch build of /repo failed: ' + str(e)[-800:])
        return run.finish(dict(evaluations=0), [], [])
    wd = scratch_dir()
    try:
        gen_casttable.gen(REPO, os.path.join(COQ, 'theories/Gen/CastTable.v'))
    except GenError as e:
        run.proof_broken.append('translator: ' + str(e))
    run.check_proofs(deps=['theories/Model/CodegenInt.vo', 'theories/Gen/CastTable.vo', 'theories/Model/ConstFold.vo', 'theories/Model/ExprGen.vo', 'theories/Proofs/ExprGenProofs.vo', 'theories/Model/ExprFlat.vo', 'theories/Proofs/ExprFlatProofs.vo'], extra=['exprmem'])
    NCORPUS = run_corpus(run, PID, src)          # minimised past failures first
    rc, o, e = sh([os.path.join(VERIF, 'ocaml/build.sh')], timeout=900)
    if rc != 0:
        run.corr_broken.append('extracted model does not build: ' + (o + e)[-300:])
        return run.finish(dict(evaluations=0), [], [])
    CHIBI = [os.path.join(src, 'chibicc')]
    evals = 0; nontriv = set(); samples = []

    # (a) instruction text of one-operator functions = proved model
    ntext, mism = text_correspondence(run, src, wd)
    evals += ntext
    for m in mism[:5]:
        run.corr_broken.append('emitted instructions differ from the proved model for `%s` (%s): emitted %s, model %s' % (m['function'], m['operator'], m['emitted'], m['model']))
    if mism: write_replay(PID, 'text_mismatches.json', mism[:50])

    # (a2) instruction text of whole expression trees = extracted compile (Model/ExprGen.v, proved to compute the C11 value)
    def big_leaf_tree(depth):
        r = rng.random()
        if depth <= 0 or r < 0.12:
            t = rng.choice(['i32', 'u32', 'i64', 'u64', 'i32', 'i32'])
            v = rng.choice([0, 1, 2, 3, 7, 31, 32, 63, 64, 255, 256, 65535, tmax(t), tmax(t) - 1, rng.randint(0, tmax(t))])
            return ('L', t, min(v, tmax(t)))
        if r < 0.24: return ('U', rng.choice(list(UNOPS)), big_leaf_tree(depth - 1))
        if r < 0.72: return ('B', rng.choice(list(BINOPS)), big_leaf_tree(depth - 1), big_leaf_tree(depth - 1))
        if r < 0.86: return ('C', rng.choice(TYPES), big_leaf_tree(depth - 1))
        if r < 0.95: return ('Q', big_leaf_tree(depth - 1), big_leaf_tree(depth - 1), big_leaf_tree(depth - 1))
        return ('M', big_leaf_tree(depth - 1), big_leaf_tree(depth - 1))
    NT = 300 if run.quick() else 3000
    trees = [big_leaf_tree(rng.choice([1, 2, 3, 4, 5, 6])) for _ in range(NT)]
    rets = [rng.choice(['i64', 'i64', 'i32', 'u8', 'bool', 'u64', 'i16']) for _ in trees]
    ft = os.path.join(wd, 'trees.c')
    open(ft, 'w').write(''.join('%s t%d(void) { return %s; }\n' % (CNAME[rt], i, to_const_c(e)) for i, (e, rt) in enumerate(zip(trees, rets))))
    rc, asm, err = sh(CHIBI + ['-S', '-o', '-', ft], timeout=300)
    rc2, mo, me = sh([MODELRUN, 'compile'], input='\n'.join('C %s %s' % (rt, to_prefix(e)) for e, rt in zip(trees, rets)) + '\n', timeout=300)
    if rc != 0: run.violation(dict(kind='valid-program-rejected', stderr=err[-400:], note='functions returning generated integer expressions'), dict(area='text-tree'))
    elif rc2 != 0: run.corr_broken.append('extracted compile failed: ' + me[-200:])
    else:
        def norm(lines):
            """instructions with jump targets as positions: labels (chibicc) are resolved to the index of the next instruction"""
            out = []; labels = {}
            for l in lines:
                l = re.sub(r'\s+', ' ', l.strip())
                m = re.match(r'(\.L\.\w+\.\d+):$', l)
                if m: labels[m.group(1)] = len(out); continue
                m = re.match(r'mov \$(-?\d+), %rax$', l)
                if m: l = 'mov $%d, %%rax' % (int(m.group(1)) % (1 << 64))
                out.append(l)
            return [re.sub(r'(\.L\.\w+\.\d+)$', lambda m: '@%s' % labels.get(m.group(1), m.group(1)), l) for l in out]
        bodies = {}; cur = None; started = False
        for l in asm.split('\n'):
            t = l.strip()
            m = re.match(r'^(t\d+):$', t)
            if m: cur = m.group(1); bodies[cur] = []; started = False; continue
            if cur is None or not t or t.startswith('.loc') or t.startswith('.file'): continue
            if t == 'mov %rsp, -8(%rbp)' and not started: started = True; continue
            if not started: continue
            if t.startswith('jmp .L.return.') and t == 'jmp .L.return.%s' % cur: cur = None; continue
            bodies[cur].append(t)
        mlines = mo.split('\n')
        nbad = 0
        for i, (e, rt) in enumerate(zip(trees, rets)):
            evals += 1
            got = norm(bodies.get('t%d' % i, ['<missing>'])); want = norm([x for x in mlines[i].split('; ') if x])
            if got != want:
                nbad += 1
                d = next((j for j in range(min(len(got), len(want))) if got[j] != want[j]), min(len(got), len(want)))
                if nbad <= 5:
                    run.corr_broken.append('instructions emitted for `%s t(void) { return %s; }` differ from the proved composition at instruction %d: emitted %s, model %s' % (CNAME[rt], to_const_c(e)[:160], d, got[max(0, d - 1):d + 3], want[max(0, d - 1):d + 3]))
                    write_replay(PID, 'tree_%d.c' % i, '%s t(void) { return %s; }\n' % (CNAME[rt], to_const_c(e)))
            else: nontriv.add(('tree', i))
        samples.append({'expression-tree': to_const_c(trees[0])[:200], 'emitted': norm(bodies.get('t0', []))[:12]})

    # (b) run-time evaluation in every context against the Coq spec
    cases = runtime_cases(rng, 600 if run.quick() else 5000, [1, 1, 2, 2, 3] if run.quick() else [1, 2, 3, 4, 5])
    cases += grid_cases()          # also the search for a concrete failing input when a correspondence above broke
    specs = spec_query(MODELRUN, [c[1] for c in cases])
    inner = spec_query(MODELRUN, [c[2] if c[0] == 'ctx' else c[1] for c in cases])
    CH = 350
    idx = [i for i, sp in enumerate(specs) if sp[1] is not None]
    def one_chunk(ci):
        sel = idx[ci:ci + CH]
        text, expect, meta = build_runtime_program([cases[i] for i in sel], [specs[i] for i in sel])
        f = os.path.join(wd, 'rt%d.c' % ci); open(f, 'w').write(text)
        st, got = compile_run(CHIBI, f, os.path.join(wd, 'rt%d.exe' % ci))
        return sel, text, expect, meta, st, got
    dist = {}
    for sel, text, expect, meta, st, got in pmap(one_chunk, list(range(0, len(idx), CH)), workers=8):
        evals += len(sel)
        if st != 'ok':
            run.violation(dict(kind='runtime-program', what=st, input_file=write_replay(PID, 'rt.c', text)), dict(area='runtime-program', what=st.split(':')[0]))
            continue
        lines = got.strip().split('\n')
        for j, (i, ex, me) in enumerate(zip(sel, expect, meta)):
            g = lines[j] if j < len(lines) else 'missing'
            kind, ctext, tc, V = me
            dist[kind] = dist.get(kind, 0) + 1
            if ex[0] == 'ctx':
                u = ex[1]; tv = inner[i][1]; truth = 1 if tv != 0 else 0
                exp = '%d %d %d %d %d %d %d %d %d %d' % (u, u, u, u, u, truth, truth, 1 - truth, 1 if truth else 2, truth)
            else:
                exp = '%d %d' % (ex[1], ex[2])
            if depth_of(cases[i][1]) >= 2: nontriv.add(ctext + tc)
            if g != exp:
                gs, xs = g.split(' '), exp.split(' ')
                names = ['initializer', 'argument', 'return', 'assignment-value', 'assigned-object', 'if', 'while', '!', '?:', '&&'] if ex[0] == 'ctx' else ['expression-value', 'if'] if kind == 'grid' else ['expression-value', 'object-after']
                where = next((names[q] for q in range(min(len(gs), len(xs))) if gs[q] != xs[q]), 'output')
                run.violation(dict(kind='runtime-value', context=kind, expression=ctext, converted_to=tc, differs_in=where, got=g, expected=exp,
                                   c11_value=V, meaning=' '.join(names)),
                              dict(area='runtime', context=kind, type=tc, where=where))
        if len(samples) < 3: samples.append({'expression': meta[0][1], 'context': meta[0][0], 'expected': expect[0][1]})

    # (d) enumerated types are integer types (6.7.2.2p4; chibicc chooses a 4-byte SIGNED type): conversions from and to an enum-typed
    # expression; postfix ++ / -- on bit-fields and through pointers yield the old value
    fx = PRINTF + '''enum E { A, B = 1 }; volatile enum E e = (enum E)-1, e1 = A, e2 = B; volatile long big = 0x100000001L;
struct S { int a : 3; unsigned b : 2; _Bool c : 1; } s = { 3, 3, 1 }; long arr[3] = { 10, 20, 30 }; long *p = arr; unsigned char uc = 255; _Bool bo = 1;
int main(void) {
  double d = e; float f = e; long c = (long)(enum E)big; long r = (e1 - e2) + 1L; unsigned long u = (unsigned long)e; long w = (long)(e + 0u); long sh = e >> 1;
  printf("%g %g %ld %ld %lu %ld %ld %d %d\\n", d, (double)f, c, r, u, w, sh, (int)(e < 0), (int)sizeof(e));
  int r1 = s.a++, a1 = s.a, r2 = s.b++, b2 = s.b, r3 = s.a--, a3 = s.a, r4 = s.c++, c4 = s.c, r5 = s.c--, c5 = s.c;
  long r6 = *p++, r7 = *p--, r8 = (*p)++, r9 = arr[0]; int r10 = uc++, r11 = uc, r12 = bo++, r13 = bo, r14 = bo--, r15 = bo--, r16 = bo;
  printf("%d %d %d %d %d %d %d %d %d %d | %ld %ld %ld %ld | %d %d %d %d %d %d %d\\n", r1, a1, r2, b2, r3, a3, r4, c4, r5, c5, r6, r7, r8, r9, r10, r11, r12, r13, r14, r15, r16);
  return 0; }
'''
    ffx = os.path.join(wd, 'enum_postfix.c'); open(ffx, 'w').write(fx)
    st, got = compile_run(CHIBI, ffx, ffx + '.exe'); evals += 1
    expfx = '-1 -1 1 0 18446744073709551615 4294967295 -1 1 4\n3 -4 3 0 -4 3 1 1 1 0 | 10 20 10 11 | 255 0 1 1 1 0 1\n'
    if st != 'ok' or got != expfx:
        run.violation(dict(kind='runtime-value', context='enum-conversions-and-postfix', got=got if st == 'ok' else st, expected=expfx, replay_program=fx,
                           meaning='line 1: conversions of an enum object holding -1 (enum types are 4-byte signed in chibicc) to double, float, long, unsigned long, through unsigned int, >> 1, < 0, sizeof; line 2: values of postfix ++/-- on bit-fields (int:3, unsigned:2, _Bool:1), through pointers, on unsigned char and _Bool, and the objects afterwards'),
                      dict(area='runtime', context='enum-postfix-program', type='mixed', where='fixed-program'))

    # ---------------- tie of package exprmem: expressions over local variables with side effects ----------------
    tie_dist = {}; tie_e = tie_n = 0
    if not os.environ.get('VERIF_SKIP_PROOFS'):
        tie_e, tie_n, tie_dist, tie_samples = run_tie(run, 'exprmem', src, 250 if run.quick() else 2500, 'runtime')
    cov = dict(evaluations=evals, distinct_nontrivial=len(nontriv) + ntext,
               rule='(c) boundary grid: every binary operator x 81 operand type pairs x 4-11 boundary values per operand (0, 1, extremes, multiples of 2^32), every unary operator x 9 types, value and truth value at run time against the Coq spec; (a) every one-operator function: 16 binary operators x 81 operand type pairs, 4 unary x 9, 81 casts: -S instruction text = proved model; (b) random expression trees (depth 1-%d) over 9 types on volatile operands, each in initializer / argument / return / assignment / if / while / ! / ?: / && contexts, every compound assignment operator x 81 type pairs, ++/-- pre/post x 9 types x boundary values, against the Coq spec (undefined cases filtered by the spec); non-trivial = depth >= 2 or a one-operator text comparison' % (3 if run.quick() else 5),
               samples=samples, input_distribution=dist, traces_validated_against_impl=ntext, text_mismatches=len(mism))
    cov['rule'] = cov.get('rule', '') + ' (e) package exprmem: random expression trees (depth 1-5) over 3-6 local variables of random integer types with assignment, op=, ++/-- (race-free per the Coq spec): value and final values of all variables of the compiled program = Coq spec; -S text of whole functions = Coq model text (labels by first appearance and as positions; frame offsets from the Coq layout)'; cov['tie_exprmem'] = tie_dist; cov['evaluations'] = cov.get('evaluations', 0) + tie_e; cov['distinct_nontrivial'] = cov.get('distinct_nontrivial', 0) + tie_n
    return run.finish(cov,
        ['x86-lite (Model/X86Int.v) is my reading of the Intel SDM for the ~30 integer instructions chibicc emits; it is validated against the CPU only through the run-time programs',
         'signed narrowing wraps and >> of negatives is arithmetic (implementation-defined choices of gcc/chibicc)'],
        ['Coq 8.16.1 kernel, no axioms (Print Assumptions: closed under the global context)',
         'tools/gen_casttable.py (translator for cast_table and its instruction strings)',
         'hand-written Model/CodegenInt.v (operator instruction selection) tied by -S text equality on all one-operator functions',
         'the composition of operators into deeper trees (push/pop discipline, control flow of && || ?:) and the parser are tied by run-time programs only',
         'extraction: ExtrOcamlBasic + ExtrOcamlString (stdlib directives); ocaml/modelrun.ml'])

if __name__ == '__main__':
    sys.exit(main())
