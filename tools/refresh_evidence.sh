#!/bin/bash
# run every claimed check (quick) on the current /repo tree so that the committed evidence files are those of a clean run
cd /verif
[ -n "$(git -C /repo status --porcelain)" ] && { echo "/repo has uncommitted changes"; exit 2; }
rc=0
for id in $(python3 -c "import json; print(' '.join(c['property_id'] for c in json.load(open('MANIFEST.json'))['checks']))"); do
  out=$(./check $id ${1:-quick} 2>&1); r=$?
  echo "$out" | grep -v "^KNOWN-FINDING" | tail -2
  [ $r = 0 ] || rc=1
done
exit $rc
