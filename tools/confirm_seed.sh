#!/bin/bash
# confirm_seed.sh <dir with patch.diff demo.sh meta.json>: confirm in a scratch worktree of /repo HEAD that
#  (1) demo passes unchanged, (2) patch applies and builds, (3) make test passes with it, (4) demo fails with it.
d=$(realpath $1); wt=/tmp/confirm-wt-$$
git -C /repo worktree add -q --detach $wt HEAD || exit 9
trap "git -C /repo worktree remove --force $wt" EXIT
cd $wt && make -j16 >/dev/null 2>&1 || { echo "base build failed"; exit 9; }
bash $d/demo.sh $wt >/tmp/confirm.out 2>&1; r0=$?
git apply $d/patch.diff || { echo "RESULT patch does not apply"; exit 8; }
make -j16 >/tmp/confirm.build 2>&1 || { echo "RESULT patched build failed"; exit 8; }
warn=$(grep -c warning /tmp/confirm.build)
make test >/tmp/confirm.test 2>&1; rt=$?
bash $d/demo.sh $wt >/tmp/confirm.out2 2>&1; r1=$?
echo "RESULT demo_unchanged=$r0 make_test_patched=$rt demo_patched=$r1 warnings=$warn"
[ $r0 = 0 ] && [ $rt = 0 ] && [ $r1 != 0 ]
