"""Shared helpers for the /verif checks (build scratch copy, Coq build, evidence, known findings)."""
import os, sys, json, subprocess, tempfile, shutil, time, atexit, fcntl, hashlib, random, re

VERIF = os.path.dirname(os.path.dirname(os.path.abspath(__file__)))
REPO = os.environ.get('VERIF_REPO', '/repo')
COQ = os.path.join(VERIF, 'coq')
GUARD = 'CHIBICC_VERIF'

class GenError(Exception):
    pass

def write_if_changed(path, text):
    os.makedirs(os.path.dirname(path), exist_ok=True)
    try:
        if open(path).read() == text:
            return False
    except FileNotFoundError:
        pass
    tmp = path + '.tmp%d' % os.getpid()
    open(tmp, 'w').write(text)
    os.replace(tmp, path)
    return True

def sh(cmd, cwd=None, timeout=600, env=None, input=None):
    """run, return (rc, stdout, stderr) as text; never raises on non-zero"""
    try:
        p = subprocess.run(cmd, cwd=cwd, shell=isinstance(cmd, str), capture_output=True,
                           timeout=timeout, env=env, input=input, text=True, errors='replace')
        return p.returncode, p.stdout, p.stderr
    except subprocess.TimeoutExpired as e:
        # on an overloaded machine (other checks, builds, sweeps running) a time limit says nothing about the command:
        # run it once more, alone in this thread, with a longer limit, before reporting a timeout
        try: overloaded = os.getloadavg()[0] > 1.5 * (os.cpu_count() or 1)
        except OSError: overloaded = False
        if overloaded and not os.environ.get('VERIF_NO_RETRY'):
            try:
                p = subprocess.run(cmd, cwd=cwd, shell=isinstance(cmd, str), capture_output=True,
                                   timeout=timeout * 4, env=env, input=input, text=True, errors='replace')
                return p.returncode, p.stdout, p.stderr
            except subprocess.TimeoutExpired as e2: e = e2
        return 124, (e.stdout or b'').decode(errors='replace') if isinstance(e.stdout, bytes) else (e.stdout or ''), 'TIMEOUT'

_scratch = []
def scratch_dir(prefix='chibicc-verif-'):
    d = tempfile.mkdtemp(prefix=prefix, dir=os.environ.get('VERIF_TMP', '/tmp'))
    _scratch.append(d)
    return d
def _cleanup():
    for d in _scratch:
        shutil.rmtree(d, ignore_errors=True)
atexit.register(_cleanup)

def build_impl(extra_cflags='', stage2=False):
    """Copy /repo's working tree (tracked + untracked sources, no build products) to a scratch
    directory and build it there with the guard on.  Returns the scratch path.
    VERIF_STAGE=k: return the directory of the k-th stage (chibicc compiled by the (k-1)-th);
    VERIF_PREBUILT=dir: use that already built directory (set by the C12 check for its sub-runs)."""
    if os.environ.get('VERIF_PREBUILT') and not extra_cflags:
        return os.environ['VERIF_PREBUILT']
    d = scratch_dir()
    dst = os.path.join(d, 'src')
    rc, out, err = sh(['rsync', '-a', '--exclude', '.git', '--exclude', '*.o', '--exclude', '/chibicc',
                       '--exclude', '/stage2', '--exclude', 'test/*.exe', '--exclude', '/tmp*', REPO + '/', dst + '/'])
    if rc != 0:
        raise RuntimeError('rsync failed: ' + err)
    cflags = '-std=c11 -g -fno-common -Wall -Wno-switch -D%s %s' % (GUARD, extra_cflags)
    rc, out, err = sh(['make', '-j16', 'chibicc', 'CFLAGS=' + cflags], cwd=dst, timeout=300)
    if rc != 0:
        raise BuildFailed(out + err)
    stage = int(os.environ.get('VERIF_STAGE', '1'))
    for k in range(2, stage + 1):
        dst = build_next_stage(dst, k)
    return dst

def build_next_stage(prev, k):
    """compile the sources in directory `prev` (which holds a working ./chibicc) with that chibicc, guard on;
    returns a new directory holding the sources, the objects and the stage-k chibicc"""
    nxt = os.path.join(os.path.dirname(prev), 'stage%d' % k)
    rc, out, err = sh(['rsync', '-a', '--exclude', '*.o', '--exclude', '/chibicc', prev + '/', nxt + '/'])
    if rc != 0: raise RuntimeError('rsync failed: ' + err)
    srcs = sorted(f for f in os.listdir(nxt) if f.endswith('.c'))
    def comp(f):
        return sh([os.path.join(prev, 'chibicc'), '-D' + GUARD, '-c', '-o', os.path.join(nxt, f[:-2] + '.o'), os.path.join(nxt, f)], cwd=nxt, timeout=300)
    for f, (rc, out, err) in zip(srcs, pmap(comp, srcs)):
        if rc != 0: raise BuildFailed('stage %d: chibicc cannot compile %s: %s' % (k, f, (out + err)[-600:]))
    rc, out, err = sh(['gcc', '-o', os.path.join(nxt, 'chibicc')] + [os.path.join(nxt, f[:-2] + '.o') for f in srcs], timeout=120)
    if rc != 0: raise BuildFailed('stage %d link: %s' % (k, err[-600:]))
    return nxt

def link_harness(src, harness_c, out):
    """link a harness against every object of the scratch build (main() of main.c renamed)"""
    wd = os.path.dirname(out)
    objs = ' '.join(os.path.join(src, f[:-2] + '.o') for f in sorted(os.listdir(src)) if f.endswith('.c') and f != 'main.c')
    rc, o, e = sh('gcc -c -O1 -w -D%s -Dmain=chibicc_main -o %s/main_r.o %s/main.c && gcc -O1 -w -I%s -o %s %s %s/main_r.o %s' % (
        GUARD, wd, src, src, out, harness_c, wd, objs))
    return rc == 0, e

class BuildFailed(Exception):
    pass

def coq_build(targets, timeout=1500):
    """(re)build the given .vo targets of the Coq project under a lock; returns (ok, log)."""
    lock = open(os.path.join(COQ, '.lock'), 'w')
    fcntl.flock(lock, fcntl.LOCK_EX)
    try:
        if not os.path.exists(os.path.join(COQ, 'Makefile')) or \
           os.path.getmtime(os.path.join(COQ, 'Makefile')) < os.path.getmtime(os.path.join(COQ, '_CoqProject')):
            rc, out, err = sh('coq_makefile -f _CoqProject -o Makefile', cwd=COQ)
            if rc != 0:
                return False, out + err
        rc, out, err = sh(['timeout', str(timeout), 'make', '-k', '-j16'] + targets, cwd=COQ, timeout=timeout + 30)
        return rc == 0, out + err
    finally:
        fcntl.flock(lock, fcntl.LOCK_UN)
        lock.close()

def load_known(pid):
    res = []
    p = os.path.join(VERIF, 'known_findings.jsonl')
    if os.path.exists(p):
        for l in open(p):
            l = l.strip()
            if not l or l.startswith('#'):
                continue
            j = json.loads(l)
            if j.get('property') == pid:
                res.append(j)
    return res

def seed():
    try:
        return int(os.environ.get('VERIF_SEED', '20260929'))
    except ValueError:
        return 20260929

def write_evidence(pid, tier, level, coverage, wall_s, violations, assumptions):
    os.makedirs(os.path.join(VERIF, 'evidence'), exist_ok=True)
    ev = dict(property_id=pid, tier=tier, seed=seed(), level=level, coverage=coverage,
              assumptions=assumptions, wall_s=round(wall_s, 2), violations=violations)
    p = os.path.join(VERIF, 'evidence', pid + os.environ.get('VERIF_SUFFIX', '') + '.json')
    if os.environ.get('VERIF_SUFFIX'): p = os.path.join(VERIF, 'replays', 'sub', pid + os.environ['VERIF_SUFFIX'] + '.json'); os.makedirs(os.path.dirname(p), exist_ok=True)
    json.dump(ev, open(p, 'w'), indent=1, sort_keys=True)
    return p

def reset_replays(pid):
    shutil.rmtree(os.path.join(VERIF, 'replays', pid + os.environ.get('VERIF_SUFFIX', '')), ignore_errors=True)

def write_replay(pid, name, obj):
    d = os.path.join(VERIF, 'replays', pid + os.environ.get('VERIF_SUFFIX', ''))
    os.makedirs(d, exist_ok=True)
    p = os.path.join(d, name)
    if isinstance(obj, (dict, list)):
        json.dump(obj, open(p, 'w'), indent=1)
    else:
        open(p, 'w').write(obj)
    return p

def coq_check_properties(pid, deps=(), timeout=1500, extra=()):
    """Build the dependencies with make, then re-check Properties_<pid>.v itself with coqc (always),
    so that the Print Assumptions output of this very run is captured.
    Returns dict(ok, closed, axioms, log)."""
    target = 'theories/Properties/Properties_%s.vo' % pid
    files = ['theories/Properties/Properties_%s.v' % pid] + ['theories/Properties/Properties_%s_%s.v' % (pid, x) for x in extra]
    ok, log = coq_build([f + 'o' for f in files] + list(deps), timeout)
    res = dict(ok=False, closed=0, axioms=[], log=log)
    if not ok:
        return res
    lock = open(os.path.join(COQ, '.lock'), 'w')
    fcntl.flock(lock, fcntl.LOCK_EX)
    try:
        rc, out, err = 0, '', ''
        for f in files:       # the statement files of the property (the original one and one per later package)
            # the Print Assumptions output belongs to the compiled file: make has just re-checked the file if anything it depends on changed,
            # so the output is re-used as long as it is newer than the .vo (re-compiling a Flocq-based file only to print it again takes a minute)
            cache = os.path.join(COQ, f[:-2] + '.pa.txt'); vo = os.path.join(COQ, f + 'o')
            if os.path.exists(cache) and os.path.exists(vo) and os.path.getmtime(cache) >= os.path.getmtime(vo) and os.path.getmtime(cache) >= os.path.getmtime(os.path.join(COQ, f)):
                out += open(cache).read(); continue
            rc1, out1, err1 = sh(['timeout', str(timeout), 'coqc', '-Q', 'theories', 'Chibicc', '-w', '-deprecated-syntactic-definition,-deprecated', f], cwd=COQ, timeout=timeout + 30)
            rc = rc or rc1; out += out1; err += err1
            if rc1 == 0: open(cache, 'w').write(out1)
    finally:
        fcntl.flock(lock, fcntl.LOCK_UN); lock.close()
    res['log'] = log + out + err
    if rc != 0:
        return res
    res['ok'] = True
    res['closed'] = out.count('Closed under the global context')
    ax = []
    grab = False
    for l in out.split('\n'):
        if l.startswith('Axioms:'):
            grab = True; continue
        if grab:
            if l and not l[0].isspace():
                name = l.split(' :')[0].split(':')[0].strip()
                if re.fullmatch(r'[A-Za-z_][\w.\']*', name): ax.append(name)       # an axiom's qualified name; its type follows, indented
                else: grab = False
    res['axioms'] = sorted(set(ax))
    return res

def coq_errors(log):
    ls = log.split('\n')
    out = []
    for i, l in enumerate(ls):
        if l.startswith('File ') and i + 1 < len(ls) and 'Error' in ls[i + 1]:
            out.append(l.strip() + ' ' + ' '.join(x.strip() for x in ls[i + 1:i + 4]))
    return ' | '.join(out)[:900]


class Run:
    """Book-keeping common to all checks: violations (filtered through known_findings.jsonl),
    broken proof obligations / correspondences, evidence, exit status."""
    def __init__(self, pid, theorems, tier=None):
        self.pid, self.theorems = pid, theorems
        self.tier = tier or (sys.argv[1] if len(sys.argv) > 1 else os.environ.get('VERIF_TIER', 'quick'))
        if self.tier not in ('quick', 'thorough'):
            self.tier = 'quick'
        self.t0 = time.time()
        self.violations, self.proof_broken, self.corr_broken = [], [], []
        self.known = load_known(pid)
        self.known_hits = {}
        self.cq = dict(ok=False, closed=0, axioms=[], log='')
        self.rng = random.Random(seed() * 1000003 + sum(ord(c) for c in pid))
        reset_replays(pid)

    def quick(self):
        return self.tier == 'quick'

    def match_known(self, features):
        for k in self.known:
            if k.get('status') != 'open':
                continue
            m = k.get('match') or {}
            if m and all(features.get(a) == b if not isinstance(b, list) else features.get(a) in b for a, b in m.items()):
                return k
        return None

    def violation(self, v, features=None):
        """record a violation unless it is a listed known finding (matched on its features)"""
        k = self.match_known(features or {}) if features else None
        if k is not None:
            self.known_hits[k['id']] = self.known_hits.get(k['id'], 0) + 1
            return False
        if features:
            v = dict(v); v['features'] = features
        self.violations.append(v)
        return True

    def check_proofs(self, deps=(), extra=()):
        if os.environ.get('VERIF_SKIP_PROOFS'):      # sub-run of the C12 check: the proofs do not depend on the binary under test
            self.cq = dict(ok=True, closed=len(self.theorems), axioms=[], log='skipped (sub-run)'); return True
        self.cq = coq_check_properties(self.pid, deps=deps, extra=extra)
        if not self.cq['ok']:
            self.proof_broken.append('Properties_%s.v does not check: %s' % (self.pid, coq_errors(self.cq['log']) or self.cq['log'][-600:]))
        return self.cq['ok']

    def proof_cov(self):
        return dict(obligations=len(self.theorems), discharged=len(self.theorems) if self.cq['ok'] else 0,
                    checker_cmd='make -C /verif/coq + coqc theories/Properties/Properties_%s*.v (Coq 8.16.1, full .vo build, re-checked on this run)' % self.pid,
                    print_assumptions_closed=self.cq['closed'], axioms=self.cq['axioms'], theorems=self.theorems)

    def finish(self, cov, assumptions, trusted_base):
        pid = self.pid
        rc, nv = 0, 0
        c = self.proof_cov(); c.update(cov); cov = c
        cov['trusted_base'] = trusted_base
        for v in self.violations[:int(os.environ.get('VERIF_MAX_REPLAYS', '8'))]:
            p = write_replay(pid, 'violation_%d.json' % nv, v); nv += 1
            print('VIOLATION property=%s replay=%s' % (pid, p)); rc = 1
        if not self.violations and (self.proof_broken or self.corr_broken):
            p = write_replay(pid, 'unproved.json', dict(proof_obligations_broken=self.proof_broken, correspondence_broken=self.corr_broken,
                             note='the search found no concrete failing input; the property is no longer shown to hold'))
            print('VIOLATION property=%s replay=%s no-failing-input-found' % (pid, p)); rc = 1; nv += 1
        for k in self.known:
            if k.get('status') == 'open':
                print('KNOWN-FINDING: property=%s %s%s' % (pid, k['what'], ' [reproduced %d times in this run]' % self.known_hits[k['id']] if k['id'] in self.known_hits else ''))
        cov['proof_obligations_broken'] = self.proof_broken; cov['correspondence_broken'] = self.corr_broken[:5]
        cov['known_findings_reproduced'] = self.known_hits
        cov.setdefault('evaluations', 0); cov.setdefault('distinct_nontrivial', 0)
        write_evidence(pid, self.tier, 'proof', cov, time.time() - self.t0, nv, assumptions)
        print('%s %s: %s (%d evaluations, %.1fs)' % (pid, self.tier, 'OK' if rc == 0 else 'FAILED', cov.get('evaluations', 0), time.time() - self.t0))
        return rc

def run_tie(run, pkg, src, n, area):
    """Run the correspondence module tools/tie_<pkg>.py (cases evaluated by the Coq model and spec through one coqc call, and by the
    real compiler in `src`): implementation != spec -> violation with the case as replay; implementation != model -> correspondence broken.
    Returns (evaluations, distinct_nontrivial, distribution, samples)."""
    import importlib
    try:
        mod = importlib.import_module('tie_' + pkg)
    except Exception as e:
        run.corr_broken.append('tie_%s cannot be loaded: %s' % (pkg, e)); return 0, 0, {}, []
    lock = open(os.path.join(COQ, '.lock'), 'w')
    fcntl.flock(lock, fcntl.LOCK_EX)        # the tie evaluates its cases with coqc against the compiled .vo files: no concurrent make
    try:
        r = None
        for attempt in (0, 1):
            try:
                r = mod.run(src, seed(), n, VERIF); break
            except Exception as e:
                import traceback
                tb = traceback.format_exc()
                # a time-out of coqc / a compiled program on an overloaded machine says nothing about the tie: once more, alone
                if attempt == 0 and ('Timeout' in tb or 'timed out' in tb): continue
                run.corr_broken.append('tie_%s failed: %s' % (pkg, tb[-600:])); return 0, 0, {}, []
    finally:
        fcntl.flock(lock, fcntl.LOCK_UN); lock.close()
    for m in r.get('impl_vs_spec', [])[:8]:
        run.violation(dict(kind='implementation-differs-from-coq-spec', tie=pkg, case=m.get('case'), implementation=m.get('impl'), spec=m.get('spec'),
                           how='python3 tools/tie_%s.py <dir with built chibicc> %d: the case is compiled / run with the real compiler and evaluated by the Coq spec (vm_compute)' % (pkg, seed())),
                      dict(area=area, construct='tie-' + pkg))
    for m in r.get('impl_vs_model', [])[:5]:
        run.corr_broken.append('tie_%s: implementation differs from the Coq model on %s: impl %s, model %s' % (pkg, str(m.get('case'))[:300], str(m.get('impl'))[:200], str(m.get('model'))[:200]))
    if r.get('impl_vs_model'): write_replay(run.pid, 'tie_%s_model_mismatches.json' % pkg, r['impl_vs_model'][:50])
    if r.get('error'): run.corr_broken.append('tie_%s: %s' % (pkg, str(r['error'])[:400]))
    return int(r.get('evaluations', 0)), int(r.get('distinct_nontrivial', 0)), r.get('distribution', {}), r.get('samples', [])[:2]

def run_corpus(run, pid, src):
    """minimised past failures, run first: corpus/<pid>/*.c.  Each program is compiled and run with the compiler under test and with gcc
    (first line may hold `// FLAGS: ...` for both compilers, `// LIBS: ...`, and `// EXPECT: <exact stdout>` when gcc is not the reference,
    `// TWO: other.c` = a second unit compiled by gcc and linked in); the outputs must be equal.  Returns the number of programs run."""
    d = os.path.join(VERIF, 'corpus', pid, 'run')
    if not os.path.isdir(d): return 0
    wd = scratch_dir(); n = 0
    for f in sorted(os.listdir(d)):
        if not f.endswith('.c') or f.endswith('.aux.c'): continue
        text = open(os.path.join(d, f)).read(); n += 1
        opt = lambda k: (re.search(r'^// %s: (.*)$' % k, text, re.M) or [None, ''])[1].strip()
        flags, libs, expect, two = opt('FLAGS').split(), opt('LIBS').split(), opt('EXPECT'), opt('TWO')
        extra = []
        if two:
            rc, o, e = sh(['gcc', '-w', '-O1', '-c', '-o', os.path.join(wd, f + '.aux.o'), os.path.join(d, two)] , timeout=120)
            if rc != 0: run.corr_broken.append('corpus %s: the auxiliary unit %s does not compile with gcc: %s' % (f, two, e[-200:])); continue
            extra = [os.path.join(wd, f + '.aux.o')]
        outs = {}
        for cc, cmd in (('chibicc', [os.path.join(src, 'chibicc')]), ('gcc', ['gcc', '-w', '-O0', '-std=gnu11'])):
            if cc == 'gcc' and expect: continue
            exe = os.path.join(wd, f + '.' + cc)
            rc, o, e = sh(cmd + flags + ['-o', exe, os.path.join(d, f)] + extra + libs, timeout=120)
            if rc != 0: outs[cc] = 'COMPILE-FAIL: ' + (e.strip().split('\n') or [''])[0][:200]; continue
            rc, o, e = sh([exe], timeout=30)
            outs[cc] = o if rc == 0 else 'RUN-FAIL rc=%d: %s' % (rc, o[-200:])
        ref = expect.replace('\\n', '\n') if expect else outs.get('gcc', '')
        if not expect and ref.startswith(('COMPILE-FAIL', 'RUN-FAIL')):
            run.corr_broken.append('corpus %s fails under gcc: %s' % (f, ref[:200])); continue
        if outs.get('chibicc', '').strip() != ref.strip():
            run.violation(dict(kind='corpus-program', file='corpus/%s/run/%s' % (pid, f), chibicc=outs.get('chibicc', '')[:600], expected=ref[:600], program=text[:3000],
                               how='a minimised past failure of this property: compile and run with chibicc and with gcc (or compare with the EXPECT line); outputs must be equal'),
                          dict(area='corpus', construct=f))
    return n

def compile_run(cc, src_file, exe, args=(), timeout=120, run_timeout=20):
    """compile a C file with the given compiler command list and run it; returns (status, stdout)
    status: 'ok' | 'compile-fail:<msg>' | 'run-fail:<rc>'"""
    rc, out, err = sh(list(cc) + ['-o', exe, src_file] + list(args), timeout=timeout)
    if rc != 0:
        return 'compile-fail:rc=%d %s' % (rc, (err.strip().split('\n') or [''])[-1][:300]), ''
    rc, out, err = sh([exe], timeout=run_timeout)
    if rc != 0:
        return 'run-fail:%d' % rc, out
    return 'ok', out

def pmap(fn, items, workers=16):
    from concurrent.futures import ThreadPoolExecutor
    with ThreadPoolExecutor(max_workers=workers) as ex:
        return list(ex.map(fn, items))
