"""Shared helpers for the /verif checks (build scratch copy, Coq build, evidence, known findings)."""
import os, sys, json, subprocess, tempfile, shutil, time, atexit, fcntl, hashlib, random, re

VERIF = os.path.dirname(os.path.dirname(os.path.abspath(__file__)))
REPO = os.environ.get('VERIF_REPO', '/repo')
COQ = os.path.join(VERIF, 'coq')
GUARD = 'CHIBICC_VERIF'

class GenError(Exception):
    pass

def write_if_changed(path, text):
    os.makedirs(os.path.dirname(path), exist_ok=True)
    try:
        if open(path).read() == text:
            return False
    except FileNotFoundError:
        pass
    tmp = path + '.tmp%d' % os.getpid()
    open(tmp, 'w').write(text)
    os.replace(tmp, path)
    return True

def sh(cmd, cwd=None, timeout=600, env=None, input=None):
    """run, return (rc, stdout, stderr) as text; never raises on non-zero"""
    try:
        p = subprocess.run(cmd, cwd=cwd, shell=isinstance(cmd, str), capture_output=True,
                           timeout=timeout, env=env, input=input, text=True, errors='replace')
        return p.returncode, p.stdout, p.stderr
    except subprocess.TimeoutExpired as e:
        return 124, (e.stdout or b'').decode(errors='replace') if isinstance(e.stdout, bytes) else (e.stdout or ''), 'TIMEOUT'

_scratch = []
def scratch_dir(prefix='chibicc-verif-'):
    d = tempfile.mkdtemp(prefix=prefix, dir=os.environ.get('VERIF_TMP', '/tmp'))
    _scratch.append(d)
    return d
def _cleanup():
    for d in _scratch:
        shutil.rmtree(d, ignore_errors=True)
atexit.register(_cleanup)

def build_impl(extra_cflags='', stage2=False):
    """Copy /repo's working tree (tracked + untracked sources, no build products) to a scratch
    directory and build it there with the guard on.  Returns the scratch path."""
    d = scratch_dir()
    dst = os.path.join(d, 'src')
    rc, out, err = sh(['rsync', '-a', '--exclude', '.git', '--exclude', '*.o', '--exclude', '/chibicc',
                       '--exclude', '/stage2', '--exclude', 'test/*.exe', '--exclude', '/tmp*', REPO + '/', dst + '/'])
    if rc != 0:
        raise RuntimeError('rsync failed: ' + err)
    cflags = '-std=c11 -g -fno-common -Wall -Wno-switch -D%s %s' % (GUARD, extra_cflags)
    rc, out, err = sh(['make', '-j16', 'chibicc', 'CFLAGS=' + cflags], cwd=dst, timeout=300)
    if rc != 0:
        raise BuildFailed(out + err)
    return dst

class BuildFailed(Exception):
    pass

def coq_build(targets, timeout=1500):
    """(re)build the given .vo targets of the Coq project under a lock; returns (ok, log)."""
    lock = open(os.path.join(COQ, '.lock'), 'w')
    fcntl.flock(lock, fcntl.LOCK_EX)
    try:
        if not os.path.exists(os.path.join(COQ, 'Makefile')) or \
           os.path.getmtime(os.path.join(COQ, 'Makefile')) < os.path.getmtime(os.path.join(COQ, '_CoqProject')):
            rc, out, err = sh('coq_makefile -f _CoqProject -o Makefile', cwd=COQ)
            if rc != 0:
                return False, out + err
        rc, out, err = sh(['timeout', str(timeout), 'make', '-k', '-j16'] + targets, cwd=COQ, timeout=timeout + 30)
        return rc == 0, out + err
    finally:
        fcntl.flock(lock, fcntl.LOCK_UN)
        lock.close()

def load_known(pid):
    res = []
    p = os.path.join(VERIF, 'known_findings.jsonl')
    if os.path.exists(p):
        for l in open(p):
            l = l.strip()
            if not l or l.startswith('#'):
                continue
            j = json.loads(l)
            if j.get('property') == pid:
                res.append(j)
    return res

def seed():
    try:
        return int(os.environ.get('VERIF_SEED', '20260929'))
    except ValueError:
        return 20260929

def write_evidence(pid, tier, level, coverage, wall_s, violations, assumptions):
    os.makedirs(os.path.join(VERIF, 'evidence'), exist_ok=True)
    ev = dict(property_id=pid, tier=tier, seed=seed(), level=level, coverage=coverage,
              assumptions=assumptions, wall_s=round(wall_s, 2), violations=violations)
    p = os.path.join(VERIF, 'evidence', pid + '.json')
    json.dump(ev, open(p, 'w'), indent=1, sort_keys=True)
    return p

def reset_replays(pid):
    shutil.rmtree(os.path.join(VERIF, 'replays', pid), ignore_errors=True)

def write_replay(pid, name, obj):
    d = os.path.join(VERIF, 'replays', pid)
    os.makedirs(d, exist_ok=True)
    p = os.path.join(d, name)
    if isinstance(obj, (dict, list)):
        json.dump(obj, open(p, 'w'), indent=1)
    else:
        open(p, 'w').write(obj)
    return p

def coq_check_properties(pid, deps=(), timeout=1500):
    """Build the dependencies with make, then re-check Properties_<pid>.v itself with coqc (always),
    so that the Print Assumptions output of this very run is captured.
    Returns dict(ok, closed, axioms, log)."""
    target = 'theories/Properties/Properties_%s.vo' % pid
    ok, log = coq_build([target] + list(deps), timeout)
    res = dict(ok=False, closed=0, axioms=[], log=log)
    if not ok:
        return res
    lock = open(os.path.join(COQ, '.lock'), 'w')
    fcntl.flock(lock, fcntl.LOCK_EX)
    try:
        rc, out, err = sh(['timeout', str(timeout), 'coqc', '-Q', 'theories', 'Chibicc', '-w', '-deprecated-syntactic-definition,-deprecated',
                           'theories/Properties/Properties_%s.v' % pid], cwd=COQ, timeout=timeout + 30)
    finally:
        fcntl.flock(lock, fcntl.LOCK_UN); lock.close()
    res['log'] = log + out + err
    if rc != 0:
        return res
    res['ok'] = True
    res['closed'] = out.count('Closed under the global context')
    ax = []
    grab = False
    for l in out.split('\n'):
        if l.startswith('Axioms:'):
            grab = True; continue
        if grab:
            if l and not l[0].isspace() and ':' in l:
                ax.append(l.split(':')[0].strip())
            elif l and not l[0].isspace():
                grab = False
    res['axioms'] = sorted(set(ax))
    return res

def coq_errors(log):
    ls = log.split('\n')
    out = []
    for i, l in enumerate(ls):
        if l.startswith('File ') and i + 1 < len(ls) and 'Error' in ls[i + 1]:
            out.append(l.strip() + ' ' + ' '.join(x.strip() for x in ls[i + 1:i + 4]))
    return ' | '.join(out)[:900]
