#!/bin/bash
# coqchk_all.sh: re-check every compiled Properties module (and everything it depends on) with Coq's independent checker and
# print the context summary (axioms, type-in-type, unsafe fixpoints, assumed positivity). Takes several minutes; not part of a check.
cd "$(dirname "$0")/../coq"
mods=$(ls theories/Properties/*.v | sed 's|theories/Properties/\(.*\)\.v|Chibicc.Properties.\1|')
timeout 3000 coqchk -o -silent -Q theories Chibicc $mods 2>&1 | tail -40
