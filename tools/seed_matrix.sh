#!/bin/bash
# seed_matrix.sh: apply every kept seeded change to /repo in turn, run the property's quick check, undo; prints one line per seed
cd /verif
[ -n "$(git -C /repo status --porcelain)" ] && { echo "/repo has uncommitted changes"; exit 2; }
for d in seeded/C??*; do
  name=$(basename $d); id=${name:0:3}
  if ! git -C /repo apply --check /verif/$d/patch.diff 2>/dev/null; then echo "$name: patch no longer applies to HEAD"; continue; fi
  git -C /repo apply /verif/$d/patch.diff
  out=$(./check $id quick 2>&1); rc=$?
  git -C /repo checkout -- .
  echo "$name: exit=$rc $(echo "$out" | grep -c '^VIOLATION') violation line(s) $(echo "$out" | grep -o 'no-failing-input-found' | head -1)"
done
python3 tools/gen_all.py /repo >/dev/null
