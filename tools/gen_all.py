#!/usr/bin/env python3
"""Regenerate every Gen/*.v table from the given checkout of the repository."""
import sys, os
sys.path.insert(0, os.path.dirname(os.path.abspath(__file__)))
from vlib import GenError, COQ
import gen_hashmap, gen_unicode, gen_declspec, gen_casttable, gen_abi, gen_punct
repo = sys.argv[1] if len(sys.argv) > 1 else '/repo'
rc = 0
for name, fn, out in [('hashmap', gen_hashmap.gen, 'theories/Gen/HashmapConsts.v'),
                      ('unicode', gen_unicode.gen, 'theories/Gen/UnicodeTables.v'),
                      ('declspec', gen_declspec.gen, 'theories/Gen/DeclspecTable.v'),
                      ('casttable', gen_casttable.gen, 'theories/Gen/CastTable.v'),
                      ('abi', gen_abi.gen, 'theories/Gen/AbiConsts.v'),
                      ('punct', gen_punct.gen, 'theories/Gen/PunctTable.v')]:
    try:
        fn(repo, os.path.join(COQ, out))
    except GenError as e:
        print('GENERR', name, e); rc = 3
sys.exit(rc)
