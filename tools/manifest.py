#!/usr/bin/env python3
"""Regenerate MANIFEST.json from the table below (one place to keep it valid)."""
import json, os
V = os.path.dirname(os.path.dirname(os.path.abspath(__file__)))
props = [json.loads(l) for l in open(os.path.join(V, 'properties.jsonl'))]
CHECKS = {
 'C01': dict(
   text="Coq proofs: (1) the type given to every expression tree is the C11 type (rank-based promotions and usual arithmetic conversions vs the size-based rule of type.c); (2) every integer entry of cast_table, regenerated from codegen.c on every run, and the _Bool path, executed on x86-lite on a register holding ANY value of the source type, leaves the representation of the C11-converted value (81 pairs); (3) the instructions selected for + - * / % & | ^ << >> == != < <= and unary - ~ ! compute the C11 result for every operand value for which C11 defines it (signed/unsigned idiv/div with cqo/cdq, sar/shr, setl/setb...), with no #DE. Tie: table translator; the -S instruction text of all 1 458 one-operator functions (16 binary operators x 81 type pairs, unary, casts) equals the proved model's text; generated expression trees on volatile operands in every context (initializer, argument, return, assignment, conditions, op=, ++/--) against the Coq spec.",
   note="Trusted: Coq kernel, no axioms; tools/gen_casttable.py; x86-lite (Model/X86Int.v) is my reading of the Intel SDM, validated against the CPU only by the run-time programs; extraction (ExtrOcamlBasic + ExtrOcamlString). Not proved: composition of operators into deeper trees (push/pop discipline: C20), control flow of && || ?: (C03), pointers; these are covered by the run-time programs. Known finding: postfix ++/-- on _Bool.",
   technique="Coq proofs over an x86-lite instruction semantics + translator for the cast table + textual equality of emitted code with the proved model + differential run-time evaluation against the Coq spec",
   design="5.C01"),
 'C07': dict(
   text="Coq proof, by induction over arbitrary expression trees (all 18 binary and 4 unary operators, casts, ?:, comma, 9 integer types, any depth): the type the compiler assigns (get_common_type by size + the casts add_type/unary() insert) is the C11 type (rank-based promotions and usual arithmetic conversions), and whenever C11 defines the value, the model of eval2 (int64_t wrap-around arithmetic, the (uint64_t) paths, narrow_to_type at every node, eval_div) yields exactly that value; unevaluated operands are not evaluated; a defined expression never reaches a division diagnostic or a host-undefined shift. Tie: every generated expression defined per the Coq spec is compiled into a static initializer (value), sizeof/typeof (type), enum value, array bound, case label, bit-field width and _Alignas positions and ALSO evaluated at run time on volatile operands - all must equal the spec value; undefined divisions must be diagnosed, not crashed on.",
   note="Trusted: Coq kernel, no axioms; extraction + modelrun; the hand-written model Model/ConstFold.v (tied: static-initializer values = model values on every generated case). Implementation-defined choices fixed as gcc/chibicc fix them (signed narrowing wraps, >> arithmetic). Floating constant expressions belong to C02, address constants to C05; the parser from text to AST is tied by correspondence only.",
   technique="Coq proof (structural induction; congruence modulo 2^64 + per-operator range lemmas) + differential evaluation (translation time vs run time vs proved spec) on generated expressions",
   design="5.C07"),
 'C08': dict(
   text="Coq proofs: the offset arithmetic of struct_decl (align_to / straddling test / align_down, as modelled) places every member of every struct - any member list with bit-fields of any unit size and width, zero-width and unnamed bit-fields, _Alignas, aligned(n), packed - at the least position the declaratively stated psABI conditions allow, gives the struct the least-upper-bound alignment and the least size, members never overlap, a bit-field lies inside an aligned unit of its type; the switch of declspec(), regenerated from parse.c on every run, accepts every C11 6.7.2p2 specifier multiset in every order, interleaved with any other declaration specifiers, with the C11 type (verified permutation enumeration + vm_compute sweep). Tie: translator for declspec; generated aggregates (nesting, arrays, anonymous members, 8 bit-field base types, attributes) compared member by member (offsets, bit images) with the extracted model and with gcc; all specifier permutations compiled and probed.",
   note="Trusted: Coq kernel, no axioms; tools/gen_declspec.py; extraction + modelrun; gcc 12 as the other compiler. Excluded by the decidable predicate no_bad, with a proved witness that the exclusion is real: a bit-field crossing a unit boundary inside a packed struct (known finding), and packed unions (known finding). Declarator composition, typedef/typeof/enum, scalar sizes and __SIZEOF_*__ are covered by generated programs only; explicit alignment requests inside packed aggregates are not generated.",
   technique="Coq proofs (least-position characterisation of the layout arithmetic; finite sweep over a regenerated table lifted by a verified permutation enumerator) + translator + differential layout probing vs extracted model and gcc",
   design="5.C08"),
 'C11': dict(
   text="Coq proofs, for all inputs: encode_utf8 followed by decode_utf8 is the identity on every code point below 2^21 and the encoder equals the RFC 3629 table; the decoder rejects lone/missing continuation bytes; UTF-16 units are one unit (BMP) or a surrogate pair in the right ranges that decodes back; the identifier tables regenerated from unicode.c denote exactly Annex D.1/D.2 for every 32-bit value (breakpoint theorem + vm_compute sweep over the regenerated table); the shift ladder of convert_pp_int equals C11 6.4.4.1p5 first-fit for every base class, suffix class and value < 2^64. Tie: translator for the tables; unicode.c linked unmodified and compared with the extracted model on every code point < 2^21 and every identifier class < 0x110400 (exhaustive); generated programs for all bases x 23 suffix spellings x thresholds (types from the proved spec), string/char literals, concatenation, UCNs, BOM/CRLF/splices (gcc as reference).",
   note="Trusted: Coq kernel, no axioms; tools/gen_unicode.py; extraction + modelrun; harness/unicode_h.c; gcc 12 as reference for escapes/concatenation/UCN spelling. Modelled: suffix spelling parser, escape reader, strtoul are not proved (covered by generated programs only); floating literals are C02's.",
   technique="Coq proofs (codec round trip, interval-breakpoint theorem, case analysis with lia) + table translator + exhaustive unit correspondence + generated literal programs",
   design="5.C11"),
 'C17': dict(
   text="Coq proof that the model of hashmap.c (probe loop, tombstones, rehash, load-factor arithmetic, C int overflow and both aborting sites as explicit Crash) refines a dictionary for every history of put/get/delete with any keys and collisions (hash function is a parameter), never aborts, and keeps its invariant across growth; constants regenerated from hashmap.c and their side conditions re-proved on every run; the model is tied to the code by running hashmap.c (linked unmodified into a harness) and the extracted model on the same histories and comparing the whole bucket array slot for slot, plus #define/#undef/-D/-U histories through chibicc -E against the dictionary.",
   note="Trusted: Coq 8.16.1 kernel (vm_compute, no native_compute), no axioms (Print Assumptions: closed under the global context); translator tools/gen_hashmap.py; extraction (ExtrOcamlBasic only) + ocaml/modelrun.ml; harness/hashmap_h.c. Modelled, not verified: the C code itself (hand-written model, correspondence-checked); C int overflow excluded by the hypothesis length(history)*100 < 2^30; scope/keyword/include tables use the same hashmap.c code and are covered through it.",
   technique="Coq refinement proof (invariant + abstraction function) + translator for constants + slot-level correspondence of extracted model vs linked C code",
   design="5.C17"),
}
m = {"version": 1,
 "setup_cmd": "./setup.sh",
 "hooks": {"guard": "CHIBICC_VERIF", "enable": "checks build a scratch copy of /repo's working tree with make CFLAGS='-std=c11 -g -fno-common -Wall -Wno-switch -DCHIBICC_VERIF'",
           "baseline_off_cmd": "make -C /repo test", "source_commits": [], "add_only": True},
 "engines": [{"name": "coq-proof", "path": "coq/", "serves_properties": sorted(CHECKS), "kind_free_text": "Coq 8.16.1 development: Spec/Model/Proofs/Properties + Gen tables regenerated from /repo; extracted to OCaml (ocaml/modelrun) for the correspondence checks driven by tools/check_*.py"}],
 "checks": [], "notes": "See DESIGN.md. ./check <id> quick|thorough. Known findings: known_findings.jsonl.",
 "not_applicable": []}
for p in props:
    pid = p['id']
    if pid in CHECKS:
        c = CHECKS[pid]
        m['checks'].append({"property_id": pid, "quick_cmd": "./check %s quick" % pid, "thorough_cmd": "./check %s thorough" % pid,
            "evidence_file": "/verif/evidence/%s.json" % pid, "replay_cmd_template": "./check %s --replay {path}" % pid, "engine": "coq-proof",
            "level_claimed": {"category": "proof", "text": c['text'], "design_ref": c['design']}, "level_note": c['note'], "technique": c['technique']})
    else:
        m['not_applicable'].append({"property_id": pid, "reason": "check not built yet (work in progress; DESIGN.md section 5 gives the plan)"})
json.dump(m, open(os.path.join(V, 'MANIFEST.json'), 'w'), indent=1)
print('checks:', [c['property_id'] for c in m['checks']])
