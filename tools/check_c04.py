#!/usr/bin/env python3
"""C04 - every lvalue designates exactly its object's bytes and bits.
   proofs (bit-field store/load sequences: read-back, every other bit of the unit kept, neighbours
   undisturbed, only the unit's bytes written, for all contents/values/offsets/widths; element
   address arithmetic exact) + correspondence:
   (a) bit-fields: generated structs over 10 base types, widths 1..64, mixed with ordinary members;
       random previous contents and values: memory image after the store and value read back =
       extracted model on the unit located by the C08 layout model = bit-exact expectation computed
       independently (only the field's bits change);
   (b) aggregates: generated nested struct/union/array types with anonymous members; every leaf is
       written through several lvalue spellings (., ->, (*p)., array of structs, pointer arithmetic)
       with distinct patterns, whole-aggregate assignment, compound literals, by-value passing:
       byte dumps and read-backs = gcc;
   (c) pointer/index arithmetic with every index type and products beyond 2^31/2^32: addresses =
       exact base + i*size = extracted elem_addr;
   (d) VLA / alloca: self-checking programs (sizes, alignment, no overlap between live objects,
       contents intact across further allocations and calls with stack arguments)."""
import os, sys, time, random, json, re, subprocess
sys.path.insert(0, os.path.dirname(os.path.abspath(__file__)))
from vlib import *

PID = 'C04'
THEOREMS = ['C04_bitfield_read_back_unsigned', 'C04_bitfield_read_back_signed', 'C04_bitfield_other_bits_kept', 'C04_bitfield_neighbours', 'C04_unit_write', 'C04_element_address', 'C04_nonvacuous']
MODELRUN = os.path.join(VERIF, 'ocaml/modelrun')
BFT = [('signed char', 1, True), ('unsigned char', 1, False), ('short', 2, True), ('unsigned short', 2, False), ('int', 4, True), ('unsigned', 4, False),
       ('long', 8, True), ('unsigned long', 8, False), ('_Bool', 1, False), ('long long', 8, True)]

def gen_bf_struct(rng, k):
    mems = []
    for j in range(rng.randint(2, 7)):
        if rng.random() < 0.25:
            t = rng.choice([('char', 1), ('short', 2), ('int', 4), ('long', 8)]); mems.append(dict(name='m%d' % j, ty=t[0], size=t[1], bf=None, sgn=True))
        else:
            t = rng.choice(BFT)
            w = 1 if t[0] == '_Bool' else rng.choice([1, 2, 3, 7, 8, 9, 15, 16, 17, 31, 32, 33, 63, 64, rng.randint(1, 64)])
            w = min(w, t[1] * 8)
            mems.append(dict(name='m%d' % j, ty=t[0], size=t[1], bf=w, sgn=t[2]))
    return mems

def main():
    run = Run(PID, THEOREMS)
    rng = run.rng
    try:
        src = build_impl()
    except BuildFailed as e:
        run.proof_broken.append('scratch build of /repo failed: ' + str(e)[-800:])
        return run.finish(dict(evaluations=0), [], [])
    wd = scratch_dir()
    run.check_proofs(deps=['theories/Model/Bitfield.vo', 'theories/Proofs/BitfieldProofs.vo'])
    NCORPUS = run_corpus(run, PID, src)          # minimised past failures first
    rc, o, e = sh([os.path.join(VERIF, 'ocaml/build.sh')], timeout=900)
    if rc != 0:
        run.corr_broken.append('extracted model does not build: ' + (o + e)[-300:])
        return run.finish(dict(evaluations=0), [], [])
    chibi = os.path.join(src, 'chibicc')
    evals = 0; nontriv = 0; dist = {}; samples = []
    def count(k, n=1): dist[k] = dist.get(k, 0) + n
    def build_run(f, cc, extra=()):
        exe = f + ('.c.exe' if cc == 'chibicc' else '.g.exe')
        rc, o, e = sh(([chibi] if cc == 'chibicc' else ['gcc', '-w', '-O0', '-fno-strict-aliasing']) + ['-o', exe, f] + list(extra), timeout=120)
        if rc != 0: return None, 'compile: ' + e[-300:]
        rc, o, e = sh([exe], timeout=30)
        return (o if rc == 0 else None), 'exit %d %s' % (rc, o[-200:])

    # ---------------- (a) bit-fields ----------------
    NA = 40 if run.quick() else 400
    structs = [gen_bf_struct(rng, k) for k in range(NA)]
    packed = [rng.random() < 0.3 for _ in structs]      # packed: chibicc keeps the no-straddle rule (C08 open finding about gcc's layout), so layout and access must still agree
    # layout from the C08 model
    lq = '\n'.join('S %d 1 ' % packed[k] + ' '.join('%d %d %d 1' % (m['size'], m['size'], m['bf'] if m['bf'] is not None else -1) for m in ms) for k, ms in enumerate(structs)) + '\n'
    rc, lo, le = sh([MODELRUN, 'layout'], input=lq, timeout=120)
    layouts = [l.split() for l in lo.strip().split('\n')]
    prog = ['int printf(const char *, ...); void *memcpy(void *, const void *, unsigned long);',
            'static void dump(int id, void *p, int n, long v) { printf("%d ", id); for (int i = 0; i < n; i++) printf("%02x", ((unsigned char *)p)[i]); printf(" %ld\\n", v); }']
    trials = []
    for k, ms in enumerate(structs):
        prog.append('struct %sB%d { %s };' % ('__attribute__((packed)) ' if packed[k] else '', k, ' '.join('%s %s%s;' % (m['ty'], m['name'], ' : %d' % m['bf'] if m['bf'] is not None else '') for m in ms)))
    prog.append('int main(void) {')
    tid = 0
    for k, ms in enumerate(structs):
        lay = layouts[k] if k < len(layouts) else None
        if not lay or len(lay) < 3 + len(ms): run.corr_broken.append('layout model gave no answer for struct %d' % k); continue
        size = int(lay[0])
        for j, m in enumerate(ms):
            if m['bf'] is None: continue
            off, bit = [int(x) for x in lay[3 + j].split(':')]
            for _ in range(2):
                pat = bytes(rng.choice([0, 255, rng.randrange(256)]) for _ in range(size))
                v = rng.choice([0, 1, -1, (1 << (m['bf'] - 1)), (1 << m['bf']) - 1, -(1 << (m['bf'] - 1)), rng.randrange(-(1 << 63), 1 << 63)])
                v = max(-(1 << 63), min((1 << 63) - 1, v))
                vlit = '(%dL%s)' % (v, '') if v > -(1 << 63) else '(-9223372036854775807L-1)'
                prog.append('  { struct B%d s; unsigned char pat[%d] = {%s}; memcpy(&s, pat, %d); long r = (s.%s = %s); dump(%d, &s, %d, r); dump(%d, &s, 0, s.%s); }' %
                            (k, size, ','.join(str(b) for b in pat), size, m['name'], vlit, tid, size, tid + 1, m['name']))
                trials.append((tid, k, j, pat, v, off, bit)); tid += 2
    prog.append('  return 0;\n}')
    f = os.path.join(wd, 'bf.c'); open(f, 'w').write('\n'.join(prog) + '\n')
    out, why = build_run(f, 'chibicc')
    if out is None:
        run.violation(dict(kind='valid-program-rejected', why=why), dict(area='bitfield', construct='rejected'))
    else:
        res = {}
        for l in out.strip().split('\n'):
            p = l.split(' ')
            res[int(p[0])] = (p[1], int(p[2]))
        q = []
        for (t, k, j, pat, v, off, bit) in trials:
            m = structs[k][j]
            u = int.from_bytes(pat[off:off + m['size']], 'little')
            q.append('bf %d %d %d %d %d %d' % (u, v, bit, m['bf'], m['size'], 1 if m['sgn'] else 0))
        rc, mo, me = sh([MODELRUN, 'bf'], input='\n'.join(q) + '\n', timeout=120)
        mo = [l.split() for l in mo.strip().split('\n')]
        for i, (t, k, j, pat, v, off, bit) in enumerate(trials):
            m = structs[k][j]; evals += 1; nontriv += 1; count('bitfield-store')
            if t not in res or t + 1 not in res: run.corr_broken.append('bit-field trial %d produced no output' % t); continue
            dumpx, aval = res[t]; rb = res[t + 1][1]
            # independent expectation: only bits [8*off+bit, +width) change
            w = m['bf']; lo_bit = 8 * off + bit
            img = int.from_bytes(pat, 'little')
            stored = (1 if v != 0 else 0) if m['ty'] == '_Bool' else v & ((1 << w) - 1)
            img2 = (img & ~(((1 << w) - 1) << lo_bit)) | (stored << lo_bit)
            want_dump = img2.to_bytes(len(pat), 'little').hex()
            want_val = stored - (1 << w) if m['sgn'] and stored >> (w - 1) else stored
            if want_val >= 1 << 63: want_val -= 1 << 64          # the harness prints through a long
            if dumpx != want_dump or rb != want_val or aval != want_val:
                run.violation(dict(kind='bit-field-access', struct='struct { %s }' % ' '.join('%s %s%s;' % (x['ty'], x['name'], ' : %d' % x['bf'] if x['bf'] is not None else '') for x in structs[k]),
                                   member=m['name'], previous_bytes=pat.hex(), stored_value=v, bytes_after=dumpx, expected_bytes=want_dump, read_back=rb, assignment_value=aval, expected_value=want_val,
                                   how='memcpy the bytes into the struct, s.member = value, dump the bytes, read the member'), dict(area='bitfield', construct='store-load'))
            if m['ty'] != '_Bool' and i < len(mo) and len(mo[i]) == 2:
                unit_after = int(dumpx[2 * off:2 * (off + m['size'])] and bytes.fromhex(dumpx[2 * off:2 * (off + m['size'])])[::-1].hex(), 16)
                mv = int(mo[i][1]); mv = mv - (1 << 64) if mv >= 1 << 63 else mv
                if int(mo[i][0]) != unit_after or mv != rb:
                    run.corr_broken.append('bit-field model differs from chibicc: struct %d member %s value %d: model unit %s value %s, chibicc unit %d value %d' % (k, m['name'], v, mo[i][0], mo[i][1], unit_after, rb))

    # ---------------- (b) aggregates: lvalue paths ----------------
    NB = 25 if run.quick() else 250
    class TG:
        def __init__(s, rng): s.rng = rng; s.defs = []; s.n = 0
        def ty(s, depth):
            r = s.rng.random()
            if depth <= 0 or r < 0.35: return s.rng.choice(['char', 'short', 'int', 'long', 'unsigned char', 'float', 'double', 'long double', 'void *'])
            s.n += 1; name = 'A%d' % s.n; kind = 'struct' if r < 0.8 else 'union'
            ms = []
            for j in range(s.rng.randint(1, 4)):
                t = s.ty(depth - 1)
                if s.rng.random() < 0.2 and t.split()[0] in ('struct', 'union'):
                    ms.append((None, t, None))      # anonymous member
                else:
                    dims = '' if s.rng.random() < 0.7 else '[%d]' % s.rng.randint(1, 3)
                    ms.append(('f%d_%d' % (s.n, j), t, dims))
            s.defs.append((kind, name, ms))
            return '%s %s' % (kind, name)
        def decls(s):
            out = []
            for kind, name, ms in s.defs:
                body = []
                for mn, t, dims in ms:
                    if mn is None:
                        # inline the referenced aggregate anonymously
                        k2, n2 = t.split(); ref = next(d for d in s.defs if d[1] == n2)
                        body.append('%s { %s };' % (k2, ' '.join(s.member_text(m) for m in ref[2])))
                    else: body.append(s.member_text((mn, t, dims)))
                out.append('%s %s { %s };' % (kind, name, ' '.join(body)))
            return out
        def member_text(s, m):
            mn, t, dims = m
            if mn is None:
                k2, n2 = t.split(); ref = next(d for d in s.defs if d[1] == n2)
                return '%s { %s };' % (k2, ' '.join(s.member_text(x) for x in ref[2]))
            return '%s %s%s;' % (t, mn, dims or '')
        def leaves(s, t, prefix, in_union=False):
            if t.split()[0] not in ('struct', 'union'): return [(prefix, t, in_union)]
            kind, name = t.split(); ref = next(d for d in s.defs if d[1] == name)
            out = []
            for mn, mt, dims in ref[2]:
                u = in_union or kind == 'union'
                if mn is None: out += s.leaves(mt, prefix, u)
                elif dims:
                    for i in range(int(dims[1:-1])): out += s.leaves(mt, '%s.%s[%d]' % (prefix, mn, i), u)
                else: out += s.leaves(mt, '%s.%s' % (prefix, mn), u)
            return out
    progs = []
    for k in range(NB):
        g = TG(rng); top = g.ty(3)
        if top.split()[0] not in ('struct', 'union'): continue
        leaves = g.leaves(top, 'X')
        if not leaves or len(leaves) > 60: continue
        lines = ['int printf(const char *, ...); void *memset(void *, int, unsigned long);'] + g.decls()
        lines.append('static void dump(void *p, int n) { for (int i = 0; i < n; i++) printf("%02x", ((unsigned char *)p)[i]); printf(" "); }')
        lines.append('static void dumpT(%s *q, int strict) {' % top)
        for path, t, in_u in leaves:
            lines.append('  if (!(strict && %d)) dump(&q->%s, %s);' % (1 if in_u else 0, path[2:], '10' if t == 'long double' else 'sizeof(q->%s)' % path[2:]))
        lines.append('  printf("\\n"); }')
        lines.append('%s g1, g2, ga[3];' % top)
        lines.append('%s byval(%s a, int k, %s b) { if (k) return a; return b; }' % (top, top, top))
        lines.append('int main(void) { %s l1; %s *p = &g1; memset(&g1, 0xAA, sizeof g1); memset(&l1, 0x55, sizeof l1); memset(ga, 0x11, sizeof ga);' % (top, top))
        val = 1
        for path, t, in_u in leaves:
            for form in ['g1%s', 'p->%s' , '(*p)%s', 'ga[1]%s', '(ga + 2)->%s', 'l1%s', '(&l1)->%s']:
                lv = (form % path[1:]) if '%s' in form and not form.startswith('p->') and not form.startswith('(ga + 2)->') and not form.startswith('(&l1)->') else form % path[2:]
                val += 1
                v = ('(void *)%d' % val) if t == 'void *' else ('%d' % (val % 100))
                lines.append('  %s = %s;' % (lv, v))
            lines.append('  printf("%%d\\n", (int)(long)%s + (int)(long)%s);' % ('g1' + path[1:], 'l1' + path[1:]))
        lines.append('  dumpT(&g1, 0); dumpT(&l1, 0); dumpT(&ga[1], 0); dumpT(&ga[2], 0);')
        lines.append('  g2 = g1; dumpT(&g2, 0); ga[0] = *p; dumpT(&ga[0], 0); l1 = ga[2]; dumpT(&l1, 0);')
        lines.append('  g2 = byval(l1, 1, g1); dumpT(&g2, 0); g2 = byval(l1, 0, g1); dumpT(&g2, 0); ga[1] = (%s){0}; dumpT(&ga[1], 1); dumpT(&ga[0], 0); dumpT(&ga[2], 0);' % top)
        lines.append('  { %s *q = &(%s){0}; *q = g1; dumpT(q, 0); }' % (top, top))
        lines.append('  return 0; }')
        f = os.path.join(wd, 'ag%d.c' % k); open(f, 'w').write('\n'.join(lines) + '\n'); progs.append(f)
    def one_b(f): return f, build_run(f, 'chibicc'), build_run(f, 'gcc')
    for f, (o1, w1), (o2, w2) in pmap(one_b, progs):
        evals += 1
        if o2 is None: count('aggregate-gcc-rejects'); continue
        nontriv += 1; count('aggregate-program')
        if o1 != o2:
            l1 = (o1 or '').split('\n'); l2 = o2.split('\n'); d = next((i for i in range(min(len(l1), len(l2))) if l1[i] != l2[i]), min(len(l1), len(l2)))
            run.violation(dict(kind='aggregate-access', program=open(f).read(), first_differing_output_line=d, chibicc=(l1[d] if d < len(l1) else w1)[:300], gcc=(l2[d] if d < len(l2) else '')[:300],
                               how='compile and run with both compilers; lines are read-backs and byte dumps after writing every leaf through seven lvalue spellings'), dict(area='aggregate', construct='paths'))

    # ---------------- (b2) whole-object copies over a sweep of sizes ----------------
    # every size 1..272 and sizes around larger powers of two, as char and as int arrays: plain =, through pointers, chained, from a call,
    # from a compound literal, from ?: - the destination must equal the source and the 16 guard bytes on each side must be untouched
    sizes = list(range(1, 273)) + [511, 512, 513, 1023, 1025, 4095, 4097, 65537]
    if run.quick(): sizes = [n for n in sizes if n <= 40 or n % 8 in (0, 1, 4, 7) or n > 272]
    L = ['int printf(const char *, ...); void *memset(void *, int, unsigned long); int memcmp(const void *, const void *, unsigned long);',
         'static int guard(char *g) { for (int i = 0; i < 16; i++) if (g[i] != 0x5a) return 0; return 1; }']
    for n in sizes:
        et, cnt = ('int', n // 4) if n % 4 == 0 and n % 8 == 4 else ('char', n)
        L.append('struct S%d { %s b[%d]; };' % (n, et, cnt))
        L.append('static struct S%d mk%d(int s) { struct S%d r; for (int i = 0; i < %d; i++) ((char *)&r)[i] = (char)(s + i * 7); return r; }' % (n, n, n, n))
        L.append('static struct { char g0[16]; struct S%d d; char g1[16]; struct S%d s; char g2[16]; struct S%d e; char g3[16]; } x%d;' % (n, n, n, n))
        L.append('static void chk%d(int v) { if (memcmp(&x%d.d, &x%d.s, %d) || !guard(x%d.g0) || !guard(x%d.g1) || !guard(x%d.g2) || !guard(x%d.g3)) printf("%d:%%d ", v); memset(&x%d.d, 0, %d); }' % (n, n, n, n, n, n, n, n, n, n, n))
        L.append(('static void t{n}(int k) { memset(&x{n}, 0x5a, sizeof x{n}); x{n}.s = mk{n}(3); x{n}.d = x{n}.s; chk{n}(1); struct S{n} *p = &x{n}.d, *q = &x{n}.s; *p = *q; chk{n}(2);'
                 ' x{n}.d = x{n}.e = x{n}.s; chk{n}(3); x{n}.d = mk{n}(3); chk{n}(4); x{n}.d = k ? x{n}.s : x{n}.e; chk{n}(5); x{n}.d = (struct S{n}){0}; x{n}.d = *&x{n}.s; chk{n}(6);'
                 ' struct S{n} l = x{n}.s; x{n}.d = l; chk{n}(7); }').replace('{n}', str(n)))
    L.append('int main(int argc, char **argv) {')
    for n in sizes: L.append('  t%d(argc);' % n)
    L.append('  printf("done\\n"); return 0; }')
    f = os.path.join(wd, 'copysweep.c'); open(f, 'w').write('\n'.join(L) + '\n')
    o1, w1 = build_run(f, 'chibicc'); o2, w2 = build_run(f, 'gcc')
    evals += len(sizes); count('copy-size', len(sizes))
    if o2 != 'done\n': run.corr_broken.append('copy sweep program is wrong under gcc: %s %s' % (o2, w2))
    elif o1 != 'done\n':
        run.violation(dict(kind='aggregate-copy', failing='size:variant list: ' + (o1 if o1 is not None else w1)[:300], program_head='\n'.join(L[:8]),
                           how='struct Sn { char|int b[..]; } of n bytes copied by =, *p = *q, chained =, from a call, ?:, compound literal, local: destination equals source, 16 guard bytes on each side untouched; variants 1-7'),
                      dict(area='aggregate', construct='copy-size'))
    else: nontriv += len(sizes)

    # ---------------- (b3) objects whose type ends in a flexible array member ----------------
    # such an object occupies at least sizeof(struct) bytes, also when its initialized flexible part is shorter than the tail padding; a whole-struct
    # store through a pointer writes sizeof(struct) bytes and must leave the neighbouring objects (and flexible elements beyond sizeof) alone
    NF = 12 if run.quick() else 80
    L = ['int printf(const char *, ...); int bad;']; calls = []
    for k in range(NF):
        pre = [rng.choice(['char', 'short', 'int', 'long', 'long double', 'char']) for _ in range(rng.randint(1, 3))]
        if rng.random() < 0.6: pre[0] = rng.choice(['long', 'int', 'long double'])      # tail padding needs an aligned member before a small one
        if rng.random() < 0.6: pre.append('char')
        fet = rng.choice(['char', 'char', 'short', 'int'])
        al = rng.choice(['', '', '_Alignas(16) ', '_Alignas(32) '])
        L.append('struct F%d { %s%s %s d[]; };' % (k, al, ' '.join('%s m%d;' % (t, i) for i, t in enumerate(pre)), fet))
        objs = []; decl = []
        for j in range(rng.randint(2, 4)):
            st, sv = rng.choice([('char', 0x11), ('short', 0x2222), ('int', 0x33333333), ('char', 0x44)])
            decl.append('%s%s s%d_%d = %d;' % (rng.choice(['', 'static ']), st, k, j, sv + j))
            nfl = rng.choice([0, 0, 1, 2, 3, 5, 9])
            init = ', '.join(str(i + 1) for i in range(len(pre))) + (', { %s }' % ', '.join(str(40 + i) for i in range(nfl)) if nfl else '')
            decl.append('%sstruct F%d o%d_%d = { %s };' % (rng.choice(['', 'static ']), k, k, j, init)); objs.append((j, nfl, st, sv + j))
        decl.append('char e%d = 0x55;' % k)
        L.append(' '.join(decl)); L.append('struct F%d src%d = { %s };' % (k, k, ', '.join(str(90 + i) for i in range(len(pre)))))
        body = ['static void f%d(void) { struct F%d *p; int sz = (int)sizeof(struct F%d);' % (k, k, k)]
        for j, nfl, st, sv in objs:
            body.append('  p = &o%d_%d; if ((unsigned long)p %% _Alignof(struct F%d)) { bad++; printf("F%d: o%d_%d misaligned\\n"); }' % (k, j, k, k, k, j))
            body.append('  %s p->m0 = src%d.m0;' % ('*p = src%d;' % k if rng.random() < 0.8 else '{ struct F%d tmp = src%d; *p = tmp; }' % (k, k), k))
        for j, nfl, st, sv in objs:
            body.append('  if (s%d_%d != %d) { bad++; printf("F%d: s%d_%d clobbered\\n"); }' % (k, j, sv, k, k, j))
            body.append('  if (o%d_%d.m0 != 90 || o%d_%d.m%d != %d) { bad++; printf("F%d: o%d_%d not stored\\n"); }' % (k, j, k, j, len(pre) - 1, 90 + len(pre) - 1, k, k, j))
            for i in range(nfl):
                body.append('  if ((int)((char *)&o%d_%d.d[%d] - (char *)&o%d_%d) >= sz && o%d_%d.d[%d] != %d) { bad++; printf("F%d: o%d_%d.d[%d] clobbered\\n"); }' % (k, j, i, k, j, k, j, i, 40 + i, k, k, j, i))
        body.append('  if (e%d != 0x55) { bad++; printf("F%d: e clobbered\\n"); } }' % (k, k))
        L.append('\n'.join(body)); calls.append('f%d();' % k)
    L.append('int main(void) { %s printf("done %%d\\n", bad); return 0; }' % ' '.join(calls))
    f = os.path.join(wd, 'famobjects.c'); open(f, 'w').write('\n'.join(L) + '\n')
    o1, w1 = build_run(f, 'chibicc'); o2, w2 = build_run(f, 'gcc')
    evals += NF; count('fam-object', NF)
    if o2 != 'done 0\n': run.corr_broken.append('flexible-array-member program is wrong under gcc: %s %s' % (o2, (w2 or '')[-300:]))
    elif o1 != 'done 0\n':
        run.violation(dict(kind='fam-object', failing=(o1 if o1 is not None else w1)[:400], program=open(f).read()[:6000],
                           how='objects of struct types ending in a flexible array member between sentinel objects; *p = src through a pointer; sentinels, stored members, flexible elements beyond sizeof and alignment checked by the program itself (prints done 0); gcc prints done 0'),
                      dict(area='aggregate', construct='fam-object'))
    else: nontriv += NF

    # ---------------- (c) element addresses ----------------
    ITY = [('signed char', 8, True), ('unsigned char', 8, False), ('short', 16, True), ('unsigned short', 16, False), ('int', 32, True), ('unsigned', 32, False), ('long', 64, True), ('unsigned long', 64, False)]
    ETY = [('char', 1), ('short', 2), ('int', 4), ('long', 8), ('struct E12', 12), ('struct E70000', 70000), ('int[1024]', 4096), ('long double', 16)]
    lines = ['int printf(const char *, ...); struct E12 { int a[3]; }; struct E70000 { char c[70000]; };', 'int main(void) {']
    cases = []
    NC = 120 if run.quick() else 1200
    for k in range(NC):
        it, ibits, isg = rng.choice(ITY); et, es = rng.choice(ETY)
        lo, hi = (-(1 << (ibits - 1)), (1 << (ibits - 1)) - 1) if isg else (0, (1 << ibits) - 1)
        idx = rng.choice([0, 1, hi, hi // 2 + 1, lo, rng.randint(lo, hi), (1 << 31) // es, (1 << 31) // es + 1, (1 << 32) // es, (1 << 32) // es + 1, 0x20000000, 0x80001, 32767])
        idx = max(lo, min(hi, idx))
        base = 0x100000000000
        form = rng.choice(['p + i', 'i + p', '&p[i]', 'p - (-i)' if isg else 'p + i', '(p += i)', '&(*(p + i))'])
        if form == 'p - (-i)' and (idx == lo or ibits < 32): form = 'p + i'      # -i would overflow (or promote differently)
        ptr = '%s (*p)' % et.split('[')[0] + ('[1024]' if '[' in et else '') if '[' in et else '%s *p' % et
        lines.append('  { volatile %s i = %d; %s = (void *)0x%xUL; printf("%%lu\\n", (unsigned long)(%s)); }' % (it, idx, ptr, base, form))
        cases.append((it, et, es, idx, form, base))
    lines.append('  return 0; }')
    f = os.path.join(wd, 'ea.c'); open(f, 'w').write('\n'.join(lines) + '\n')
    out, why = build_run(f, 'chibicc')
    rc, mo, me = sh([MODELRUN, 'bf'], input='\n'.join('ea %d %d %d' % (b, i % (1 << 64), s) for (_, _, s, i, _, b) in cases) + '\n', timeout=60)
    mo = mo.split()
    if out is None:
        run.violation(dict(kind='valid-program-rejected', why=why, program=open(f).read()[:2000]), dict(area='address', construct='rejected'))
    else:
        got = out.split()
        for k, (it, et, es, idx, form, base) in enumerate(cases):
            evals += 1; nontriv += 1; count('element-address')
            want = (base + idx * es) % (1 << 64)
            g = int(got[k]) if k < len(got) else None
            if k < len(mo) and int(mo[k]) != g: run.corr_broken.append('elem_addr model %s, chibicc %s for %s index %d of %s' % (mo[k], g, it, idx, et))
            if g != want:
                run.violation(dict(kind='element-address', index_type=it, index=idx, element_type=et, element_size=es, expression=form, address=g, expected=want,
                                   how='volatile index, pointer p = (void *)0x100000000000, print (unsigned long)(expression)'), dict(area='address', construct='scaling'))

    # ---------------- (d) VLA / alloca ----------------
    ND = 20 if run.quick() else 150
    vprogs = []
    for k in range(ND):
        n1, n2, n3 = rng.randint(1, 200), rng.randint(1, 5000), rng.randint(1, 33)
        et = rng.choice(['char', 'short', 'int', 'long', 'long double', 'struct { char c[%d]; }' % rng.randint(1, 30)])
        text = '''int printf(const char *, ...); void *memset(void *, int, unsigned long); void *alloca(unsigned long);
typedef %s ET;
static int bad;
static void chk(unsigned char *p, long n, int v, int line) { for (long i = 0; i < n; i++) if (p[i] != v) { bad++; printf("corrupt line %%d\\n", line); return; } }
static void overlap(void *a, long an, void *b, long bn, int line) { unsigned long x = (unsigned long)a, y = (unsigned long)b; if (x < y + bn && y < x + an) { bad++; printf("overlap line %%d\\n", line); } }
static long many(long a, long b, long c, long d, long e, long f, long g, long h, void *p, long double x) { memset(p, 0x77, 8); return a + h + (long)x; }
static long work(int n1, int n2, int depth) {
  int local = 0x12345678; long double ld = 2.5L;
  ET v1[n1]; memset(v1, 0x41, sizeof v1);
  if (sizeof v1 != n1 * sizeof(ET)) { bad++; printf("sizeof vla\\n"); }
  if ((unsigned long)v1 %% _Alignof(ET)) { bad++; printf("vla alignment\\n"); }
  char *a1 = alloca(n2); memset(a1, 0x42, n2);
  if ((unsigned long)a1 %% 16) { bad++; printf("alloca alignment %%lu\\n", (unsigned long)a1 %% 16); }
  overlap(v1, sizeof v1, a1, n2, __LINE__); overlap(v1, sizeof v1, &local, sizeof local, __LINE__); overlap(a1, n2, &ld, sizeof ld, __LINE__);
  long s = 0;
  for (int i = 0; i < %d; i++) {
    char v2[i + 1][3]; memset(v2, 0x43, sizeof v2);
    char *a2 = alloca(i * 7 + 1); memset(a2, 0x44, i * 7 + 1);
    overlap(v2, sizeof v2, a2, i * 7 + 1, __LINE__); overlap(v2, sizeof v2, v1, sizeof v1, __LINE__); overlap(a2, i * 7 + 1, a1, n2, __LINE__);
    s += many(1, 2, 3, 4, 5, 6, 7, 8, alloca(16), ld + i) + sizeof v2;
    chk((unsigned char *)v2, sizeof v2, 0x43, __LINE__); chk((unsigned char *)a2, i * 7 + 1, 0x44, __LINE__);
  }
  if (depth > 0) s += work(n1 / 2 + 1, n2 / 3 + 1, depth - 1);
  chk((unsigned char *)v1, sizeof v1, 0x41, __LINE__); chk((unsigned char *)a1, n2, 0x42, __LINE__);
  if (local != 0x12345678 || ld != 2.5L) { bad++; printf("local clobbered\\n"); }
  return s;
}
int main(void) { long s = work(%d, %d, 2); printf("%%ld %%d\\n", s, bad); return bad != 0; }
''' % (et, n3, n1, n2)
        f = os.path.join(wd, 'vla%d.c' % k); open(f, 'w').write(text); vprogs.append(f)
    def one_d(f): return f, build_run(f, 'chibicc'), build_run(f, 'gcc')
    for f, (o1, w1), (o2, w2) in pmap(one_d, vprogs):
        evals += 1
        if o2 is None: run.corr_broken.append('VLA self-check program is rejected or fails under gcc: %s %s' % (os.path.basename(f), w2)); continue
        nontriv += 1; count('vla-alloca-program')
        if o1 is None or o1 != o2:
            run.violation(dict(kind='vla-alloca', program=open(f).read(), chibicc=(o1 if o1 is not None else w1)[:400], gcc=o2[:200],
                               how='self-checking program: sizes, alignment, overlap of live VLA/alloca/locals, contents after further allocations and calls'), dict(area='vla', construct='overlap-or-alignment'))

    cov = dict(evaluations=evals, distinct_nontrivial=nontriv, input_distribution=dist, samples=samples,
               rule='(a) %d structs mixing ordinary members with bit-fields of 10 base types and widths 1..64: two stores per bit-field over random previous bytes with boundary and random values: bytes after, value of the assignment and value read back = bit-exact expectation (only the field\'s bits change) = extracted bf_store/bf_load on the unit placed by the C08 layout model; (b) %d generated aggregate types (nesting <= 3, unions, arrays, anonymous members, all scalar leaf types): every leaf written through 7 lvalue spellings, whole-object assignment, by-value passing/returning, compound literals: dumps = gcc; (c) %d address computations (8 index types x 8 element types x 6 spellings, products beyond 2^31 and 2^32) = exact = extracted elem_addr; (d) %d VLA/alloca self-checking programs (recursion depth 2, loops, calls with stack arguments and alloca in the argument list)' % (NA, len(progs), NC, ND),
               traces_validated_against_impl=nontriv)
    return run.finish(cov,
        ['gcc 12 -O0 gives the reference dumps for aggregates (same psABI layout: C08); the bit-field expectation is computed from the layout model and plain bit arithmetic',
         'packed structs appear only in the bit-field part (chibicc own layout, tied to the layout model); packed aggregates elsewhere are C08 matter'],
        ['Coq 8.16.1 kernel, no axioms', 'hand-written Model/Bitfield.v (register-level shl/shr/sar/and/or sequences on Z) tied by (a) and (c); Model/Layout.v (C08) supplies unit offsets',
         'gen_addr for nested members, aggregate copy loops, compound literals, VLA/alloca lowering are NOT modelled: (b) and (d) are differential/self-checking tests only'])

if __name__ == '__main__':
    sys.exit(main())
