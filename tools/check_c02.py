#!/usr/bin/env python3
"""C02 - floating-point arithmetic and conversions are bit-exact.
   proofs (the unsigned 64-bit -> floating conversion by halving with a sticky bit equals direct
   round-to-nearest-even for every value >= 2^63, and fails without the sticky bit; the cast-table
   rows regenerated from codegen.c compose the hardware primitives into the C11 conversion for
   every defined argument) + correspondence (every defined operation, raw bytes, against gcc):
   (a) all 13x13 conversions between arithmetic types at boundary and random values, at run time
       (volatile operands) and in static initializers (constant folding);
   (b) + - * / == != < <= > >= unary - ! truth tests on float, double, long double over boundary
       classes (0, -0, denormals, 2^24, 2^53, 2^63, 2^64, inf, NaN, values rounding differently);
   (c) floating constants (decimal/hex, suffixes, rounding boundaries);
   (d) default argument promotion of float in variadic calls."""
import os, sys, time, random, json, re, struct, math
sys.path.insert(0, os.path.dirname(os.path.abspath(__file__)))
from vlib import *
import gen_casttable

PID = 'C02'
THEOREMS = ['C02_u64_halving_is_rne_f64', 'C02_u64_halving_is_rne_f32', 'C02_sticky_bit_needed', 'C02_fp_rows_correct', 'C02_nonvacuous',
            # package fpgen (Properties_C02_fpgen.v; Flocq): IEEE-754 spec of float/double/long double expressions, SSE and x87 machine models, the code gen_expr emits, correctness of whole trees
            'C02_fp_typing', 'C02_fp_feq_meaning', 'C02_fp_neg_bits32', 'C02_fp_neg_bits64', 'C02_fp_arith', 'C02_fp_compare', 'C02_fp_swap', 'C02_fp_truth', 'C02_fp_rne_is_flocq',
            'C02_fp_u64_to_float', 'C02_fp_u64_to_double', 'C02_fp_float_to_u64', 'C02_fp_double_to_u64', 'C02_fp_cast_rows', 'C02_fp_all_rows_modelled', 'C02_fp_expr_correct', 'C02_fp_run_correct',
            'C02_fp_wt_modelled', 'C02_fp_expr_correct_wt', 'C02_fp_run_correct_wt', 'C02_fp_flatten_simulates', 'C02_fp_expr_code_correct', 'C02_ld_rows_in', 'C02_ld_value_correct',
            'C02_ld_compare_correct', 'C02_ld_not_correct', 'C02_ld_cast_correct', 'C02_fp_expr_nonvacuous', 'C02_fp_nan_nonvacuous', 'C02_fp_rows_nonvacuous', 'C02_fp_table_text', 'C02_ld_nonvacuous']
MODELRUN = os.path.join(VERIF, 'ocaml/modelrun')

ITY = {'_Bool': (1, False), 'char': (8, True), 'signed char': (8, True), 'unsigned char': (8, False), 'short': (16, True), 'unsigned short': (16, False), 'int': (32, True), 'unsigned': (32, False),
       'long': (64, True), 'unsigned long': (64, False)}
FTY = ['float', 'double', 'long double']
ALL = list(ITY) + FTY

def irange(t):
    b, s = ITY[t]
    if t == '_Bool': return 0, 1
    return (-(1 << (b - 1)), (1 << (b - 1)) - 1) if s else (0, (1 << b) - 1)

def ilit(v):
    if v == -(1 << 63): return '(-9223372036854775807L-1)'
    if v >= 1 << 63: return '%dUL' % v
    if v >= 1 << 31 or v < -(1 << 31): return '%dL' % v
    return '(%d)' % v

FVALS = ['0.0', '-0.0', '1.0', '-1.0', '0.5', '1.5', '2.5', '-2.5', '0.1', '0x1p-149', '0x1p-126', '0x1.fffffep127', '0x1p-1074', '0x1p-1022', '0x1.fffffffffffffp1023', '16777216.0', '16777217.0', '16777219.0',
         '9007199254740992.0', '9007199254740993.0', '9007199254740995.0', '2147483647.0', '2147483648.0', '-2147483648.0', '-2147483649.0', '4294967295.0', '4294967296.0', '9223372036854775807.0',
         '9223372036854775808.0', '9223373136366403584.0', '18446744073709549568.0', '-9223372036854775808.0', '255.9', '256.0', '-0.9', '127.5', '-128.5', '65535.5', '32767.9', '1e10', '1e19', '3.999', '1e-5',
         '0x1.000001p0', '0x1.0000000000001p0', '0x1.00000100000000000001p0', '0x1.8p-150', '0x1p-150', '0x1.8p-1075', '123456789.123456789']
SPECIAL = ['(1.0/zero)', '(-1.0/zero)', '(zero/zero)']

def fval(s):
    try: return float.fromhex(s) if 'x' in s else float(s)
    except Exception: return None

def main():
    run = Run(PID, THEOREMS)
    rng = run.rng
    try:
        src = build_impl()
    except BuildFailed as e:
        run.proof_broken.append('scratch build of /repo failed: ' + str(e)[-800:])
        return run.finish(dict(evaluations=0), [], [])
    wd = scratch_dir()
    try:
        gen_casttable.gen(REPO, os.path.join(COQ, 'theories/Gen/CastTable.v'))
    except GenError as e:
        run.proof_broken.append('translator: ' + str(e))
    run.check_proofs(deps=['theories/Proofs/FloatConvProofs.vo'], extra=['fpgen'])
    NCORPUS = run_corpus(run, PID, src)          # minimised past failures first
    chibi = os.path.join(src, 'chibicc')
    evals = 0; nontriv = 0; dist = {}; samples = []
    def count(k, n=1): dist[k] = dist.get(k, 0) + n
    HDR = ('int printf(const char *, ...);\nstatic void dump(int id, void *p, int n) { printf("%d ", id); for (int i = 0; i < n; i++) printf("%02x", ((unsigned char *)p)[i]); printf("\\n"); }\n'
           'volatile double zero = 0.0;\n')
    def size_of(t): return 10 if t == 'long double' else {'float': 4, 'double': 8}.get(t) or (1 if t in ('_Bool', 'char', 'signed char', 'unsigned char') else ITY[t][0] // 8)
    def both(name, text):
        f = os.path.join(wd, name); open(f, 'w').write(text)
        res = []
        for cc in ('chibicc', 'gcc'):
            exe = f + '.' + cc
            rc, o, e = sh(([chibi] if cc == 'chibicc' else ['gcc', '-w', '-O0', '-std=gnu11', '-frounding-math', '-fsignaling-nans', '-fno-builtin']) + ['-o', exe, f], timeout=300)
            if rc != 0: res.append((None, 'compile: ' + e[-400:])); continue
            rc, o, e = sh([exe], timeout=60)
            res.append((dict(l.split(' ', 1) for l in o.strip().split('\n') if ' ' in l) if rc == 0 else None, 'exit %d' % rc))
        return res

    # ---------------- (a) conversions ----------------
    cases = []    # (id, from, to, literal, mode)
    def defined(frm, to, v):
        """is the conversion of the (exact) value v of type frm to type to defined by C11? v is a Python int or float"""
        if to in FTY or to == '_Bool': return True
        if isinstance(v, float):
            if math.isnan(v) or math.isinf(v): return False
            tv = math.trunc(v)
        else: tv = v
        lo, hi = irange(to)
        if frm in FTY: return lo <= tv <= hi
        return True      # integer -> integer is always defined (modular / implementation-defined)
    k = 0
    for frm in ALL:
        for to in ALL:
            vals = []
            if frm in ITY:
                lo, hi = irange(frm)
                pts = [lo, hi, 0, 1, -1, 2, 127, 128, 255, 256, 32767, 32768, 65535, 65536, (1 << 24) + 1, (1 << 31) - 1, 1 << 31, (1 << 32) - 1, (1 << 53) + 1, (1 << 62) + 1, (1 << 63) - 1, 1 << 63, (1 << 63) + 1025, (1 << 63) + 1024,
                       (1 << 63) + 0x401, (1 << 64) - 1, (1 << 64) - 1025, 0x8000008000000001, 0x8000010000000000, 0xFFFFFF8000000000, 0xFFFFFE8000000001, -(1 << 24) - 1, -(1 << 53) - 1, hi // 3, lo // 3 if lo else 5]
                pts = sorted(set(p for p in pts if lo <= p <= hi))
                sel = pts if not run.quick() else rng.sample(pts, min(len(pts), 8)) + [p for p in pts if p >= 1 << 63][:4]
                vals = [(ilit(v), v) for v in sorted(set(sel))]
            else:
                fv = [(s + ('f' if frm == 'float' else 'L' if frm == 'long double' else ''), fval(s)) for s in FVALS]
                if frm == 'float': fv = [(l, v) for l, v in fv if v is not None and (v == 0 or 1e-46 < abs(v) < 3.5e38)]
                fv += [('(%s)%s' % (frm, s), float('nan') if 'zero/zero' in s else float('inf') if not s.startswith('(-') else float('-inf')) for s in SPECIAL]
                sel = fv if not run.quick() else rng.sample(fv, 14) + fv[-3:]
                vals = sel
            for litx, v in vals:
                if v is None: continue
                if frm == 'float' and isinstance(v, float) and not (math.isnan(v) or math.isinf(v)):
                    v = struct.unpack('f', struct.pack('f', v))[0] if abs(v) < 3.4e38 else v
                if not defined(frm, to, v): continue
                cases.append((k, frm, to, litx)); k += 1
    # run time + static initializer versions, chunked
    CH = 400
    for ci in range(0, len(cases), CH):
        ch = cases[ci:ci + CH]
        text = HDR
        for (i, frm, to, litx) in ch:
            if 'zero' not in litx: text += 'static %s s%d = (%s)(%s)%s;\n' % (to, i, to, frm, litx)
        text += 'int main(void) {\n'
        for (i, frm, to, litx) in ch:
            text += '  { volatile %s a = %s; %s r = (%s)a; dump(%d, &r, %d); }\n' % (frm, litx, to, to, 2 * i, size_of(to))
            if 'zero' not in litx: text += '  dump(%d, &s%d, %d);\n' % (2 * i + 1, i, size_of(to))
        text += '  return 0; }\n'
        (c, cw), (g, gw) = both('conv%d.c' % ci, text)
        if g is None: run.corr_broken.append('conversion chunk %d fails under gcc: %s' % (ci, gw)); continue
        if c is None:
            run.violation(dict(kind='valid-program-rejected', why=cw), dict(area='conversion', construct='rejected')); continue
        for (i, frm, to, litx) in ch:
            for tag, key in (('run-time', str(2 * i)), ('static-initializer', str(2 * i + 1))):
                if key not in g: continue
                evals += 1; nontriv += 1; count('conversion-' + tag)
                if c.get(key) != g[key]:
                    run.violation(dict(kind='conversion', source_type=frm, target_type=to, operand=litx, evaluated=tag, chibicc_bytes=c.get(key), gcc_bytes=g[key],
                                       how='(%s)(%s)%s; object bytes of the result, little endian' % (to, frm, litx)), dict(area='conversion', construct='%s->%s' % (frm, to), evaluated=tag))

    # ---------------- (b) operators ----------------
    ops = ['+', '-', '*', '/']; cmps = ['==', '!=', '<', '<=', '>', '>=']
    ocases = []; k = 0
    for t in FTY:
        sfx = 'f' if t == 'float' else 'L' if t == 'long double' else ''
        pool = [s + sfx for s in FVALS if fval(s) is not None and (t != 'float' or fval(s) == 0 or 1e-46 < abs(fval(s)) < 3.5e38)] + ['(%s)%s' % (t, s) for s in SPECIAL]
        n = 60 if run.quick() else 700
        for _ in range(n):
            a, b = rng.choice(pool), rng.choice(pool)
            o = rng.choice(ops + cmps + ['neg', 'not', 'truth', 'and', 'cond'] + ['!' + c for c in cmps] + ['if!' + c for c in cmps[2:]])
            ocases.append((k, t, o, a, b)); k += 1
        # ++ / -- on floating objects: the postfix forms yield the OLD value also where old + 1 - 1 != old
        for a in ['1e-10' + sfx, '1e30' + sfx, '16777216.0' + sfx, '-0.0' + sfx, '0.5' + sfx, '9007199254740992.0' + sfx, '(%s)(1.0 / zero)' % t]:
            for o in ('a++', 'a--', '++a', '--a'):
                ocases.append((k, t, o, a, 'value')); k += 1
                ocases.append((k, t, o, a, 'object')); k += 1
        # the negation of every comparison with an unordered operand (C11 7.12.14: a relational operator on NaN is 0, so its negation is 1)
        for c_ in cmps:
            for (a, b) in (('(%s)(zero / zero)' % t, '1.0' + sfx), ('1.0' + sfx, '(%s)(zero / zero)' % t)):
                ocases.append((k, t, '!' + c_, a, b)); k += 1
                ocases.append((k, t, 'if!' + c_, a, b)); k += 1
    text = HDR + 'int main(void) {\n'
    for (i, t, o, a, b) in ocases:
        pre = '  { volatile %s a = %s, b = %s; ' % (t, a, b)
        if o in ops: text += pre + '%s r = a %s b; dump(%d, &r, %d); }\n' % (t, o, i, size_of(t))
        elif o in cmps: text += pre + 'int r = a %s b; dump(%d, &r, 4); }\n' % (o, i)
        elif o.startswith('if!'): text += pre + 'int r = 0; if (!(a %s b)) r = 1; while (!(b %s a)) { r += 2; break; } r += 4 * (!(a %s b) ? 1 : 0); dump(%d, &r, 4); }\n' % (o[3:], o[3:], o[3:], i)
        elif o.startswith('!'): text += pre + 'int r = !(a %s b); dump(%d, &r, 4); }\n' % (o[1:], i)
        elif o in ('a++', 'a--', '++a', '--a'): text += '  { volatile %s a = %s; %s r = %s; %s q = a; dump(%d, &%s, %d); }\n' % (t, a, t, o, t, i, 'r' if b == 'value' else 'q', size_of(t))
        elif o == 'neg': text += pre + '%s r = -a; dump(%d, &r, %d); }\n' % (t, i, size_of(t))
        elif o == 'not': text += pre + 'int r = !a; dump(%d, &r, 4); }\n' % i
        elif o == 'truth': text += pre + 'int r = 0; if (a) r = 1; while (b) { r += 2; break; } dump(%d, &r, 4); }\n' % i
        elif o == 'and': text += pre + 'int r = (a && b) + 2 * (a || b); dump(%d, &r, 4); }\n' % i
        else: text += pre + '%s r = a ? b : a; dump(%d, &r, %d); }\n' % (t, i, size_of(t))
    text += '  return 0; }\n'
    (c, cw), (g, gw) = both('ops.c', text)
    if g is None: run.corr_broken.append('operator program fails under gcc: ' + gw)
    elif c is None: run.violation(dict(kind='valid-program-rejected', why=cw), dict(area='operator', construct='rejected'))
    else:
        for (i, t, o, a, b) in ocases:
            evals += 1; nontriv += 1; count('operator')
            if c.get(str(i)) != g.get(str(i)):
                run.violation(dict(kind='operator', type=t, operator=o, a=a, b=b, chibicc_bytes=c.get(str(i)), gcc_bytes=g.get(str(i))), dict(area='operator', construct=o, type=t))

    # ---------------- (b2) folded double / float arithmetic: operands chosen so that rounding the exact result to 64 bits first and to the
    # type afterwards (the x87 / long double way) gives another value than rounding once (FLT_EVAL_METHOD 0): static initializer = run time = gcc
    from fractions import Fraction
    def rnd(q, prec):
        """round the positive Fraction q to `prec` significant bits, ties to even"""
        e = q.numerator.bit_length() - q.denominator.bit_length()
        if Fraction(2) ** e > q: e -= 1
        sc = Fraction(2) ** (e - prec + 1); n = q / sc; f = n.numerator // n.denominator; r = n - f
        if r > Fraction(1, 2) or (r == Fraction(1, 2) and f % 2): f += 1
        return f * sc
    def dbl(): return float.fromhex('0x1.%013xp%+d' % (rng.getrandbits(52), rng.randint(-3, 3)))
    fold = [('1.0 + (0x1p-53 + 0x1p-%d)' % k, None) for k in (65, 70, 75)] + [('(1.0 + 0x1p-52) - (0x1p-53 - 0x1p-%d)' % k, None) for k in (66, 72)]
    def rnd_int(m, shift):
        f = m >> shift; r = m & ((1 << shift) - 1); h = 1 << (shift - 1)
        return f + 1 if (r > h or (r == h and f & 1)) else f
    found = tries = 0
    while found < (10 if run.quick() else 80) and tries < 300000:          # products: 106-bit exact results, integer arithmetic
        tries += 1; ma, mb = (1 << 52) | rng.getrandbits(52), (1 << 52) | rng.getrandbits(52); p_ = ma * mb; L = p_.bit_length()
        r64 = rnd_int(p_, L - 64); r64 >>= (r64.bit_length() > 64)
        ra, rb = rnd_int(r64, 11), rnd_int(p_, L - 53); ra >>= (ra.bit_length() > 53); rb >>= (rb.bit_length() > 53)
        if ra != rb:
            a, b = float.fromhex('0x%xp%+d' % (ma, -52 + rng.randint(-3, 3))), float.fromhex('0x%xp%+d' % (mb, -52 + rng.randint(-3, 3)))
            fold.append(('%s * %s' % (a.hex(), b.hex()), None)); found += 1
    found = tries = 0
    while found < (4 if run.quick() else 30) and tries < 60000:             # quotients: exact rational arithmetic
        tries += 1; a, b = dbl(), dbl(); q = Fraction(a) / Fraction(b)
        if rnd(rnd(q, 64), 53) != rnd(q, 53): fold.append(('%s / %s' % (a.hex(), b.hex()), None)); found += 1
    ftxt = HDR + ''.join('static double fs%d = %s;\n' % (i, e) for i, (e, _) in enumerate(fold)) + 'int main(void) {\n'
    for i, (e, _) in enumerate(fold):
        va, vb = 'x', 'y'
        ftxt += '  { dump(%d, &fs%d, 8); double l = %s; dump(%d, &l, 8); }\n' % (2 * i, i, e, 2 * i + 1)
    ftxt += '  return 0; }\n'
    (c, cw), (g, gw) = both('fold.c', ftxt)
    if g is None: run.corr_broken.append('folding program fails under gcc: ' + gw)
    elif c is None: run.violation(dict(kind='valid-program-rejected', why=cw), dict(area='fold', construct='rejected'))
    else:
        for i, (e, _) in enumerate(fold):
            evals += 1; nontriv += 1; count('folded-double-arithmetic')
            for k, where in ((2 * i, 'static initializer'), (2 * i + 1, 'automatic initializer')):
                if c.get(str(k)) != g.get(str(k)):
                    run.violation(dict(kind='folded-arithmetic', expression=e, where=where, chibicc_bytes=c.get(str(k)), gcc_bytes=g.get(str(k)),
                                       meaning='a double constant expression whose exact value rounds differently when it is first rounded to 64 bits (long double) and then to 53'), dict(area='fold', construct=where)); break

    # ---------------- (c) constants ----------------
    lits = []
    for s in FVALS: lits += [s, s + 'f', s + 'L', s + 'F', s + 'l']
    lits += ['1.00000000000000011102230246251565404236316680908203126', '1.00000000000000011102230246251565404236316680908203124', '0.1f', '1e-45f', '7.0064923216240853546186479164495807e-46f', '3.4028235677973366e38f',
             '1.7976931348623158e308', '4.9406564584124654e-324', '2.4703282292062328e-324', '0x.8p1', '0xAp-1', '0XA.8P0f', '1.e2', '.5e-2L', '1E+3', '0x1.fffffffffffff8p0', '0x1.ffffffffffffffffp0L', '1e4932L', '3.3621031431120935063e-4932L']
    text = HDR + 'int main(void) {\n'
    lc = []
    for i, l in enumerate(lits):
        t = 'float' if l[-1] in 'fF' and 'x' not in l.lower()[:-1].replace('0x', '') or (l[-1] in 'fF' and ('p' in l.lower())) else 'long double' if l[-1] in 'lL' else 'double'
        if l[-1] in 'fF' and 'x' in l.lower() and 'p' not in l.lower(): continue
        text += '  { %s r = %s; dump(%d, &r, %d); int sz = sizeof(%s); dump(%d, &sz, 4); }\n' % (t, l, 2 * i, size_of(t), l, 2 * i + 1); lc.append((i, l, t))
    text += '  return 0; }\n'
    (c, cw), (g, gw) = both('lits.c', text)
    if g is None: run.corr_broken.append('literal program fails under gcc: ' + gw)
    elif c is None: run.violation(dict(kind='valid-program-rejected', why=cw), dict(area='literal', construct='rejected'))
    else:
        for (i, l, t) in lc:
            evals += 1; nontriv += 1; count('literal')
            if c.get(str(2 * i)) != g.get(str(2 * i)) or c.get(str(2 * i + 1)) != g.get(str(2 * i + 1)):
                run.violation(dict(kind='floating-constant', constant=l, chibicc_bytes=c.get(str(2 * i)), gcc_bytes=g.get(str(2 * i)), chibicc_sizeof=c.get(str(2 * i + 1)), gcc_sizeof=g.get(str(2 * i + 1))), dict(area='literal', construct='value'))

    # ---------------- (d) variadic promotion, mixed arithmetic ranks ----------------
    text = ('int printf(const char *, ...); \n#include <stdarg.h>\n'
            'static void dump(int id, void *p, int n) { printf("%d ", id); for (int i = 0; i < n; i++) printf("%02x", ((unsigned char *)p)[i]); printf("\\n"); }\n'
            'static void v(int id, int n, ...) { va_list ap; va_start(ap, n); for (int i = 0; i < n; i++) { double d = va_arg(ap, double); dump(id + i, &d, 8); } }\n'
            'int main(void) { volatile float f = 0.1f, g = 16777217.0f; volatile double d = 0.1; volatile long double l = 0.1L; volatile int i = 3; volatile unsigned long u = 18446744073709551615UL;\n'
            '  v(0, 3, f, g, d); v(10, 2, f + f, (float)d);\n'
            '  { double r = f + d; dump(20, &r, 8); } { long double r = d + l; dump(21, &r, 10); } { float r = f * i; dump(22, &r, 4); } { double r = u + d; dump(23, &r, 8); } { long double r = u * l; dump(24, &r, 10); }\n'
            '  { float r = u; dump(25, &r, 4); } { int sz = sizeof(f + f); dump(26, &sz, 4); sz = sizeof(f + d); dump(27, &sz, 4); sz = sizeof(d + l); dump(28, &sz, 4); sz = sizeof(i + f); dump(29, &sz, 4); }\n'
            '  return 0; }\n')
    (c, cw), (g, gw) = both('variadic.c', text)
    if g is not None:
        for key in sorted(g):
            evals += 1; nontriv += 1; count('promotion')
            if c is None or c.get(key) != g[key]:
                run.violation(dict(kind='promotion-or-rank', item=key, chibicc=(c or {}).get(key) if c else cw, gcc=g[key], program=text), dict(area='promotion', construct=key))

    # ---------------- tie of package fpgen: typed floating trees: run-time bits = Flocq spec; -S text = jump-level model; hardware bits = model machine ----------------
    if not os.environ.get('VERIF_SKIP_PROOFS'):
        te, tn, td, ts = run_tie(run, 'fpgen', src, 400 if run.quick() else 4000, 'operator')
        evals += te; nontriv += tn; dist['tie_fpgen'] = td; samples += ts
    cov = dict(evaluations=evals, distinct_nontrivial=nontriv, input_distribution=dist, samples=samples,
               rule='(a) %d conversions: 13 x 13 arithmetic type pairs at width boundaries, 2^24/2^53/2^63 +- 1, halfway cases above 2^63, denormals, infinities, NaN - every one C11 defines - at run time on volatile operands and as static initializers; (b) %d operator applications (+ - * / six comparisons, unary -, !, if/while truth, && ||, ?:) on float, double, long double over the boundary classes; (c) %d floating constants (decimal and hexadecimal, all suffixes, values that round differently in each format, sizeof of the constant); (d) variadic float promotion and mixed-rank arithmetic: object bytes = gcc' % (len(cases), len(ocases), len(lc)),
               traces_validated_against_impl=nontriv)
    cov['rule'] += '; (e) package fpgen: random typed trees over float / double / long double / integer leaves given as raw bit patterns (boundary pools incl. NaNs with payloads, denormals, rounding ties) and one-operator cases on the case splits of the lemmas: run-time result bits = Coq/Flocq spec (NaN as is-NaN), -S body = the jump-level Coq model instruction by instruction, hardware bits = the Coq machine model bit for bit'
    return run.finish(cov,
        ['gcc 12 -O0 -frounding-math (SSE for float/double, x87 for long double, FLT_EVAL_METHOD 0) on the same CPU is the reference; both compilers leave NaN payloads to the hardware',
         'conversions whose result C11 leaves undefined (floating value out of range of the integer type, NaN to integer) are not generated'],
        ['Coq 8.16.1 kernel; the theorems of Properties_C02.v use no axioms; those of Properties_C02_fpgen.v that speak about Flocq values depend on exactly the four standard-library axioms Flocq 4.1 inherits through the real numbers: ClassicalDedekindReals.sig_forall_dec, ClassicalDedekindReals.sig_not_dec, FunctionalExtensionality.functional_extensionality_dep, Classical_Prop.classic (Print Assumptions of every statement is in the evidence)',
         'Model/X86Sse.v and Model/X87.v (SSE / x87 instruction semantics defined from Flocq operations with the x86 NaN rule) are my reading of the Intel SDM, validated on raw result bits by the tie; MXCSR / x87 control word at their defaults', 'tools/gen_casttable.py regenerates the cast table (all 11 x 11 rows) from codegen.c', 'the hardware primitives (cvtsi2sd, cvttsd2si, fild, fistp ... round to nearest even / truncate as the Intel SDM says) are the modelling assumption of the row theorems',
         'long double subexpressions nested inside double expressions, x87 NaN payloads and the 80-bit encoding are outside the fpgen model (compared with gcc only)'])

if __name__ == '__main__':
    sys.exit(main())
