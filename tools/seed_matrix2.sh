#!/bin/bash
# seed_matrix2.sh <repo copy>: like seed_matrix.sh but against a scratch copy of the repository (git checkout of HEAD), so that /repo itself is never touched.
# Usage from a background snapshot:  vp run --with-repo -- bash -c './setup.sh >/dev/null 2>&1; tools/seed_matrix2.sh $VP_RUN_REPO'
R=$(realpath "$1"); V=$(cd "$(dirname "$0")/.." && pwd); cd "$V"
export VERIF_REPO=$R
[ -n "$(git -C $R status --porcelain)" ] && { echo "$R has uncommitted changes"; exit 2; }
for d in seeded/C??*; do
  name=$(basename $d); id=${name:0:3}
  if ! git -C $R apply --check $V/$d/patch.diff 2>/dev/null; then echo "$name: patch no longer applies to HEAD"; continue; fi
  git -C $R apply $V/$d/patch.diff
  out=$(./check $id quick 2>&1); rc=$?
  git -C $R checkout -- .
  echo "$name: exit=$rc $(echo "$out" | grep -c '^VIOLATION') violation line(s) $(echo "$out" | grep -o 'no-failing-input-found' | head -1)"
done
python3 tools/gen_all.py $R >/dev/null
echo "== clean tree =="
for id in $(python3 -c "import json; print(' '.join(c['property_id'] for c in json.load(open('MANIFEST.json'))['checks']))"); do
  out=$(./check $id quick 2>&1); echo "$id clean: exit=$? $(echo "$out" | grep -c '^VIOLATION') violation line(s)"
done
