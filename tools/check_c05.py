#!/usr/bin/env python3
"""C05 - initializers produce exactly the object value of C11 6.7.9.
   proofs (static image of a unit = zero fill + bit-field assignments, for any disjoint fields,
   values, subset and order) + correspondence/differential:
   generated object types (scalars incl. _Bool, floating and pointer types, arrays incl. unknown
   bound and multi-dimensional, structs with bit-fields, anonymous members and flexible array
   members, unions) x generated valid initializer spellings (full braces, brace elision,
   designators nested / out of order / continuing positionally, index ranges, string literals,
   short lists, trailing commas, address constants with offsets): the SAME initializer text is
   given to an object with static storage and to an automatic one; every leaf of both is printed:
   static = automatic (chibicc) = gcc; unmentioned members are zero."""
import os, sys, time, random, json, re
sys.path.insert(0, os.path.dirname(os.path.abspath(__file__)))
from vlib import *

PID = 'C05'
THEOREMS = ['C05_static_equals_automatic_bitfields', 'C05_field_value', 'C05_or_merge_needs_clear_bits', 'C05_nonvacuous',
            # package initcur (Properties_C05_initcur.v): parse.c's initializer functions = C11 6.7.9 for every valid (type, initializer)
            'C05_initcur_model_is_6_7_9', 'C05_initcur_complete_types', 'C05_initcur_tree_is_replay', 'C05_initcur_braced_override_refuted', 'C05_initcur_union_switch_refuted',
            'C05_initcur_nested_range_example', 'C05_initcur_string_elision_example', 'C05_initcur_string_override_example', 'C05_initcur_nonvacuous', 'C05_initcur_nonvacuous_strings', 'C05_initcur_nonvacuous_range']
MODELRUN = os.path.join(VERIF, 'ocaml/modelrun')

SCALARS = ['char', 'signed char', 'unsigned char', 'short', 'int', 'unsigned', 'long', 'unsigned long', '_Bool', 'float', 'double', 'long double', 'char *', 'int *']

class TGen:
    """types as trees: ('s', ctype) | ('a', n, elem) | ('S'|'U', name, [(mname|None, type, bitwidth|None)])"""
    def __init__(self, rng): self.rng = rng; self.n = 0; self.defs = []
    def ty(self, depth, allow_fam=False):
        rng = self.rng; r = rng.random()
        if depth <= 0 or r < 0.3: return ('s', rng.choice(SCALARS))
        if r < 0.5:
            e = self.ty(depth - 1)
            return ('a', rng.randint(1, 4), e)
        if r < 0.58: return ('a', rng.randint(2, 9), ('s', 'char'))         # string-initializable
        self.n += 1; me = self.n; name = 'T%d' % me; kind = 'S' if r < 0.88 else 'U'
        ms = []
        for j in range(rng.randint(1, 4)):
            q = rng.random()
            if q < 0.2 and kind == 'S':
                bt = rng.choice(['int', 'unsigned', 'signed char', 'unsigned long', '_Bool', 'short'])
                w = 1 if bt == '_Bool' else rng.randint(1, {'int': 32, 'unsigned': 32, 'signed char': 8, 'unsigned long': 64, 'short': 16}[bt])
                if bt != '_Bool' and rng.random() < 0.25: w = {'int': 32, 'unsigned': 32, 'signed char': 8, 'unsigned long': 64, 'short': 16}[bt]      # as wide as its unit: the mask (1 << w) - 1 is a shift by the operand width
                ms.append(('m%d_%d' % (me, j), ('s', bt), w))
                # unnamed bit-fields (also zero-width, also a RUN of them) take no part in initialization (6.7.9p9): mn == ''
                while ms and rng.random() < 0.3:
                    ms.append(('', ('s', bt), rng.choice([0, 1, rng.randint(1, 7)]) if bt != '_Bool' else rng.choice([0, 1])))
            else:
                t = self.ty(depth - 1)
                anon = t[0] in 'SU' and rng.random() < 0.2
                ms.append((None if anon else 'm%d_%d' % (me, j), t, None))
        self.defs.append((kind, name, ms))
        return (kind, name, ms)
    def ctype(self, t, declarator):
        if t[0] == 's': return '%s %s' % (t[1], declarator)
        if t[0] == 'a': return self.ctype(t[2], '%s[%s]' % (declarator, t[1] if t[1] is not None else ''))
        return '%s %s %s' % ('struct' if t[0] == 'S' else 'union', t[1], declarator)
    def decls(self):
        out = []
        for kind, name, ms in self.defs:
            body = []
            for mn, t, w in ms:
                if mn is None: body.append(self.anon_text(t))
                elif w is not None: body.append('%s %s : %d;' % (t[1], mn, w))      # mn == '': unnamed
                else: body.append(self.ctype(t, mn) + ';')
            out.append('%s %s { %s };' % ('struct' if kind == 'S' else 'union', name, ' '.join(body)))
        return out
    def anon_text(self, t):
        body = []
        for mn, mt, w in t[2]:
            if mn is None: body.append(self.anon_text(mt))
            elif w is not None: body.append('%s %s : %d;' % (mt[1], mn, w))
            else: body.append(self.ctype(mt, mn) + ';')
        return '%s { %s };' % ('struct' if t[0] == 'S' else 'union', ' '.join(body))

class IGen:
    """initializer for a type: returns C text and the expected leaf values {path: value-as-printed}"""
    def __init__(self, rng): self.rng = rng; self.k = 0; self.exp = {}; self.uchoice = {}
    def scalar_value(self, ct):
        rng = self.rng; self.k += 1
        if ct == '_Bool': v = rng.choice([0, 1, 2, 5]); return str(v), 1 if v else 0
        if ct in ('float', 'double', 'long double'):
            v = rng.choice([0.5, 1.25, -2.75, 100.0, self.k + 0.5]); return repr(v) + ('f' if ct == 'float' else 'L' if ct == 'long double' else ''), v
        if ct == 'char *':
            r = rng.random()
            if r < 0.4: o = rng.randint(0, 3); return '"hello%d" + %d' % (self.k, o), 'S:' + ('hello%d' % self.k)[o:]
            if r < 0.7: o = rng.randint(0, 15); return '&tgt_c[%d]' % o, 'C:%d' % o
            o = rng.randint(0, 7); return '(char *)&tgt_i[1] + %d' % o, 'C:%d' % (64 + 4 + o)
        if ct == 'int *':
            o = rng.randint(0, 7); return rng.choice(['&tgt_i[%d]' % o, 'tgt_i + %d' % o, '&tgt_s.arr[%d]' % (o % 4) if False else 'tgt_i + %d' % o]), 'I:%d' % o
        lo, hi = {'char': (-128, 127), 'signed char': (-128, 127), 'unsigned char': (0, 255), 'short': (-32768, 32767), 'int': (-2**31, 2**31 - 1), 'unsigned': (0, 2**32 - 1),
                  'long': (-2**63, 2**63 - 1), 'unsigned long': (0, 2**64 - 1)}[ct]
        v = rng.choice([1, 2, 7, self.k % 100 + 1, hi, lo if lo else 3, rng.randint(lo, hi)])
        lit = '%d' % v if -2**31 < v < 2**31 else ('%dUL' % v if v >= 2**63 else ('(-9223372036854775807L-1)' if v == -2**63 else '%dL' % v))
        return lit, v
    def leaves(self, t, path):
        if t[0] == 's': return [(path, t[1], None)]
        if t[0] == 'a':
            out = []
            for i in range(t[1]): out += self.leaves(t[2], '%s[%d]' % (path, i))
            return out
        out = []
        ms = t[2]
        if t[0] == 'U':            # only the initialized member of a union has a specified value
            ms = [ms[self.uchoice.get((path, t[1]), 0)]]
        for mn, mt, w in ms:
            if mn is None: out += self.leaves(mt, path)
            elif mn == '': continue
            elif w is not None: out.append(('%s.%s' % (path, mn), mt[1], w))
            else: out += self.leaves(mt, '%s.%s' % (path, mn))
        return out
    def bf_value(self, ct, w):
        rng = self.rng; self.k += 1
        if ct == '_Bool': v = rng.choice([0, 1, 3]); return str(v), 1 if v else 0
        sgn = ct in ('int', 'signed char', 'short')
        lo, hi = (-(1 << (w - 1)), (1 << (w - 1)) - 1) if sgn else (0, (1 << w) - 1)
        v = rng.choice([lo, hi, 0, 1 if hi >= 1 else 0, rng.randint(lo, hi)])
        return ('%d' % v if v < 2**31 else '%dUL' % v), v
    def override_ok(self, t):
        """subobjects whose re-initialization by a later designator has one meaning: scalars, and character arrays given a string
        (a braced list for an aggregate that was already partly initialized is the open finding C05-braced-override-merges)"""
        return t[0] == 's' or (t[0] == 'a' and t[2] == ('s', 'char'))
    def init(self, t, path, top=False, force_string=False):
        """a (text, complete) pair; complete = every leaf under t was given a value (so braces may be elided around it)"""
        rng = self.rng
        if t[0] == 's':
            txt, v = self.scalar_value(t[1]); self.exp[path] = v
            return (txt if rng.random() < 0.9 else '{ %s }' % txt), True
        if t[0] == 'a':
            n = t[1]; e = t[2]
            if e == ('s', 'char') and (force_string or rng.random() < 0.7):
                ln = rng.randint(0, n)          # n characters exactly fills without the terminator
                s = ''.join(rng.choice('abcxyz019') for _ in range(ln))
                for i in range(n): self.exp['%s[%d]' % (path, i)] = ord(s[i]) if i < ln else 0
                return ('"%s"' % s if rng.random() < 0.7 else '{ "%s" }' % s), ln + 1 == n
            mode = rng.random()
            items = []; complete = True
            if mode < 0.45:       # positional prefix
                cnt = rng.randint(0 if not top else 1, n)
                for i in range(cnt):
                    txt, c = self.init(e, '%s[%d]' % (path, i)); items.append((txt, c))
                complete = cnt == n and all(c for _, c in items)
                body = ', '.join(self.maybe_elide(txt, c, e) for txt, c in items)
            elif mode < 0.75:     # designated, any order, possibly continuing positionally
                idxs = rng.sample(range(n), rng.randint(1, n)); parts = []
                for i in idxs:
                    txt, c = self.init(e, '%s[%d]' % (path, i)); parts.append('[%d] = %s' % (i, txt))
                    if i + 1 < n and (i + 1) not in idxs and rng.random() < 0.3:
                        txt2, c2 = self.init(e, '%s[%d]' % (path, i + 1)); parts.append(txt2); idxs = idxs + [i + 1]
                # 6.7.9p19: a later initializer for the same subobject overrides the earlier one (a shorter string must clear the longer one)
                while self.override_ok(e) and rng.random() < 0.4:
                    i = rng.choice(idxs); txt, c = self.init(e, '%s[%d]' % (path, i), force_string=True); parts.append('[%d] = %s' % (i, txt))
                complete = False
                body = ', '.join(parts)
            elif e[0] == 's' and n >= 2:   # range designator followed by a positional item
                a = rng.randint(0, n - 2); b = rng.randint(a, n - 1)
                txt, v = self.scalar_value(e[1])
                for i in range(a, b + 1): self.exp['%s[%d]' % (path, i)] = v
                parts = ['[%d ... %d] = %s' % (a, b, txt)]
                if b + 1 < n:
                    txt2, v2 = self.scalar_value(e[1]); self.exp['%s[%d]' % (path, b + 1)] = v2; parts.append(txt2)
                complete = False; body = ', '.join(parts)
            else:
                txt, c = self.init(e, '%s[0]' % path); body = txt; complete = False
            return '{ %s%s }' % (body, ',' if body and rng.random() < 0.3 else ''), complete
        kind, name, ms = t
        named = [(mn, mt, w) for mn, mt, w in ms]
        if kind == 'U':
            # first member positionally, or any named member by designator
            cands = [(mn, mt, w) for mn, mt, w in ms if mn is not None]
            if cands and rng.random() < 0.6:
                mn, mt, w = rng.choice(cands)
                self.uchoice[(path, name)] = ms.index((mn, mt, w))
                if w is not None: txt, v = self.bf_value(mt[1], w); self.exp['%s.%s' % (path, mn)] = v
                else: txt, c = self.init(mt, '%s.%s' % (path, mn))
                return '{ .%s = %s }' % (mn, txt), False
            mn, mt, w = ms[0]
            sub = path if mn is None else '%s.%s' % (path, mn)
            if w is not None: txt, v = self.bf_value(mt[1], w); self.exp[sub] = v
            else: txt, c = self.init(mt, sub)
            return '{ %s }' % txt, False
        mode = rng.random(); parts = []; complete = True
        if mode < 0.5:
            cnt = rng.randint(1, len(ms))
            for mn, mt, w in ms[:cnt]:
                if mn == '': continue                      # unnamed bit-field: no initializer is given to it or taken by it
                sub = path if mn is None else '%s.%s' % (path, mn)
                if w is not None: txt, v = self.bf_value(mt[1], w); self.exp[sub] = v; parts.append(txt)
                else:
                    txt, c = self.init(mt, sub); parts.append(self.maybe_elide(txt, c, mt)); complete = complete and c
            complete = complete and cnt == len(ms)
            ov = [m for m in ms[:cnt] if m[0] and m[2] is None and self.override_ok(m[1])]
            if ov and rng.random() < 0.25:
                mn, mt, w = rng.choice(ov); txt, c = self.init(mt, '%s.%s' % (path, mn), force_string=True); parts.append('.%s = %s' % (mn, txt)); complete = False
        else:
            cands = [m for m in ms if m[0]]
            if not cands:
                mn, mt, w = ms[0]; txt, c = self.init(mt, path); parts.append(txt); complete = False
            else:
                order = rng.sample(cands, rng.randint(1, len(cands)))
                for mn, mt, w in order:
                    sub = '%s.%s' % (path, mn)
                    if w is not None: txt, v = self.bf_value(mt[1], w); self.exp[sub] = v
                    else: txt, c = self.init(mt, sub)
                    # nested designator path for a member of a named struct member
                    parts.append('.%s = %s' % (mn, txt))
                ov = [m for m in order if m[2] is None and self.override_ok(m[1])]
                while ov and rng.random() < 0.4:
                    mn, mt, w = rng.choice(ov); txt, c = self.init(mt, '%s.%s' % (path, mn), force_string=True); parts.append('.%s = %s' % (mn, txt))
                complete = False
        return '{ %s%s }' % (', '.join(parts), ',' if rng.random() < 0.3 else ''), complete
    def maybe_elide(self, txt, complete, t):
        """drop the braces of a sub-aggregate initializer when that cannot change the meaning"""
        if complete and t[0] in 'aS' and txt.startswith('{') and self.rng.random() < 0.4 and '.' not in txt and '[' not in txt and '"' not in txt:
            inner = txt.strip()[1:-1].strip().rstrip(',')
            if inner and '{' not in inner: return inner
        return txt

def fmt_expect(ct, w, v):
    if v is None: v = 0.0 if ct in ('float', 'double', 'long double') else (None if ct in ('char *', 'int *') else 0)
    return v

def main():
    run = Run(PID, THEOREMS)
    rng = run.rng
    try:
        src = build_impl()
    except BuildFailed as e:
        run.proof_broken.append('scratch build of /repo failed: ' + str(e)[-800:])
        return run.finish(dict(evaluations=0), [], [])
    wd = scratch_dir()
    run.check_proofs(deps=['theories/Model/InitMerge.vo', 'theories/Proofs/InitMergeProofs.vo'], extra=['initcur'])
    NCORPUS = run_corpus(run, PID, src)          # minimised past failures first
    chibi = os.path.join(src, 'chibicc')
    evals = 0; nontriv = 0; dist = {}; samples = []
    def count(k, n=1): dist[k] = dist.get(k, 0) + n
    def build_run(f, cc):
        exe = f + ('.c.exe' if cc == 'chibicc' else '.g.exe')
        rc, o, e = sh(([chibi] if cc == 'chibicc' else ['gcc', '-w', '-O0']) + ['-o', exe, f], timeout=120)
        if rc != 0: return None, 'compile: ' + e[-400:]
        rc, o, e = sh([exe], timeout=30)
        return (o if rc == 0 else None), 'exit %d %s' % (rc, o[-200:])

    N = 200 if run.quick() else 1500
    progs = []
    for k in range(N):
        tg = TGen(rng); t = tg.ty(3)
        if t[0] == 's' and rng.random() < 0.7: t = ('a', rng.randint(1, 5), t)
        ig = IGen(rng)
        itext, complete = ig.init(t, 'X', top=True)
        unknown = t[0] == 'a' and complete and rng.random() < 0.5
        leaves = ig.leaves(t, 'X')
        if len(leaves) > 80: continue
        decl_t = ('a', None, t[2]) if unknown else t
        if unknown: count('unknown-bound-array')
        lines = ['int printf(const char *, ...); int strcmp(const char *, const char *);', 'char tgt_c[64]; int tgt_i[16];'] + tg.decls()
        lines.append('static void pc(char *p) { if (!p) printf("null\\n"); else if (p >= tgt_c && p < tgt_c + 64) printf("C:%ld\\n", (long)(p - tgt_c)); else if (p >= (char *)tgt_i && p < (char *)(tgt_i + 16)) printf("C:%ld\\n", 64 + (long)(p - (char *)tgt_i)); else printf("S:%s\\n", p); }')
        lines.append('static void pi(int *p) { if (!p) printf("null\\n"); else printf("I:%ld\\n", (long)(p - tgt_i)); }')
        sdecl = tg.ctype(decl_t, 'sobj'); adecl = tg.ctype(decl_t, 'aobj')
        lines.append('static %s = %s;' % (sdecl, itext))
        lines.append('%s = %s;' % (tg.ctype(decl_t, 'gobj'), itext))
        def dumper(obj):
            out = []
            for path, ct, w in leaves:
                lv = obj + path[1:]
                if ct in ('float', 'double'): out.append('  printf("%%a\\n", (double)%s);' % lv)
                elif ct == 'long double': out.append('  printf("%%La\\n", %s);' % lv)
                elif ct == 'char *': out.append('  pc(%s);' % lv)
                elif ct == 'int *': out.append('  pi(%s);' % lv)
                elif ct in ('unsigned long',): out.append('  printf("%%lu\\n", (unsigned long)%s);' % lv)
                else: out.append('  printf("%%ld\\n", (long)%s);' % lv)
            return out
        lines.append('int main(void) {')
        lines.append('  %s = %s;' % (adecl, itext))
        lines.append('  { static %s = %s;' % (tg.ctype(decl_t, 'lobj'), itext))
        lines += dumper('sobj') + ['  printf("--\\n");'] + dumper('gobj') + ['  printf("--\\n");'] + dumper('aobj') + ['  printf("--\\n");'] + dumper('lobj')
        lines.append('  }')
        lines.append('  printf("--\\n%ld\\n", (long)sizeof(sobj));')
        lines.append('  return 0; }')
        f = os.path.join(wd, 'in%d.c' % k); open(f, 'w').write('\n'.join(lines) + '\n')
        progs.append((f, itext, [(p, ct, w, ig.exp.get(p)) for p, ct, w in leaves]))
    def one(p): return p, build_run(p[0], 'chibicc'), build_run(p[0], 'gcc')
    for (f, itext, leaves), (o1, w1), (o2, w2) in pmap(one, progs):
        evals += 1
        if o2 is None:
            count('gcc-rejects'); continue
        nontriv += 1; count('initializer-program')
        ref = o2.split('--\n')
        if o1 is None:
            run.violation(dict(kind='valid-initializer-rejected', why=w1, program=open(f).read()), dict(area='init', construct='rejected')); continue
        got = o1.split('--\n')
        names = ['static (file scope)', 'external', 'automatic', 'static (block scope)', 'sizeof']
        bad = None
        for i in range(min(len(got), len(ref))):
            if got[i] != ref[i]:
                la, lb = got[i].split('\n'), ref[i].split('\n')
                j = next((x for x in range(min(len(la), len(lb))) if la[x] != lb[x]), 0)
                bad = (names[i] if i < len(names) else str(i), leaves[j][0] if j < len(leaves) else '?', la[j] if j < len(la) else None, lb[j] if j < len(lb) else None); break
        if len(got) != len(ref) and not bad: bad = ('output', '?', None, None)
        if bad:
            same_all = len(set(got[:4])) == 1
            run.violation(dict(kind='initializer-value', initializer=itext, object=bad[0], leaf=bad[1], chibicc=bad[2], gcc=bad[3], static_equals_automatic_in_chibicc=same_all, program=open(f).read(),
                               how='the same initializer on a file-scope static, an external, an automatic and a block-scope static object; every leaf printed'), dict(area='init', construct='value'))
        # the generator's own expectation (what C11 6.7.9 prescribes), where it has one
        ga = ref[2].split('\n')
        for j, (p, ct, w, v) in enumerate(leaves):
            if j >= len(ga): break
            if ct in ('char *', 'int *'): want = 'null' if v is None else v
            elif ct in ('float', 'double', 'long double'): continue
            else: want = str(0 if v is None else (v - (1 << 64) if ct != 'unsigned long' and v >= 1 << 63 else v))
            if ct == 'char' and v is not None and isinstance(v, int) and v > 127: continue
            if ga[j] != want:
                run.corr_broken.append('generator expectation differs from gcc for %s in %s: %s vs %s (initializer %s)' % (p, os.path.basename(f), want, ga[j], itext[:120])); break
        if len(samples) < 3: samples.append(dict(initializer=itext[:200]))

    # fixed programs: flexible array members, wide strings, nested designator paths (static objects; compared with gcc)
    CORPUS = [
        'struct F { int n; char d[]; }; static struct F f = { 3, "ab" }; int main(void) { printf("%d %d %d %d\\n", f.n, f.d[0], f.d[1], f.d[2]); return 0; }',
        'struct F2 { int n; int d[]; }; struct F2 g = { 1, {1, 2, 3} }; int main(void) { printf("%d %d %d %d\\n", g.n, g.d[0], g.d[1], g.d[2]); return 0; }',
        'int w[] = L"ab"; unsigned short u16[] = u"xy"; unsigned u32[4] = U"z"; int main(void) { int a[] = L"q"; printf("%ld %d %d %d | %ld %d %d | %d %d %d | %ld %d\\n", (long)sizeof w, w[0], w[1], w[2], (long)sizeof u16, u16[0], u16[2], u32[0], u32[1], u32[3], (long)sizeof a, a[0]); return 0; }',
        'char *p[] = { "a", [3] = "d" }; int main(void) { char *q[] = { [2] = "x", "y" }; printf("%ld %s %d %s | %ld %s %s\\n", (long)sizeof p, p[0], p[1] == 0, p[3], (long)sizeof q, q[2], q[3]); return 0; }',
        'struct A { int x; struct { int b[3]; struct { char c; short s; } in[2]; } a; }; struct A s1 = { .a.in[1].s = 5, .a.b[2] = 7, 8 }; int m[2][3] = { [1][1] = 4, 5, [0] = { [2] = 9 } }; int main(void) { struct A s2 = { .a.in[1].s = 5, .a.b[2] = 7, 8 }; int n[2][3] = { [1][1] = 4, 5, [0] = { [2] = 9 } }; printf("%d %d %d %d %d | %d %d %d %d %d | %d %d %d %d | %d %d %d %d\\n", s1.x, s1.a.b[2], s1.a.in[0].c, s1.a.in[1].s, s1.a.in[1].c, s2.x, s2.a.b[2], s2.a.in[0].c, s2.a.in[1].s, s2.a.in[1].c, m[0][2], m[1][1], m[1][2], m[0][0], n[0][2], n[1][1], n[1][2], n[0][0]); return 0; }',
        'int x[6] = {[1 ... 3] = 7, 8}; int main(void) { int y[6] = {[1 ... 3] = 7, 8}; for (int i = 0; i < 6; i++) printf("%d %d ", x[i], y[i]); printf("\\n"); return 0; }',
        'struct B { unsigned a : 3; int : 0; int b : 5; _Bool c : 1; long d : 40; }; struct B gb = { 7, -3, 1, -12345678901 }; union U { char c[5]; int i; } gu = { .i = 0x01020304 }, gv = { "ab" }; int main(void) { struct B lb = { 7, -3, 1, -12345678901 }; printf("%d %d %d %ld | %d %d %d %ld | %d %d\\n", gb.a, gb.b, gb.c, (long)gb.d, lb.a, lb.b, lb.c, (long)lb.d, gu.c[0], gv.c[1]); return 0; }',
        'struct R { char name[8]; int k; char t[3][4]; }; struct R gr = { "default", 1, { "xyz", "xyz", "xyz", [1] = "a" }, .name = "ab" }; int ga[4] = { 1, 2, 3, 4, [1] = 9 }; int main(void) { struct R lr = { "default", 1, { "xyz", "xyz", "xyz", [1] = "a" }, .name = "ab" }; for (int i = 0; i < 8; i++) printf("%d %d ", gr.name[i], lr.name[i]); for (int i = 0; i < 12; i++) printf("%d %d ", ((char *)gr.t)[i], ((char *)lr.t)[i]); printf("%d %d\\\\n", ga[1], ga[2]); return 0; }',
        'struct P { int x, y; }; struct Q { struct P p; int z; }; struct Q q = { {1, 2}, 3, .p = {7} }; int x[2][3] = {1, 2, 3, 4, 5, 6, [0] = {7, 8}}; int main(void) { struct Q lq = { {1, 2}, 3, .p = {7} }; printf("%d %d %d | %d %d | %d %d %d\\\\n", q.p.x, q.p.y, q.z, lq.p.x, lq.p.y, x[0][0], x[0][1], x[0][2]); return 0; }',
        'struct F { int n; char d[]; }; static struct F f = { 3, "ab" }; struct F2 { int n; int d[]; }; struct F2 g = { 1, {1, 2, 3} }; int main(void) { printf("%ld %ld\\\\n", (long)sizeof f, (long)sizeof g); return 0; }',
    ]
    for i, body in enumerate(CORPUS):
        f = os.path.join(wd, 'corp%d.c' % i); open(f, 'w').write('int printf(const char *, ...);\n' + body.replace('\\\\n', '\\n') + '\n')
        (o1, w1), (o2, w2) = build_run(f, 'chibicc'), build_run(f, 'gcc')
        evals += 1; nontriv += 1; count('corpus-program')
        if o2 is None: run.corr_broken.append('corpus program %d fails under gcc: %s' % (i, w2)); continue
        if o1 != o2:
            run.violation(dict(kind='initializer-value', program=open(f).read(), chibicc=o1 if o1 is not None else w1, gcc=o2), dict(area='init', construct='fam-sizeof' if i == len(CORPUS) - 1 else 'braced-override' if i == len(CORPUS) - 2 else 'corpus-%d' % i))


    # ---------------- address constants into aggregates (C11 6.6p9): array members, partial indexing, &member, pointer arithmetic ----------------
    NAC = 40 if run.quick() else 300
    def paths(t, expr, depth=0):
        """(expression designating a subobject of g, its type) for every subobject"""
        out = [(expr, t)]
        if t[0] == 'a' and t[1]:
            idx = sorted(set([0, t[1] - 1, rng.randrange(t[1])]))
            for i in idx: out += paths(t[2], '%s[%d]' % (expr, i), depth + 1)
        elif t[0] in 'SU':
            for mn, mt, w in t[2]:
                if w is not None: continue                 # no address of a bit-field
                if mn is None: out += [p for p in paths(mt, expr, depth + 1)][1:]
                else: out += paths(mt, '%s.%s' % (expr, mn), depth + 1)
        return out
    acprogs = []
    for k in range(NAC):
        tg = TGen(rng); t = tg.ty(3)
        if t[0] == 's': t = ('a', rng.randint(2, 4), ('a', rng.randint(2, 3), t))
        if t[0] == 'a' and rng.random() < 0.5: t = ('a', rng.randint(2, 3), t)
        ps = paths(t, 'g'); rng.shuffle(ps); ps = ps[:24]
        exprs = []
        for e, pt in ps:
            if pt[0] == 'a':
                n = pt[1]; forms = ['%s' % e, '%s + %d' % (e, rng.randint(0, n)), '&%s[%d]' % (e, rng.randrange(n)), '&%s' % e, '%d + %s' % (rng.randint(0, n), e)]
                # arithmetic on a pointer TO AN ARRAY (&row - 1) is the known finding C05-addr-of-array; it has its own probe below
                if pt[2][0] != 'a': forms.append('&%s[%d] - %d' % (e, n - 1, rng.randint(0, n - 1)))
                exprs += ['(char *)(%s)' % f for f in rng.sample(forms, 3)]
            else:
                exprs += ['(char *)&%s' % e]
                if rng.random() < 0.3: exprs += ['(char *)&%s + %d' % (e, rng.randint(1, 3)), '(char *)(&%s + 1)' % e]
        lines = ['int printf(const char *, ...);'] + tg.decls() + [tg.ctype(t, 'g') + ';']
        for i, e in enumerate(exprs): lines.append('char *s%d = %s;' % (i, e))
        lines.append('struct W { int n; char *p; } w[] = { %s };' % ', '.join('{ %d, %s }' % (i, e) for i, e in enumerate(exprs[:6])))
        lines.append('int main(void) {')
        lines.append('  static char *bs[] = { %s };' % ', '.join(exprs))
        for i, e in enumerate(exprs): lines.append('  { char *a = %s; printf("%d %%ld %%ld %%ld\\n", (long)(s%d - (char *)&g), (long)(a - (char *)&g), (long)(bs[%d] - (char *)&g)); }' % (e, i, i, i))
        for i in range(min(6, len(exprs))): lines.append('  printf("w%d %%ld\\n", (long)(w[%d].p - (char *)&g));' % (i, i))
        lines.append('  return 0; }')
        f = os.path.join(wd, 'ac%d.c' % k); open(f, 'w').write('\n'.join(lines) + '\n'); acprogs.append(f)
    # probe for the known finding: &array has the type of a pointer to the first ELEMENT, so arithmetic on it is scaled by the element size
    fpa = os.path.join(wd, 'addr_of_array.c')
    open(fpa, 'w').write('int printf(const char *, ...);\nint g[2][3];\nchar *s0 = (char *)(&g[0] + 1);\nchar *s1 = (char *)(&g + 1);\nint main(void) { char *a0 = (char *)(&g[0] + 1); printf("%ld %ld %ld %d\\n", (long)(s0 - (char *)g), (long)(a0 - (char *)g), (long)(s1 - (char *)g), (int)sizeof(*&g)); return 0; }\n')
    o1, w1 = build_run(fpa, 'chibicc'); o2, w2 = build_run(fpa, 'gcc'); evals += 1
    if o2 is not None and o1 != o2:
        run.violation(dict(kind='address-arithmetic', program=open(fpa).read(), chibicc=o1 if o1 is not None else w1, gcc=o2, how='offsets of &g[0] + 1 (static, automatic) and &g + 1 from g, sizeof *&g'), dict(area='init', construct='addr-of-array'))
    def one_ac(f): return f, build_run(f, 'chibicc'), build_run(f, 'gcc')
    for f, (o1, w1), (o2, w2) in pmap(one_ac, acprogs):
        evals += 1
        if o2 is None: run.corr_broken.append('address-constant generator produced a program gcc rejects: %s %s' % (os.path.basename(f), w2[:200])); write_replay(PID, 'addrconst_' + os.path.basename(f), open(f).read()); continue
        nontriv += 1; count('address-constant-program')
        if o1 is None:
            run.violation(dict(kind='valid-address-constant-rejected', program=open(f).read(), chibicc=w1, how='every initializer is an address constant (6.6p9) accepted by gcc'),
                          dict(area='init', construct='address-constant-rejected', partial='partial-index' if 'not a compile-time constant' in w1 else 'other'))
        elif o1 != o2:
            l1 = o1.split('\n'); l2 = o2.split('\n'); d = next((i for i in range(min(len(l1), len(l2))) if l1[i] != l2[i]), 0)
            run.violation(dict(kind='address-constant-value', program=open(f).read(), first_difference='chibicc "%s" gcc "%s"' % (l1[d] if d < len(l1) else '', l2[d] if d < len(l2) else ''),
                               how='each line: index, offset from &g of the file-scope static pointer, of the automatic pointer, of the block-scope static pointer'), dict(area='init', construct='address-constant'))

    # ---------------- tie of package initcur: cases evaluated by the Coq spec and model (one coqc call) and by the real compiler ----------------
    if not os.environ.get('VERIF_SKIP_PROOFS'):
        te, tn, td, ts = run_tie(run, 'initcur', src, 160 if run.quick() else 1600, 'init')
        evals += te; nontriv += tn; dist['tie_initcur'] = td; samples += ts
    TIE_RULE = ' ' + '(e) package initcur: %d generated (type, initializer) pairs in the abstract syntax of Spec/InitSyntax.v printed as C (static and automatic object): every scalar leaf = Coq spec of 6.7.9 = Coq model of parse.c' % (160 if run.quick() else 1600)
    cov = dict(evaluations=evals, distinct_nontrivial=nontriv, input_distribution=dist, samples=samples,
               rule='%d generated (type, initializer) pairs: types of depth <= 3 over 14 scalar types, arrays, char arrays, structs with bit-fields and anonymous members, unions; initializers with positional prefixes, brace elision of complete sub-aggregates, designators in any order continuing positionally, index ranges followed by positional items, string literals (short, exact fit, braced), union members by designator, trailing commas, address constants (&array[k], pointer + offset, string literal + offset): each given to a file-scope static, an external, an automatic and a block-scope static object; all leaves of all four printed: chibicc = gcc, and where the generator tracks the C11 value, gcc = generator; %d programs whose file-scope, block-scope static and automatic pointers are initialized with address constants into a generated aggregate (array members and their decay, partial indexing of multi-dimensional arrays, &member, pointer arithmetic on either side, inside struct initializers): offsets from &g, chibicc = gcc' % (N, NAC),
               traces_validated_against_impl=nontriv)
    cov['rule'] = cov.get('rule', '') + TIE_RULE
    return run.finish(cov,
        ['gcc 12 -O0 is the reference for the object values; the generator additionally tracks the value C11 6.7.9 gives each mentioned leaf and zero for the others (integers and pointers)',
         'excess initializers and other constraint violations are not generated'],
        ['Coq 8.16.1 kernel, no axioms', 'Model/InitMerge.v + Model/Bitfield.v: the unit-level merge of the static and the automatic path; everything else of parse.c\'s initializer machinery (cursor logic, designators, brace elision, relocations, data emission) is NOT modelled and is decided by the differential test only'])

if __name__ == '__main__':
    sys.exit(main())
