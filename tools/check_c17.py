#!/usr/bin/env python3
"""C17 - name tables behave as dictionaries under any history.
   proof (Coq) + translator (constants) + correspondence (hashmap.c linked with a harness,
   slot-for-slot against the extracted model) + black-box macro-table histories through -E."""
import os, sys, time, random, json, subprocess
sys.path.insert(0, os.path.dirname(os.path.abspath(__file__)))
from vlib import *
import gen_hashmap

PID = 'C17'
THEOREMS = ['C17_refines', 'C17_inv_step', 'C17_consts_ok', 'C17_old_rule_refuted', 'C17_nonvacuous']

def fnv(b, c):
    h = c['basis']
    for x in b:
        h = (h * c['prime']) % 2**64
        h ^= x
    return h

# ---------------- history generators ----------------
def key_pool(rng, c, n, modulus, target=None, alphabet=None):
    """n distinct keys whose hash is congruent to `target` modulo `modulus` (probe paths overlap)"""
    res, seen = [], set()
    tries = 0
    while len(res) < n and tries < 200000:
        tries += 1
        ln = rng.choice([1, 1, 2, 2, 3, 4, 6, 9])
        k = bytes(rng.choice(alphabet) if alphabet else rng.randrange(256) for _ in range(ln))
        if k in seen: continue
        if target is not None and fnv(k, c) % modulus != target: continue
        seen.add(k); res.append(k)
    return res

def hx(k): return k.hex()

def gen_small(rng, c, nops, snapshot_every=1):
    """few keys that share probe paths in a 16-slot table; put/delete/put across tombstones"""
    mod = c['init']
    t = rng.randrange(mod)
    pool = key_pool(rng, c, rng.randint(2, 5), mod, t) + key_pool(rng, c, rng.randint(0, 3), mod, (t + 1) % mod) \
         + key_pool(rng, c, rng.randint(0, 2), mod, None)
    ops = []
    for i in range(nops):
        k = rng.choice(pool)
        r = rng.random()
        if r < 0.45: ops.append('P %s %d' % (hx(k), rng.randint(1, 99)))
        elif r < 0.75: ops.append('D %s' % hx(k))
        else: ops.append('G %s' % hx(k))
        if (i + 1) % snapshot_every == 0: ops.append('S')
    for k in pool: ops.append('G %s' % hx(k))
    ops.append('S')
    return ops

def gen_boundary(rng, c, extra):
    """drive the load factor through the watermark with tombstones present, then across a rehash"""
    cap = c['init']
    thr = (c['high'] * cap + 99) // 100          # smallest used with used*100/cap >= high
    n = thr + extra
    keys = key_pool(rng, c, n + 6, cap, None)
    ops = []
    live = []
    for k in keys[:n]:
        ops.append('P %s %d' % (hx(k), rng.randint(1, 999))); live.append(k)
        if rng.random() < 0.3 and live:
            d = rng.choice(live); ops.append('D %s' % hx(d)); live.remove(d)
            if rng.random() < 0.5:
                ops.append('P %s %d' % (hx(d), rng.randint(1, 999))); live.append(d)
        ops.append('S')
    for k in keys[n:]:
        ops.append('P %s %d' % (hx(k), rng.randint(1, 999))); ops.append('S')
    for k in keys: ops.append('G %s' % hx(k))
    return ops

def gen_tombstone_rehash(rng, c, rounds):
    """a rehash that is triggered by tombstones, not by live keys: the table reaches the high watermark while fewer than
    LOW_WATERMARK percent of the buckets hold live keys, so the rehash keeps (or even could shrink) the capacity; the keys
    share probe paths, so survivors sit BEHIND the deleted ones and are reachable afterwards only if the table is rebuilt"""
    cap = c['init']; ops = []; live = []
    fresh = 0
    for r in range(rounds):
        thr = (c['high'] * cap + 99) // 100
        tgt = rng.randrange(cap)
        keys = key_pool(rng, c, thr + 4, cap, tgt if rng.random() < 0.7 else None)
        keys = [k for k in keys if k not in live]
        # fill up to just below the watermark
        room = max(0, thr - 1 - len(live)); batch = keys[:room]
        for k in batch: ops.append('P %s %d' % (hx(k), rng.randint(1, 999))); live.append(k)
        ops.append('S')
        # delete most of them (the earlier ones of each probe path first), keep a few late survivors
        keep = max(1, min(len(live) - 1, (c['low'] * cap) // 100 - rng.randint(1, 3)))
        victims = live[:len(live) - keep] if rng.random() < 0.7 else rng.sample(live, len(live) - keep)
        for d in victims: ops.append('D %s' % hx(d)); live.remove(d)
        ops.append('S')
        # new keys until the watermark is crossed: rehash with few live keys
        for k in keys[room:room + 3]:
            ops.append('P %s %d' % (hx(k), rng.randint(1, 999))); live.append(k); ops.append('S')
        for k in live + victims[:6]: ops.append('G %s' % hx(k))
        if rng.random() < 0.5:   # grow for the next round
            extra = key_pool(rng, c, cap, cap * 2, None)
            for k in extra:
                if k not in live: ops.append('P %s %d' % (hx(k), 1)); live.append(k)
            ops.append('S'); cap_guess = cap
            while len(live) * 100 >= c['high'] * cap: cap *= 2
    ops.append('S')
    for k in live: ops.append('G %s' % hx(k))
    return ops

def gen_growth(rng, c, nkeys, del_frac):
    keys = [b'k%d' % i if rng.random() < 0.5 else bytes([rng.randrange(1, 256) for _ in range(rng.randint(1, 5))])
            for i in range(nkeys)]
    ops, live = [], []
    for i, k in enumerate(keys):
        ops.append('P %s %d' % (hx(k), i + 1)); live.append(k)
        if rng.random() < del_frac and live:
            d = live.pop(rng.randrange(len(live))); ops.append('D %s' % hx(d))
        if rng.random() < 0.1:
            ops.append('G %s' % hx(rng.choice(keys[:i + 1])))
        if i % 97 == 0: ops.append('S')
    ops.append('S')
    for k in rng.sample(keys, min(len(keys), 200)): ops.append('G %s' % hx(k))
    return ops

def gen_prefix(rng, c):
    """keys that are prefixes of each other / contain NUL bytes: the length must take part in the comparison"""
    keys = [b'a', b'a\0', b'ab', b'a\0b', b'abc', b'\0', b'\0\0', b'ab\0']
    ops = []
    for r in range(3):
        for k in rng.sample(keys, len(keys)):
            ops.append(rng.choice(['P %s %d' % (hx(k), rng.randint(1, 50)), 'D %s' % hx(k), 'G %s' % hx(k)]))
            ops.append('S')
    for k in keys: ops.append('G %s' % hx(k))
    return ops

def bundled_history():
    """the history of hashmap_test() in hashmap.c"""
    f = lambda i: hx(b'key %d' % i)
    ops = []
    for i in range(5000): ops.append('P %s %d' % (f(i), i + 1))
    for i in range(1000, 2000): ops.append('D %s' % f(i))
    for i in range(1500, 1600): ops.append('P %s %d' % (f(i), i + 1))
    for i in range(6000, 7000): ops.append('P %s %d' % (f(i), i + 1))
    ops.append('S')
    for i in list(range(0, 7000, 37)): ops.append('G %s' % f(i))
    ops.append('G %s' % hx(b'no such key'))
    return ops

def corpus_cases():
    d = os.path.join(VERIF, 'corpus', PID)
    res = []
    if os.path.isdir(d):
        for fn in sorted(os.listdir(d)):
            if fn.endswith('.ops'):
                res.append(('corpus:' + fn, [l.strip() for l in open(os.path.join(d, fn)) if l.strip() and not l.startswith('#')]))
    return res

# ---------------- running ----------------
def run_ops(cmd, ops, timeout=300):
    try:
        p = subprocess.run(cmd, input='\n'.join(ops) + '\n', capture_output=True, text=True, timeout=timeout)
        out = p.stdout.split('\n')
        if out and out[-1] == '': out.pop()
        return p.returncode, out, p.stderr[-300:]
    except subprocess.TimeoutExpired:
        return 124, [], 'timeout'

def spec_outputs(ops):
    """the dictionary specification (what C17_refines proves the model computes)"""
    d, outs = {}, []
    for o in ops:
        t = o.split(' ')
        if t[0] == 'P': d[t[1]] = int(t[2]); outs.append('O -')
        elif t[0] == 'G': outs.append('O %d' % d[t[1]] if t[1] in d else 'O -')
        elif t[0] == 'D': d.pop(t[1], None); outs.append('O -')
        elif t[0] == 'R': d = {}; outs.append('R')
        else: outs.append(None)      # snapshot: no spec-level content
    return outs

def compare(ops, impl, model):
    """returns (spec_violation_index or None, corr_mismatch_index or None)"""
    rc_i, out_i, err_i = impl
    rc_m, out_m, err_m = model
    spec = spec_outputs(ops)
    sv = cm = None
    for i, o in enumerate(ops):
        a = out_i[i] if i < len(out_i) else 'DIED rc=%d %s' % (rc_i, err_i.strip().split('\n')[-1] if err_i.strip() else '')
        b = out_m[i] if i < len(out_m) else 'MODEL-DIED'
        if spec[i] is not None and a != spec[i] and sv is None:
            sv = i
        if a != b and cm is None:
            cm = i
        if sv is not None: break
        if a.startswith('DIED'):
            if sv is None: sv = i
            break
    return sv, cm

def shrink(ops, fails):
    """greedy delta debugging on the op list"""
    ops = [o for o in ops if o != 'S']
    n = 2
    while len(ops) >= 2:
        chunk = max(1, len(ops) // n)
        reduced = False
        for s in range(0, len(ops), chunk):
            cand = ops[:s] + ops[s + chunk:]
            if cand and fails(cand):
                ops = cand; n = max(n - 1, 2); reduced = True; break
        if not reduced:
            if chunk == 1: break
            n = min(n * 2, len(ops))
    return ops

# ---------------- black-box: macro table through chibicc -E ----------------
def macro_history_case(rng, c, ncycles, shape):
    """a translation unit of #define/#undef operations with #ifdef probes; returns (text, expected list)"""
    # macro names: identifiers; choose names that collide modulo small capacities
    names = []
    i = 0
    alphabet = 'abcdefghijklmnopqrstuvwxyzABCDEFGHIJKLMNOPQRSTUVWXYZ_'
    while len(names) < max(8, ncycles if shape == 'churn' else 24):
        n = 'm' + ''.join(rng.choice(alphabet) for _ in range(rng.randint(1, 6))) + str(i)
        i += 1
        names.append(n)
    lines, state, expected = [], {}, []
    def probe(n):
        lines.append('#ifdef %s\nPROBE "%s" = %s\n#else\nPROBE "%s" undefined\n#endif' % (n, n, n, n))
        expected.append('PROBE "%s" = %s' % (n, state[n]) if n in state else 'PROBE "%s" undefined' % n)
    if shape == 'churn':
        # many distinct names defined and undefined again: tombstones accumulate
        for j, n in enumerate(names[:ncycles]):
            lines.append('#define %s %d' % (n, j)); state[n] = str(j)
            if j % 50 == 0: probe(n)
            lines.append('#undef %s' % n); state.pop(n)
            if j % 50 == 1: probe(n)
        for n in rng.sample(names[:ncycles], min(20, ncycles)): probe(n)
    else:
        for j in range(ncycles):
            n = rng.choice(names)
            r = rng.random()
            if r < 0.5:
                v = str(rng.randint(0, 9999)); lines.append('#undef %s\n#define %s %s' % (n, n, v)); state[n] = v
            elif r < 0.8:
                lines.append('#undef %s' % n); state.pop(n, None)
            else:
                probe(n)
        for n in names: probe(n)
    return '\n'.join(lines) + '\n', expected

def run_macro_case(src, text, expected, workdir, idx, extra_args=()):
    f = os.path.join(workdir, 'm%d.c' % idx)
    open(f, 'w').write(text)
    rc, out, err = sh([os.path.join(src, 'chibicc'), '-E', '-o', '-', f] + list(extra_args), timeout=120)
    got = [' '.join(l.split()) for l in out.split('\n') if l.strip().startswith('PROBE')]
    if rc != 0:
        return 'exit status %d: %s' % (rc, (err.strip().split('\n') or [''])[-1][:200])
    if got != expected:
        for k, (a, b) in enumerate(zip(got + [None] * len(expected), expected)):
            if a != b:
                return 'probe %d: got %r expected %r' % (k, a, b)
        return 'probe count differs: got %d expected %d' % (len(got), len(expected))
    return None

# ---------------- main ----------------
def main():
    tier = sys.argv[1] if len(sys.argv) > 1 else os.environ.get('VERIF_TIER', 'quick')
    t0 = time.time()
    rng = random.Random(seed() * 1000003 + 17)
    notes, violations, proof_broken, corr_broken = [], [], [], []
    known = load_known(PID)
    reset_replays(PID)

    # 1. implementation from the current working tree
    try:
        src = build_impl()
    except BuildFailed as e:
        print('BUILD-FAILED: /repo does not compile with -D%s\n%s' % (GUARD, str(e)[-2000:]))
        return finish(PID, tier, t0, [], ['build'], [], {}, note='build failed')
    wd = scratch_dir()
    rc, out, err = sh('gcc -c -O1 -w -Dmain=chibicc_main -o %s/main_r.o %s/main.c && gcc -O1 -w -I%s -o %s/hm_h %s/harness/hashmap_h.c %s/main_r.o %s' % (
        wd, src, src, wd, VERIF, wd, ' '.join(os.path.join(src, f[:-2] + '.o') for f in sorted(os.listdir(src)) if f.endswith('.c') and f != 'main.c')))
    harness_ok = rc == 0
    if not harness_ok:
        corr_broken.append('harness does not link against hashmap.c: ' + err[-400:])

    # 2. translator + proofs + extraction
    consts = None
    try:
        consts = gen_hashmap.gen(REPO, os.path.join(COQ, 'theories/Gen/HashmapConsts.v'))
    except GenError as e:
        proof_broken.append('translator: ' + str(e))
    cq = coq_check_properties(PID, deps=['theories/Model/HashmapC.vo'])
    closed, built = cq['closed'], cq['ok']
    if not built:
        proof_broken.append('Properties_C17.v does not check: ' + coq_errors(cq['log']))
    rc, out, err = sh([os.path.join(VERIF, 'ocaml/build.sh')], timeout=900)
    model_ok = rc == 0
    if not model_ok:
        corr_broken.append('extracted model does not build: ' + (out + err)[-400:])
    if consts is None:
        consts = dict(init=16, high=70, low=50, basis=0xcbf29ce484222325, prime=0x100000001b3)

    # 3. cases
    cases = corpus_cases()
    nsmall, nbound, ngrow = (150, 24, 6) if tier == 'quick' else (1500, 120, 40)
    cases.append(('prefix', gen_prefix(rng, consts)))
    for i in range(nsmall): cases.append(('small%d' % i, gen_small(rng, consts, rng.randint(4, 40))))
    for i in range(nbound): cases.append(('boundary%d' % i, gen_boundary(rng, consts, rng.randint(-2, 8))))
    for i in range(nbound): cases.append(('tombstone-rehash%d' % i, gen_tombstone_rehash(rng, consts, rng.randint(1, 3))))
    for i in range(ngrow): cases.append(('growth%d' % i, gen_growth(rng, consts, rng.choice([60, 200, 500, 900] if tier == 'quick' else [200, 900, 2500]), rng.choice([0.0, 0.2, 0.5]))))
    if tier != 'quick': cases.append(('bundled', bundled_history()))

    # 4. run impl and model on every history
    evals = 0; nontrivial = set(); samples = []; dist = dict(put=0, get=0, delete=0, snapshot=0, histories=0, max_len=0)
    impl_cmd = [os.path.join(wd, 'hm_h')]; model_cmd = [os.path.join(VERIF, 'ocaml/modelrun'), 'hashmap']
    validated = 0
    for name, ops in cases:
        if not harness_ok: break
        impl = run_ops(impl_cmd, ops)
        model = run_ops(model_cmd, ops) if model_ok else (1, [], 'no model')
        evals += 1; dist['histories'] += 1; dist['max_len'] = max(dist['max_len'], len(ops))
        for o in ops: dist[{'P': 'put', 'G': 'get', 'D': 'delete', 'S': 'snapshot'}.get(o[0], 'snapshot')] += 1
        # non-trivial = the final table contains a tombstone or has grown, or a collision chain exists
        last = [l for l in impl[1] if l.startswith('S ')]
        if last and (' T' in last[-1] or 'cap=%d ' % consts['init'] not in last[-1]):
            nontrivial.add(hash(tuple(ops)))
        if len(samples) < 3 and name.startswith('small'): samples.append({'history': name, 'ops': ops[:24], 'impl_tail': impl[1][-1:]})
        sv, cm = compare(ops, impl, model)
        if sv is not None:
            def fails(c):
                r = run_ops(impl_cmd, c, timeout=60); s, _ = compare(c, r, r); return s is not None
            small = shrink(ops[:ops.index(ops[sv]) + 1] if False else ops[:sv + 1], fails)
            r = run_ops(impl_cmd, small + ['S'])
            violations.append(dict(kind='impl-vs-dictionary', history=name, ops=small, impl_output=r[1], exit=r[0],
                                   expected=spec_outputs(small)))
        elif cm is not None and model_ok:
            corr_broken.append('history %s: implementation and model differ at op %d (%s): impl=%r model=%r' % (
                name, cm, ops[cm], impl[1][cm] if cm < len(impl[1]) else 'DIED', model[1][cm] if cm < len(model[1]) else 'DIED'))
            write_replay(PID, 'corr_%s.ops' % name, '\n'.join(ops[:cm + 1]) + '\n')
        else:
            validated += 1
        if len(violations) >= 3: break

    # 5. black-box macro histories
    mwd = scratch_dir()
    mcases = []
    for i in range(12 if tier == 'quick' else 60):
        mcases.append(('mixed', rng.choice([40, 120, 400])))
    for n in ([700, 2500] if tier == 'quick' else [700, 2500, 6000, 12000]):
        mcases.append(('churn', n))
    mevals = 0
    for i, (shape, n) in enumerate(mcases):
        text, expected = macro_history_case(rng, consts, n, shape)
        r = run_macro_case(src, text, expected, mwd, i)
        mevals += 1
        if r is not None:
            p = write_replay(PID, 'macro_%s_%d.c' % (shape, n), text)
            violations.append(dict(kind='macro-table', shape=shape, cycles=n, what=r, input_file=p))
            break
    # -D / -U on the command line
    text = '#ifdef A\nPROBE "A" = A\n#else\nPROBE "A" undefined\n#endif\n#ifdef B\nPROBE "B" = B\n#else\nPROBE "B" undefined\n#endif\n'
    for args, exp in [(['-DA=1', '-UA', '-DB=2'], ['PROBE "A" undefined', 'PROBE "B" = 2']),
                      (['-DA=1', '-UA', '-DA=3'], ['PROBE "A" = 3', 'PROBE "B" undefined']),
                      (['-UB', '-DB', '-DA=x', '-DA=y'], ['PROBE "A" = y', 'PROBE "B" = 1'])]:
        r = run_macro_case(src, text, exp, mwd, 999, args); mevals += 1
        if r is not None:
            violations.append(dict(kind='macro-table-cmdline', args=args, what=r))
    # ... also when the name is one of the compiler's PREDEFINED macros: the command line comes after the predefinitions
    text2 = ''.join('#ifdef %s\nPROBE "%s" = %s\n#else\nPROBE "%s" undefined\n#endif\n' % (n, n, n, n) for n in ['linux', 'unix', '__STDC_VERSION__', '__x86_64__', '__amd64', '__CHAR_BIT__'])
    for args, exp in [(['-Ulinux', '-Dunix=2', '-Uunix', '-Dunix=3', '-D__STDC_VERSION__=199901L', '-U__x86_64__', '-U', '__amd64', '-D__CHAR_BIT__=9'],
                       ['PROBE "linux" undefined', 'PROBE "unix" = 3', 'PROBE "__STDC_VERSION__" = 199901L', 'PROBE "__x86_64__" undefined', 'PROBE "__amd64" undefined', 'PROBE "__CHAR_BIT__" = 9']),
                      (['-Dlinux=tux', '-Ulinux', '-Dlinux', '-Uunix', '-Dunix=u', '-U__STDC_VERSION__'],
                       ['PROBE "linux" = 1', 'PROBE "unix" = u', 'PROBE "__STDC_VERSION__" undefined', 'PROBE "__x86_64__" = 1', 'PROBE "__amd64" = 1', 'PROBE "__CHAR_BIT__" undefined'])]:
        r = run_macro_case(src, text2, exp, mwd, 998, args); mevals += 1
        if r is not None:
            violations.append(dict(kind='macro-table-cmdline', args=args, what=r, note='-D / -U of predefined macro names'))

    cov = dict(
        obligations=len(THEOREMS), discharged=len(THEOREMS) if built else 0, print_assumptions_closed=closed, axioms=cq['axioms'],
        checker_cmd='make -C /verif/coq theories/Properties/Properties_C17.vo (coqc 8.16.1, full .vo build)',
        trusted_base=['Coq 8.16.1 kernel (vm_compute used; native_compute not used)',
                      'Print Assumptions: all four theorems "Closed under the global context" (no axioms)',
                      'tools/gen_hashmap.py (translator for INIT_SIZE/HIGH_WATERMARK/LOW_WATERMARK/FNV constants)',
                      'hand-written model coq/theories/Model/Hashmap.v tied by harness/hashmap_h.c + ocaml/modelrun (extraction with ExtrOcamlBasic only)',
                      'C int overflow of used*100 (>= 2^31) excluded by hypothesis: histories shorter than 2^30/100 operations'],
        evaluations=evals + mevals, distinct_nontrivial=len(nontrivial),
        rule='histories over keys built to share probe paths (FNV computed by the generator), load factor driven across the watermark, growth runs, prefix/NUL keys; non-trivial = final table holds a tombstone or has grown beyond the initial capacity; plus #define/#undef/#ifdef histories through chibicc -E',
        samples=samples, traces_validated_against_impl=validated, input_distribution=dist,
        macro_histories=mevals, theorems=THEOREMS)
    return finish(PID, tier, t0, violations, proof_broken, corr_broken, cov)

def finish(pid, tier, t0, violations, proof_broken, corr_broken, cov, note=None):
    known = load_known(pid)
    rc = 0
    if not cov:
        cov = dict(obligations=len(THEOREMS), discharged=0, checker_cmd='(not reached)', trusted_base=[], evaluations=0, distinct_nontrivial=0)
    nv = 0
    for v in violations:
        p = write_replay(pid, 'violation_%d.json' % nv, v); nv += 1
        print('VIOLATION property=%s replay=%s' % (pid, p)); rc = 1
    if not violations and (proof_broken or corr_broken):
        p = write_replay(pid, 'unproved.json', dict(proof_obligations_broken=proof_broken, correspondence_broken=corr_broken,
                         note='no concrete failing input was found by the search; the property is no longer shown to hold'))
        print('VIOLATION property=%s replay=%s no-failing-input-found' % (pid, p)); rc = 1; nv += 1
    for k in known:
        if k.get('status') == 'open':
            print('KNOWN-FINDING: property=%s %s' % (pid, k['what']))
    cov['proof_obligations_broken'] = proof_broken; cov['correspondence_broken'] = corr_broken[:5]
    write_evidence(pid, tier, 'proof', cov, time.time() - t0, nv,
                   ['x86-64 Linux host; gcc builds the scratch copy of /repo with -DCHIBICC_VERIF',
                    'values are non-NULL pointers; keys are arbitrary byte strings with explicit length'])
    print('%s %s: %s (%d evaluations, %.1fs)' % (pid, tier, 'OK' if rc == 0 else 'FAILED', cov.get('evaluations', 0), time.time() - t0))
    return rc

if __name__ == '__main__':
    sys.exit(main())
