#!/usr/bin/env python3
"""C07 - translation-time constant evaluation equals run-time evaluation.
   proof (the folder model computes the C11 value and type of every defined integer constant
   expression) + correspondence (static initializers, enum values, array bounds, case labels,
   bit-field widths, _Alignas; the same expressions evaluated at run time on volatile operands;
   undefined divisions are diagnosed, not crashed on)."""
import os, sys, time, random, json
sys.path.insert(0, os.path.dirname(os.path.abspath(__file__)))
from vlib import *
from exprgen import *

PID = 'C07'
THEOREMS = ['C07_type_is_c11', 'C07_fold_is_c11', 'C07_fold_never_host_undefined', 'C07_nonvacuous',
            # package ffold (Properties_C07_ffold.v; Flocq): the constant evaluator on floating operands
            'C07_ffold_arith_node_partial', 'C07_ffold_neg_node_partial', 'C07_ffold_cast_to_fp_partial', 'C07_ffold_truth_partial', 'C07_ffold_static_u64_witness', 'C07_ffold_tree_nonvacuous', 'C07_ffold_cmp_nonvacuous', 'C07_ffold_tree_partial', 'C07_ffold_equals_runtime_partial', 'C07_ffold_fp_tree_nonvacuous']
MODELRUN = os.path.join(VERIF, 'ocaml/modelrun')
PRINTF = 'int printf(const char *, ...);\n'

def structured_cases(rng):
    """depth 1, exhaustive in structure: every binary operator x every ordered type pair, unary x type, casts"""
    out = []
    for op in BINOPS:
        for ta in TYPES:
            for tb in TYPES:
                a = ('L', ta, rand_value(rng, ta))
                b = ('L', tb, rng.choice([0, 1, 2, 7, 31]) if op in ('shl', 'shr') and rng.random() < 0.7 and tb != 'bool' else rand_value(rng, tb))
                out.append(('B', op, a, b))
    for op in UNOPS:
        for t in TYPES:
            for v in (tmin(t), tmax(t), rand_value(rng, t)):
                out.append(('U', op, ('L', t, v)))
    for t in TYPES:
        for s in TYPES:
            for v in (tmin(s), tmax(s), rand_value(rng, s)):
                out.append(('C', t, ('L', s, v)))
    return out

def main():
    run = Run(PID, THEOREMS)
    rng = run.rng
    try:
        src = build_impl()
    except BuildFailed as e:
        run.proof_broken.append('scratch build of /repo failed: ' + str(e)[-800:])
        return run.finish(dict(evaluations=0), [], [])
    wd = scratch_dir()
    run.check_proofs(deps=['theories/Model/ConstFold.vo'], extra=['ffold'])
    NCORPUS = run_corpus(run, PID, src)          # minimised past failures first
    rc, o, e = sh([os.path.join(VERIF, 'ocaml/build.sh')], timeout=900)
    if rc != 0:
        run.corr_broken.append('extracted model does not build: ' + (o + e)[-300:])
        return run.finish(dict(evaluations=0), [], [])
    CHIBI = [os.path.join(src, 'chibicc')]

    cands = structured_cases(rng)
    nrand = 1500 if run.quick() else 12000
    for i in range(nrand):
        cands.append(gen_expr(rng, rng.choice([2, 2, 3, 3, 4] if run.quick() else [2, 3, 4, 5, 6])))
    spec = spec_query(MODELRUN, cands)
    valid = [(e, s) for e, s in zip(cands, spec) if s[1] is not None]
    undefined = [(e, s) for e, s in zip(cands, spec) if s[1] is None]
    dist = dict(candidates=len(cands), defined=len(valid), undefined=len(undefined), by_depth={}, model_err={})
    for e, s in valid: dist['by_depth'][depth_of(e)] = dist['by_depth'].get(depth_of(e), 0) + 1
    for e, s in undefined: dist['model_err'][s[3] if not s[3].lstrip('-').isdigit() else 'value'] = dist['model_err'].get(s[3] if not s[3].lstrip('-').isdigit() else 'value', 0) + 1
    # the model must agree with the proved-about spec wherever the spec is defined (this is the theorem, re-run)
    for e, s in valid:
        if s[0] != s[2] or str(s[1] if not (s[0] == 'u64' and s[1] >= 2**63) else s[1] - 2**64) != s[3]:
            run.corr_broken.append('folder model %s %s differs from spec %s %s on %s' % (s[2], s[3], s[0], s[1], to_prefix(e))); break

    evals = 0; nontriv = set(); samples = []
    CH = 400
    def one_chunk(ci):
        chunk = valid[ci:ci + CH]
        pool = VarPool()
        decl, body = [], []
        for i, (e, s) in enumerate(chunk):
            ce = to_const_c(e)
            decl.append('unsigned long g%d = (unsigned long)(%s); int z%d = sizeof(%s); int n%d = ((typeof(%s))-1 < 0);' % (i, ce, i, ce, i, ce))
            rv = to_c(e, pool.leaf)
            body.append('  printf("%%lu %%d %%d %%lu\\n", g%d, z%d, n%d, (unsigned long)(%s));' % (i, i, i, rv))
            if i % 7 == 0:
                T, V = s[0], s[1]
                eqv = '((%s) == %s)' % (ce, lit_c(T, V))
                decl.append('enum { K%d = %s + 3 }; char a%d[%s + 2]; struct B%d { int f : %s + 4; int g : 9; }; struct A%d { char c; _Alignas(%s ? 16 : 8) char al; };' % (i, eqv, i, eqv, i, eqv, i, eqv))
                body.append('  { int hit = 0; switch (1) { case %s: hit = 1; } struct B%d b; b.g = 0; b.f = 15; int f15 = b.f; b.f = 16; int f16 = b.f; printf("P %%d %%d %%d %%d %%d %%d\\n", K%d, (int)sizeof(a%d), hit, (int)(long)&((struct A%d *)0)->al, f15, f16); }' % (eqv, i, i, i, i))
        text = PRINTF + pool.decls() + '\n'.join(decl) + '\nint main(void) {\n' + '\n'.join(body) + '\n  return 0;\n}\n'
        f = os.path.join(wd, 'c%d.c' % ci); open(f, 'w').write(text)
        st, got = compile_run(CHIBI, f, os.path.join(wd, 'c%d.exe' % ci))
        return ci, chunk, text, st, got
    results = pmap(one_chunk, list(range(0, len(valid), CH)), workers=8)
    for ci, chunk, text, st, got in results:
        evals += len(chunk)
        if st != 'ok':
            # locate the offending expression by compiling them one at a time
            found = False
            for i, (e, s) in enumerate(chunk):
                f1 = os.path.join(wd, 'one.c'); open(f1, 'w').write('unsigned long g = (unsigned long)(%s);\n' % to_const_c(e))
                rc, o, er = sh(CHIBI + ['-cc1', '-cc1-input', f1, '-cc1-output', '/dev/null', f1])
                if rc != 0:
                    run.violation(dict(kind='defined-constant-rejected-or-crash', expression=to_const_c(e), c11_type=s[0], c11_value=s[1], exit=rc, stderr=er[-300:],
                                       replay_program=open(f1).read()), dict(area='fold', top=e[0] + ':' + str(e[1])))
                    found = True; break
            if not found:
                run.violation(dict(kind='constant-program', what=st, input_file=write_replay(PID, 'c%d.c' % ci, text)), dict(area='fold-program'))
            continue
        lines = [l for l in got.strip().split('\n')]
        li = 0
        for i, (e, s) in enumerate(chunk):
            T, V = s[0], s[1]
            exp = '%d %d %d %d' % (conv('u64', V), WIDTH[T] // 8 if T != 'bool' else 1, 1 if T in SIGNED else 0, conv('u64', V))
            g = lines[li] if li < len(lines) else 'missing'; li += 1
            if depth_of(e) >= 2 or any(abs(x[2]) >= 2**31 - 1 for x in [e[2], e[3] if len(e) > 3 else e[2]] if isinstance(x, tuple) and x[0] == 'L'): nontriv.add(to_prefix(e))
            if g != exp:
                gs, xs = g.split(' '), exp.split(' ')
                what = 'translation-time value' if gs[0] != xs[0] else 'type (size/signedness)' if gs[1:3] != xs[1:3] else 'run-time value'
                if run.violation(dict(kind='constant-expression', expression=to_const_c(e), what_differs=what, got=g, expected=exp,
                                      meaning='static-initializer value, sizeof, is_signed, run-time value on volatile operands', c11_type=T, c11_value=V,
                                      replay_program=PRINTF + 'unsigned long g = (unsigned long)(%s);\nint main(void) { printf("%%lu %%d\\n", g, (int)sizeof(%s)); return 0; }\n' % (to_const_c(e), to_const_c(e))),
                                 dict(area='fold', what=what, top=e[0] + ':' + str(e[1]))):
                    pass
            if i % 7 == 0:
                g = lines[li] if li < len(lines) else 'missing'; li += 1
                if g != 'P 4 3 1 16 15 -16':
                    run.violation(dict(kind='constant-position', expression=to_const_c(e), got=g, expected='P 4 3 1 16 15 -16',
                                       meaning='enum value, array bound, case label taken, _Alignas, bit-field width 5 (15 stays 15, 16 reads back -16)'),
                                  dict(area='fold-position', top=e[0] + ':' + str(e[1])))
        if len(samples) < 3: samples.append({'expression': to_const_c(chunk[0][0]), 'c11': list(chunk[0][1][:2])})

    # ---- floating operands inside integer constant expressions (6.6p6: floating constants that are the immediate operands of casts;
    # chibicc also folds comparisons, ! && || ?: and arithmetic on them): translation-time value = run-time value = gcc's value
    import math
    FL = ['0.5', '-0.25', '0.0', '-0.0', '1.5', '2.5', '255.9', '256.0', '-1.5', '3e9', '-3e9', '1e18', '0.75f', '1e-30f', '(1.0/3)', '0.5L', '65535.99', '2147483647.5', '-128.9', '127.5', '4294967295.5', '1e-320']
    def fv(t): return float(eval(t.rstrip('fL').replace('(1.0/3)', '(1.0/3)')))
    ITS = [('_Bool', 0, 1), ('signed char', -128, 127), ('unsigned char', 0, 255), ('short', -32768, 32767), ('unsigned short', 0, 65535), ('int', -2**31, 2**31 - 1), ('unsigned', 0, 2**32 - 1), ('long', -2**63, 2**63 - 1), ('unsigned long', 0, 2**64 - 1)]
    fexprs = []
    for a in FL:
        va = fv(a)
        for (t, lo, hi) in ITS:
            if t == '_Bool' or lo <= math.trunc(va) <= hi: fexprs.append(('(%s)$A' % t, a, '1.0'))
        fexprs += [('!$A', a, '1.0'), ('($A ? 3 : 4)', a, '1.0'), ('(int)(-$A < 0)', a, '1.0'), ('(_Bool)-$A', a, '1.0'), ('(int)(_Bool)$A + (int)(_Bool)(float)$A', a, '1.0')]
        for b in rng.sample(FL, 4):
            fexprs += [('($A < $B) + 2 * ($A <= $B) + 4 * ($A == $B) + 8 * ($A != $B) + 16 * ($A > $B) + 32 * ($A >= $B)', a, b), ('($A && $B) + 2 * ($A || $B)', a, b), ('($A && 1) + 2 * (0 || $B) + 4 * !($A && $B)', a, b)]
            if abs(va + fv(b)) < 2e9 and abs(va * fv(b)) < 2e9: fexprs += [('(int)($A + $B) + (int)($A * $B)', a, b), ('(long)($A - $B)', a, b)]
    ftext = [PRINTF]; fbody = []
    for i, (tpl, a, b) in enumerate(fexprs):
        lit = tpl.replace('$A', '(' + a + ')').replace('$B', '(' + b + ')')
        ftext.append('static long fs%d = %s; enum { fe%d = (int)(%s) }; char fa%d[(int)(%s) %% 7 + 8];' % (i, lit, i, lit, i, lit))
        ta = 'float' if a.endswith('f') else 'long double' if a.endswith('L') else 'double'; tb = 'float' if b.endswith('f') else 'long double' if b.endswith('L') else 'double'
        ftext.append('static long fr%d(void) { volatile %s va = %s; volatile %s vb = %s; return %s; }' % (i, ta, a, tb, b, tpl.replace('$A', 'va').replace('$B', 'vb')))
        fbody.append('  printf("%%ld %%d %%d %%ld\\n", fs%d, (int)fe%d, (int)sizeof(fa%d), fr%d());' % (i, i, i, i))
    ftext.append('int main(void) {\n' + '\n'.join(fbody) + '\n  return 0; }\n')
    ff = os.path.join(wd, 'fconst.c'); open(ff, 'w').write('\n'.join(ftext))
    stc, gotc = compile_run(CHIBI, ff, ff + '.c.exe'); stg, gotg = compile_run(['gcc', '-w', '-O0', '-std=gnu11'], ff, ff + '.g.exe')
    if stg != 'ok': run.corr_broken.append('floating-operand constant program fails under gcc: ' + stg[:300])
    elif stc != 'ok': run.violation(dict(kind='constant-program', what=stc[:400], note='integer constant expressions with floating operands', input_file=write_replay(PID, 'fconst.c', '\n'.join(ftext))), dict(area='fold-float-operand', what='rejected'))
    else:
        lc, lg = gotc.strip().split('\n'), gotg.strip().split('\n')
        for i, (tpl, a, b) in enumerate(fexprs):
            evals += 1; nontriv.add('f' + tpl + a + b)
            c_ = lc[i] if i < len(lc) else 'missing'; g_ = lg[i] if i < len(lg) else 'missing'
            cs = c_.split(' ')
            if c_ != g_ or (len(cs) == 4 and cs[0] != cs[3]):
                run.violation(dict(kind='constant-expression', expression=tpl.replace('$A', '(' + a + ')').replace('$B', '(' + b + ')'), got=c_, gcc=g_,
                                   meaning='static-initializer value, enum value, array bound (value % 7 + 8), run-time value on volatile operands: all four must agree with each other and with gcc'),
                              dict(area='fold-float-operand', top=tpl[:12]))

    # ---------------- case constants: converted to the PROMOTED type of the controlling expression (6.8.4.2p5) ----------------
    # generated switches over every integer type with labels inside and outside the range of the type (and of its promoted type), GNU ranges, and
    # inputs on and next to every label: the selected arm is gcc's and the one computed here from the rule
    CT = [('char', 8, True), ('signed char', 8, True), ('unsigned char', 8, False), ('short', 16, True), ('unsigned short', 16, False), ('_Bool', 1, False),
          ('int', 32, True), ('unsigned', 32, False), ('long', 64, True), ('unsigned long', 64, False)]
    def wrap(v, bits, sg):
        v &= (1 << bits) - 1
        return v - (1 << bits) if sg and v >> (bits - 1) else v
    def lit(v): return '(-%dL - 1)' % (-v - 1) if v < 0 else ('%dL' % v if v < 2**63 else '%dUL' % v)
    NSW = 16 if run.quick() else 120
    cl_text = ['int printf(const char *, ...);']; cl_main = []; cl_expect = []
    for k in range(NSW):
        tn, bits, sg = CT[k % len(CT)] if k < len(CT) else rng.choice(CT)
        pbits, psg = (32, True) if bits < 32 else (bits, sg)
        tlo, thi = (0, 1) if tn == '_Bool' else ((-(1 << (bits - 1)), (1 << (bits - 1)) - 1) if sg else (0, (1 << bits) - 1))
        labels = []; taken = set()
        for j in range(rng.randint(3, 8)):
            base = rng.choice([tlo, thi, thi + 1, tlo - 1, 0, -1, 1, 2, 1 << bits, (1 << bits) + 1, (1 << bits) + thi, 1 << 32, (1 << 32) + 1, (1 << 32) - 1, -(1 << 31), (1 << 31), 2**63 - 1, 44, 300, rng.randint(tlo, thi)])
            base = max(-2**63, min(2**64 - 1, base))
            if rng.random() < 0.2 and base < 2**63 - 8:
                lo, hi = base, base + rng.randint(1, 4)
                clo, chi = wrap(lo, pbits, psg), wrap(hi, pbits, psg)
                if clo > chi: continue                                           # an empty range after conversion: gcc warns, skip
                vals = set(range(clo, chi + 1))
            else:
                lo = hi = base; vals = {wrap(base, pbits, psg)}
            if vals & taken: continue                                            # duplicate after conversion: a constraint violation
            taken |= vals; labels.append((lo, hi, vals, len(labels) + 1))
        arms = ' '.join(('case %s: return %d;' % (lit(lo), r)) if lo == hi else ('case %s ... %s: return %d;' % (lit(lo), lit(hi), r)) for lo, hi, vals, r in labels)
        cl_text.append('static int cl%d(%s c) { switch (c) { %s default: return 0; } }' % (k, tn, arms))
        ins = {tlo, thi, 0, 1}
        for lo, hi, vals, r in labels:
            for v in (min(vals), max(vals), min(vals) - 1, max(vals) + 1, lo, hi): ins.add(1 if tn == '_Bool' and v else wrap(v, bits, sg) if tn != '_Bool' else 0)
        ins = sorted(ins)[:24]
        for v in ins:
            pv = wrap(v, pbits, psg) if bits >= 32 else v                        # value after promotion
            exp = next((r for lo, hi, vals, r in labels if pv in vals), 0)
            cl_main.append('  printf("%%d\\n", cl%d((%s)%s));' % (k, tn, lit(v))); cl_expect.append((k, tn, v, exp, arms))
    cl_text.append('int main(void) {\n' + '\n'.join(cl_main) + '\n  return 0; }\n')
    cf = os.path.join(wd, 'caselabels.c'); open(cf, 'w').write('\n'.join(cl_text))
    stc, gotc = compile_run(CHIBI, cf, cf + '.c.exe'); stg, gotg = compile_run(['gcc', '-w', '-O0', '-std=gnu11'], cf, cf + '.g.exe')
    if stg != 'ok': run.corr_broken.append('case-label program fails under gcc: ' + stg[-300:])
    elif stc != 'ok': run.violation(dict(kind='constant-program', what=stc[:400], note='case constants in and out of range of the controlling type', input_file=write_replay(PID, 'caselabels.c', '\n'.join(cl_text))), dict(area='case-label-conversion'))
    else:
        lc, lg = gotc.strip().split('\n'), gotg.strip().split('\n')
        for i, (k, tn, v, exp, arms) in enumerate(cl_expect):
            evals += 1; nontriv.add('cl%d.%d' % (k, i))
            c_ = lc[i] if i < len(lc) else 'missing'; g_ = lg[i] if i < len(lg) else 'missing'
            if g_ != str(exp): run.corr_broken.append('case-label rule of the harness disagrees with gcc: (%s)%d over {%s}: gcc %s, rule %d' % (tn, v, arms[:200], g_, exp)); break
            if c_ != g_:
                run.violation(dict(kind='case-label-conversion', controlling_type=tn, value=v, switch='switch (c) { %s default: return 0; }' % arms, got=c_, gcc=g_, c11=exp,
                                   meaning='6.8.4.2p5: each case constant is converted to the promoted type of the controlling expression; the arm selected for this value differs from gcc and from the rule'),
                              dict(area='case-label-conversion', top=tn))

    # undefined divisions in constant expressions must be diagnosed (exit 1 with a message), never crash the compiler
    divs = [(e, s) for e, s in undefined if s[3] in ('err-div-zero', 'err-overflow')][:60 if run.quick() else 400]
    divs += [(('B', 'div', ('L', 'i32', 1), ('L', 'i32', 0)), None), (('B', 'mod', ('L', 'u64', 5), ('L', 'u8', 0)), None),
             (('B', 'div', ('L', 'i64', -2**63), ('L', 'i32', -1)), None), (('B', 'mod', ('L', 'i64', -2**63), ('L', 'i32', -1)), None), (('B', 'mod', ('L', 'i64', -2**63), ('L', 'i64', -1)), None)]
    divs = [(e, s, i) for i, (e, s) in enumerate(divs)]
    def one_div(x):
        e, s, i = x
        f1 = os.path.join(wd, 'dz%d.c' % i); open(f1, 'w').write('long g = %s;\n' % to_const_c(e))
        rc, o, er = sh(CHIBI + ['-cc1', '-cc1-input', f1, '-cc1-output', '/dev/null', f1])
        return e, rc, er
    for e, rc, er in pmap(one_div, divs):
        evals += 1
        if rc != 1 or ('division by zero' not in er and 'overflow' not in er):
            run.violation(dict(kind='undefined-division-not-diagnosed', expression=to_const_c(e), exit=rc, stderr=er[-200:],
                               replay_program='long g = %s;\n' % to_const_c(e)), dict(area='fold-div-zero'))

    # ---------------- tie of package ffold: floating constant trees: static bytes = run-time bytes = Coq spec = Coq model of the folder ----------------
    tie_dist = {}; tie_e = tie_n = 0
    if not os.environ.get('VERIF_SKIP_PROOFS'):
        tie_e, tie_n, tie_dist, tie_samples = run_tie(run, 'ffold', src, 300 if run.quick() else 3000, 'fold-float-operand')
    cov = dict(evaluations=evals, distinct_nontrivial=len(nontriv),
               rule='depth 1 exhaustive in structure (18 binary operators x 81 type pairs, 4 unary x 9, 81 casts, boundary values) + random trees of depth 2-%d over 9 types; each defined expression (by the Coq spec) is placed in a static initializer (value), sizeof/typeof (type), evaluated at run time on volatile operands, and every 7th in enum/array-bound/case/bit-field-width/_Alignas positions; undefined divisions must be diagnosed; non-trivial = depth >= 2 or an operand at a 32/64-bit boundary' % (4 if run.quick() else 6),
               samples=samples, input_distribution=dist, traces_validated_against_impl=len(valid))
    cov['rule'] = cov.get('rule', '') + ' (f) package ffold: random constant trees over float / double / integer literal leaves (incl. operands that round differently at 64 and at 53 / 24 bits, and objects whose type differs from the type of the initializer): bytes of the static object = run-time bytes = Coq spec (Flocq) = Coq model of eval_double / eval2 / write_gvar_data; enum and array-bound positions for integer results'; cov['tie_ffold'] = tie_dist; cov['evaluations'] = cov.get('evaluations', 0) + tie_e; cov['distinct_nontrivial'] = len(nontriv) + tie_n
    return run.finish(cov,
        ['conversion of out-of-range values to signed types wraps and >> of negative values is arithmetic (the implementation-defined choices of gcc and chibicc)',
         'floating constant expressions are C02\'s; address constants are C05\'s'],
        ['Coq 8.16.1 kernel; no axioms expected (Print Assumptions in evidence)',
         'hand-written model Model/ConstFold.v of eval2/narrow_to_type/eval_div/get_common_type tied by the generated programs (static-initializer values = model values)',
         'the parser from source text to AST is tied by correspondence only; extraction with ExtrOcamlBasic only'])

if __name__ == '__main__':
    sys.exit(main())
