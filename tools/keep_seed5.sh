#!/bin/bash
# keep_seed3.sh <ID> "<detected_by text>": keep the confirmed round-5 change /tmp/mut5/<ID>/out as seeded/<ID>_3 and remove its scratch worktree
id=$1; det=$2; name=${id}_5
mkdir -p /verif/seeded/$name && cp -r /tmp/mut5/$id/out/* /verif/seeded/$name/
res=$(/verif/tools/confirm_seed.sh /verif/seeded/$name | tail -1); ok=$?
echo "$res"
python3 - "$name" "$det" "$res" "$(git -C /repo rev-parse --short HEAD)" <<'PY'
import json,sys
name,det,res,head=sys.argv[1:5]
p='/verif/seeded/%s/meta.json'%name
try: m=json.load(open(p))
except Exception: m={}
m['confirmed_by_me']={'base_commit':head,'ran':'tools/confirm_seed.sh seeded/%s -> %s'%(name,res),'detected_by':det}
json.dump(m,open(p,'w'),indent=1)
PY
[ $ok = 0 ] && { git -C /repo worktree remove --force /tmp/mut5/$id/wt 2>/dev/null; rm -rf /tmp/mut5/$id; }
exit $ok
