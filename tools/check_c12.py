#!/usr/bin/env python3
"""C12 - self-hosting fixpoint.
   proofs (label numbering is consecutive, unique and a function of the tree) + transfer by
   correspondence: the correspondences of the other properties (proved models vs implementation)
   are re-run against the SELF-COMPILED compiler (stage 2), so every theorem tied to the gcc-built
   binary is tied to the chibicc-built one as well; + fixpoint observation (the search for a
   failing input): stage 1 (gcc-built), stage 2 (built by stage 1) and stage 3 (built by stage 2)
   must give byte-identical -S / -E output, diagnostics and exit status on the compiler's own
   sources, the bundled tests, generated programs and erroneous inputs, under several option sets,
   with and without address-space randomisation and from different working directories."""
import os, sys, time, random, json, re, glob, subprocess
sys.path.insert(0, os.path.dirname(os.path.abspath(__file__)))
from vlib import *

PID = 'C12'
THEOREMS = ['C12_labels_consecutive', 'C12_labels_unique', 'C12_nonvacuous']
SUB_QUICK = ['C07', 'C09', 'C10', 'C18', 'C19', 'C20', 'C03', 'C05', 'C02']
SUB_ALL = ['C01', 'C02', 'C03', 'C04', 'C05', 'C06', 'C07', 'C08', 'C09', 'C10', 'C11', 'C15', 'C17', 'C18', 'C19', 'C20']

def const_positions_program():
    """constants of every arithmetic type in every position an expression can take (the bytes of a constant are printed into the
    assembly: whatever the code generator does not initialise shows up as run-to-run or stage-to-stage differences)"""
    consts = [('int', '7'), ('long', '7000000000L'), ('unsigned char', "'c'"), ('float', '0.1f'), ('double', '0.1'), ('long double', '0.1L'), ('long double', '3.0L'), ('_Bool', '1'), ('char *', '"s"')]
    L = ['int printf(const char *, ...); int sum(int n, ...); struct S { long double ld; float f; char c; double d; };']
    for i, (t, c) in enumerate(consts):
        L.append('%s g%d = %s; static %s sg%d[2] = { %s }; struct S st%d = { %s, 0.5f, 1, 2.5 };' % (t, i, c, t, i, c, i, '0.25L' if t == 'char *' else c))
        L.append('%s fx%d(%s p, int k, ...) { return p; }' % (t, i, t))
        L.append('%s r%d(int k) { if (k) return %s; %s l = %s; %s a[3] = { %s, %s }; struct S s = { %s, 1.5f }; s.ld = %s; printf("%%d", k, %s, l, a[1]); sum(2, %s, %s); fx%d(%s, 1, %s, %s); return k ? %s : l; }'
                 % (t, i, c, t, c, t, c, c, '0.5L' if t == 'char *' else c, '1.0L' if t == 'char *' else c, c, c, c, i, c, c, c, c))
        if t != 'char *':
            L.append('%s u%d(int k) { %s x = -%s; x += %s; x = x * %s + (%s)%s; return (k ? %s : -%s) + ((%s)%s < x) + !%s; }' % (t, i, t, c, c, c, t, c, c, c, 'long double', c, c))
    L.append('int main(void) { return 0; }')
    return '\n'.join(L) + '\n'

def main():
    run = Run(PID, THEOREMS)
    rng = run.rng
    try:
        os.environ['VERIF_STAGE'] = '3'
        s3 = build_impl()
        del os.environ['VERIF_STAGE']
    except BuildFailed as e:
        os.environ.pop('VERIF_STAGE', None)
        if 'stage' in str(e):
            run.violation(dict(kind='self-compilation-fails', detail=str(e)[-800:]), dict(area='bootstrap'))
        else:
            run.proof_broken.append('scratch build of /repo failed: ' + str(e)[-800:])
        return run.finish(dict(evaluations=0), [], [])
    base = os.path.dirname(s3); s1 = os.path.join(base, 'src'); s2 = os.path.join(base, 'stage2')
    stages = [('stage1', s1), ('stage2', s2), ('stage3', s3)]
    run.check_proofs(deps=['theories/Proofs/LabelsProofs.vo'])
    NCORPUS = run_corpus(run, PID, s1)          # minimised past failures first
    wd = scratch_dir()
    evals = 0; nontriv = 0; dist = {}; samples = []
    def count(k, n=1): dist[k] = dist.get(k, 0) + n

    # ---------------- inputs ----------------
    inputs = []      # (path, extra options)
    for f in sorted(glob.glob(os.path.join(s1, '*.c'))): inputs.append((f, ['-D' + GUARD]))
    for f in sorted(glob.glob(os.path.join(s1, 'test', '*.c'))): inputs.append((f, ['-I' + os.path.join(s1, 'test')]))
    # generated programs from the other properties' generators
    import check_c03, check_c05, check_c09, check_c10
    for k in range(20 if run.quick() else 150):
        f = os.path.join(wd, 'g3_%d.c' % k); open(f, 'w').write(check_c03.TraceGen(rng).program()); inputs.append((f, []))
        f = os.path.join(wd, 'g9_%d.c' % k); open(f, 'w').write(check_c09.Gen(rng, exotic=(k % 4 == 0)).program()); inputs.append((f, ['-E-only']))
        f = os.path.join(wd, 'g3s_%d.c' % k); open(f, 'w').write(check_c03.ScopeGen(rng).program()[0]); inputs.append((f, []))
    # constant folding at the width and rounding boundaries, erroneous inputs
    extra = ['unsigned long a = (unsigned long)1e19; unsigned long b = (unsigned long)9223372036854775808.0; double c = 18446744073709551615UL; float d = 0.1f + 0.2f; long double e = 1.0L / 3;\nint x[(int)2.9]; _Bool f = 0.5; long g = -9223372036854775807L - 1; int h = 1 << 31 >> 31; unsigned char i = 300;\nint main(void) { return (int)(a >> 60) + (int)c + (int)d; }\n',
             'int main(void) { return 1 +; }\n', 'int f(void) { undeclared = 3; }\n', '#include "nonexistent.h"\n', '#if 1\nint x;\n', 'char *s = "unterminated;\n', 'int a[-1];\n', '#define F(x, y) x\nint v = F(1);\n',
             'struct S { int a : 40; };\n', 'int main(void) { goto nowhere; }\n', '\xef\xbb\xbfint main(void) { return 0; }\r\n', 'int main(void) { switch (1) { case 1: case 1: ; } }\n']
    for i, t in enumerate(extra):
        f = os.path.join(wd, 'x%d.c' % i); open(f, 'wb').write(t.encode('latin-1')); inputs.append((f, []))
    # bytes >= 0x80 in every place a byte can stand (after a backslash in string and character literals of every prefix, inside literals,
    # identifiers and comments): a table indexed by a (signed) char reads whatever lies in front of it - other data in each build
    hb = []
    for b in list(range(0x80, 0x100, 5)) + [0x80, 0xbf, 0xc3, 0xe2, 0xf0, 0xff]:
        ch = bytes([b])
        hb.append(b'char s%d[] = "\\' + ch + b'z"; char t%d[] = "a' % b + ch + b'b"; int c%d = \'\\' % b + ch + b'\'; /* ' + ch + b' */ // ' + ch + b'\n')
        hb[-1] = hb[-1].replace(b'char s%d', b'char s%d' % b, 1).replace(b'int c%d', b'int c%d' % b, 1)
    hb.append('int caf\u00e9 = 1; char *u = u8"\u00e9\\\u00e9"; int w = L\'\u00e9\';\n'.encode('utf-8'))
    fhb = os.path.join(wd, 'highbytes.c'); open(fhb, 'wb').write(b''.join(hb)); inputs.append((fhb, []))
    # erroneous inputs with SEVERAL offending operands: which one is reported must not depend on the build
    for i, t in enumerate(['int g; int h; static int x = g + h;\n', 'int g, h; int a[g * h];\n', 'int g, h; enum { E = g < h };\n', 'int g; double d; static int y = (g & 1) | (int)d;\n', 'int g, h; int f(int x) { switch (x) { case g - h: return 1; } return 0; }\n',
                           'int g, h; struct S { int b : g ^ h; };\n', 'int g, h; static int z = g == h ? g : h;\n', 'int g, h; static long q = (g << h) + (g >> h) + (g % h) + (g / h);\n']):
        f = os.path.join(wd, 'ord%d.c' % i); open(f, 'w').write(t); inputs.append((f, []))
    fcp = os.path.join(wd, 'constpos.c'); open(fcp, 'w').write(const_positions_program()); inputs.append((fcp, []))
    optsets = [['-S'], ['-E'], ['-S', '-fPIC'], ['-S', '-fno-common'], ['-E', '-DNDEBUG', '-DX=(1+2)', '-UGUARD_UNUSED'], ['-S', '-g']] if not run.quick() else [['-S'], ['-E'], ['-S', '-fPIC']]

    def compile_with(stage_dir, f, opts, cwd=None, setarch=False):
        out = os.path.join(wd, 'out_%d_%d' % (os.getpid(), abs(hash((stage_dir, f, tuple(opts), cwd, setarch))) % 10**9))
        cmd = ([ 'setarch', 'x86_64', '-R'] if setarch else []) + [os.path.join(stage_dir, 'chibicc')] + opts + ['-o', out, f]
        rc, o, e = sh(cmd, cwd=cwd, timeout=120)
        data = open(out, 'rb').read() if os.path.exists(out) else None
        if os.path.exists(out): os.remove(out)
        # the compiler finds its own headers next to its binary: its directory shows up in .file records and messages; neutralise it
        for _, sd in stages:
            if data is not None: data = data.replace((sd + '/').encode(), b'<STAGE>/')
            e = e.replace(sd + '/', '<STAGE>/')
        return rc, data, e
    jobs = []
    for f, xo in inputs:
        for opts in optsets:
            if '-E-only' in xo and '-E' not in opts: continue
            jobs.append((f, [o for o in xo if o != '-E-only'] + opts))
    def one(j):
        f, opts = j
        res = [compile_with(d, f, opts) for _, d in stages]
        return j, res
    for (f, opts), res in pmap(one, jobs):
        evals += 1; nontriv += 1; count('fixpoint-' + ('E' if '-E' in opts else 'S'))
        if res[0][0] not in (0, 1) or res[1][0] not in (0, 1):
            count('abnormal-exit')
        for k in (1, 2):
            if res[k] != res[0]:
                # confirm sequentially (a loaded machine can time a run out): the difference must show again
                again = [compile_with(d, f, opts) for _, d in stages]
                if again[k] == again[0]: count('unconfirmed-difference'); continue
                res = again
                what = 'exit status' if res[k][0] != res[0][0] else 'output bytes' if res[k][1] != res[0][1] else 'diagnostics'
                run.violation(dict(kind='stages-differ', input=open(f, 'rb').read().decode('latin-1')[:3000] if f.startswith(wd) else os.path.relpath(f, s1), options=opts, differing=what, stage='stage%d' % (k + 1),
                                   stage1=dict(exit=res[0][0], stderr=res[0][2][:300]), other=dict(exit=res[k][0], stderr=res[k][2][:300]),
                                   how='build chibicc with gcc (stage 1), with stage 1 (stage 2), with stage 2 (stage 3); run each on the input with the options; compare exit status, output file and stderr'),
                              dict(area='fixpoint', construct=what))
                break
    # ---------------- independence of process / address space / working directory ----------------
    det_inputs = [j for j in jobs if j[0].startswith(s1)][:30] + [j for j in jobs if not j[0].startswith(s1)][:30]
    def one_det(j):
        f, opts = j
        a = compile_with(s2, f, opts)
        b = compile_with(s2, f, opts, setarch=True)
        c = compile_with(s2, f, opts, cwd='/')
        return j, a, b, c
    for (f, opts), a, b, c in pmap(one_det, det_inputs):
        evals += 1; nontriv += 1; count('determinism')
        if a != b or a != c:
            a2 = compile_with(s2, f, opts); b2 = compile_with(s2, f, opts, setarch=True); c2 = compile_with(s2, f, opts, cwd='/')
            if a2 == b2 == c2 == a: count('unconfirmed-difference'); continue
            run.violation(dict(kind='output-depends-on-process', input=os.path.basename(f), options=opts, differs='without ASLR' if a != b else 'from another working directory'), dict(area='determinism', construct='aslr-cwd'))

    # ---------------- the output must not depend on uninitialised memory: stage 1 under valgrind memcheck ----------------
    # (bytes the compiler never wrote - padding of a union, a field left unset - differ from run to run and between a gcc-built and a
    # self-built compiler, which zero-fills its locals; memcheck reports the first use of such a byte in a branch, an address or the output)
    if sh('valgrind --version')[0] == 0:
        mc_inputs = [(fcp, [])] + [(f, xo) for f, xo in inputs if f.startswith(wd) and '-E-only' not in xo][:(10 if run.quick() else 80)]
        mc_inputs += [(f, xo) for f, xo in inputs if f.startswith(os.path.join(s1, 'test'))][::(5 if run.quick() else 1)] + [(os.path.join(s1, n), ['-D' + GUARD]) for n in (['type.c', 'unicode.c'] if run.quick() else ['type.c', 'unicode.c', 'tokenize.c', 'preprocess.c', 'parse.c', 'codegen.c', 'main.c', 'hashmap.c', 'strings.c'])]
        def one_mc(j):
            f, xo = j
            out = os.path.join(wd, 'mc_%d.s' % (abs(hash(f)) % 10**9))
            cmd = ['valgrind', '-q', '--error-exitcode=99', os.path.join(s1, 'chibicc'), '-cc1', '-I' + os.path.join(s1, 'include'), '-I/usr/local/include', '-I/usr/include/x86_64-linux-gnu', '-I/usr/include'] + xo + ['-cc1-input', f, '-cc1-output', out, f]
            rc, o, e = sh(cmd, timeout=300)
            return j, rc, e
        for (f, xo), rc, e in pmap(one_mc, mc_inputs):
            evals += 1; nontriv += 1; count('memcheck')
            if rc == 99 or '== Invalid ' in e or 'uninitialised' in e:
                first = [l for l in e.split('\n') if l.startswith('==')][:8]
                what = 'uninitialised' if 'uninitialised' in e else 'invalid-access'
                run.violation(dict(kind='output-depends-on-uninitialised-memory' if what == 'uninitialised' else 'invalid-memory-access', input=open(f, 'rb').read().decode('latin-1')[:3000] if f.startswith(wd) else os.path.relpath(f, s1), options=xo,
                                   valgrind='\n'.join(first), how='valgrind -q --error-exitcode=99 chibicc -cc1 ... on the gcc-built compiler'), dict(area='determinism', construct='memcheck-' + what))
    else: count('valgrind-missing')

    # ---------------- transfer: the other properties' correspondences against stage 2 ----------------
    subs = SUB_QUICK if run.quick() else SUB_ALL
    sh([os.path.join(VERIF, 'ocaml/build.sh')], timeout=900)
    env = dict(os.environ, VERIF_PREBUILT=s2, VERIF_SUFFIX='_stage2', VERIF_SKIP_PROOFS='1', VERIF_SKIP_MODELBUILD='1', VERIF_TIER='quick')
    def one_sub(pid):
        rc, o, e = sh([sys.executable, os.path.join(VERIF, 'tools', 'check_%s.py' % pid.lower()), 'quick'], env=env, timeout=1500)
        return pid, rc, o, e
    for pid, rc, o, e in pmap(one_sub, subs, workers=3):
        evals += 1; nontriv += 1; count('transfer-' + pid)
        if rc != 0:
            pid, rc, o, e = one_sub(pid)          # once more, alone
            if rc == 0: count('unconfirmed-difference'); continue
            vio = [l for l in o.split('\n') if l.startswith('VIOLATION')]
            run.violation(dict(kind='correspondence-fails-for-self-compiled-compiler', property=pid, lines=vio[:4], tail=(o + e)[-600:],
                               how='VERIF_STAGE=2 (or VERIF_PREBUILT=<stage-2 directory>) ./check %s quick: the proved model of %s no longer matches the compiler when that compiler was built by chibicc itself' % (pid, pid)),
                          dict(area='transfer', construct=pid))
    cov = dict(evaluations=evals, distinct_nontrivial=nontriv, input_distribution=dist, samples=samples,
               rule='stage 1/2/3 built from the current tree (guard on); %d (input, option set) pairs - the %d sources of the compiler, the bundled tests, generated control-flow / scoping / macro programs, constant-folding boundaries and 11 erroneous inputs under %d option sets: exit status, output bytes and diagnostics identical across the three stages; %d runs repeated without ASLR and from another working directory; quick-tier correspondences of %s re-run against the stage-2 binary' % (len(jobs), len(glob.glob(os.path.join(s1, '*.c'))), len(optsets), len(det_inputs), ', '.join(subs)),
               traces_validated_against_impl=nontriv)
    return run.finish(cov,
        ['__DATE__, __TIME__ and __TIMESTAMP__ do not occur in the inputs', 'gcc 12 builds stage 1; the assembler and linker are the system ones for all stages'],
        ['Coq 8.16.1 kernel, no axioms', 'the fixpoint itself (chibicc compiled by chibicc behaves like chibicc compiled by gcc on EVERY input) is compiler correctness applied to the compiler\'s own sources and is NOT proved: it is observed on the inputs listed, and it is proved only to the extent that the theorems of the other properties, re-tied to the stage-2 binary by their correspondences, cover the C the sources use',
         'Model/Labels.v abstracts count()/new_unique_name to one counter over a tree'])

if __name__ == '__main__':
    sys.exit(main())
