#!/usr/bin/env python3
"""Tie of the termination theorems of Proofs/MacroTermProofs.v (C09, package mterm) to the real chibicc.

   run(src_dir, seed, n, verif_dir) generates definition sets of 2-6 object-like / function-like macros with
   cycles (self reference inside arguments F(F(1)), mutual recursion, invocations completed by the text after
   the replacement `#define F G` / `F(1)`, `f(2)(9)`, parentheses that come out of other macros, names re-met
   at depth, empty arguments, ## that builds macro names, #, variadics, __VA_OPT__, arity errors, unterminated
   invocations) followed by a text without directives, and for every case
     * runs the REAL `chibicc -E` under `timeout 10`: it must terminate with exit status 0 or 1;
     * evaluates Model.Macro.pp2 (coqc, one Cases_mterm.v) on the same bytes with fuel FUEL and 2*FUEL;
       theorem C09_mterm_expansion_terminates says a sufficient fuel exists and C09_mterm_fuel_monotone that
       any fuel whose result is not Fuel gives THE result, so the model must not answer Fuel;
     * evaluates the Coq spec Spec.MacroTermSpec (terminated_at: decided and unchanged with twice the fuel;
       settled: no replaceable object-like macro name left in the result) on the model's result AND on
       chibicc's own output (re-read with the lexer model, tokens marked only by what chibicc printed);
     * compares the token spellings: chibicc -E (re-read by Model.Lexer.tokenize) = model  -> impl_vs_model;
     * compares with `gcc -E -P -undef`: reported under impl_vs_spec only when gcc and the model agree with
       each other and chibicc differs, or when chibicc does not terminate / dies; a case where chibicc and
       the model agree and gcc differs is counted under distribution["gcc-differs"] and listed in
       "reference_disagreements" with a guessed cause (GNU extension, undefined behaviour, or a defect that
       chibicc and its model share and that has nothing to do with termination: those go to "known_findings").
   """
import os, sys, json, random, subprocess, tempfile, shutil, re, time, ast

FUEL = 4000
TIMEOUT = 10

MEM_LIMIT = 2 << 30          # a runaway expansion allocates without end: stop it before it hurts the machine

def _limit():
    import resource
    resource.setrlimit(resource.RLIMIT_AS, (MEM_LIMIT, MEM_LIMIT))

def sh(cmd, timeout=60, cwd=None, inp=None, limit=False):
    try:
        p = subprocess.run(cmd, capture_output=True, timeout=timeout, cwd=cwd, input=inp, preexec_fn=_limit if limit else None)
        return p.returncode, p.stdout, p.stderr
    except subprocess.TimeoutExpired:
        return 124, b'', b'TIMEOUT'

# ------------------------------------------------------------------ generator
OBJ = ['O1', 'O2', 'O3']
FUN = ['F', 'G', 'H', 'K']
PLAIN = ['a', 'b', '1', '2', '+', '*', ';', '[', ']', '"s"', 'x1', '7', 'a', 'b', 'c', '3', 'x1', 'y', '42', 'z']

class Gen:
    def __init__(self, rng):
        self.rng = rng
        self.feats = set()
        self.macros = {}        # name -> None (object-like) | (nparams, variadic)

    def pick_names(self):
        rng = self.rng
        k = rng.randint(2, 6)
        names = rng.sample(OBJ + FUN, k)
        if not any(x in FUN for x in names): names[0] = rng.choice(FUN)
        for nm in names:
            if nm in OBJ: self.macros[nm] = None
            else: self.macros[nm] = (rng.choice([0, 1, 1, 1, 1, 2]), rng.random() < 0.2)
        if rng.random() < 0.35: self.macros['LP'] = None
        if rng.random() < 0.35: self.macros['RP'] = None

    def call(self, f, params, depth, wrong=False):
        """text of an invocation of f with arguments made of body material"""
        rng = self.rng
        n, v = self.macros[f]
        k = n + (rng.randint(0, 2) if v else 0)
        if wrong:
            k = max(0, k + rng.choice([-1, 1])); self.feats.add('arity-error')
        args = []
        for _ in range(k):
            r = rng.random()
            if r < 0.15: args.append(''); self.feats.add('empty-arg')
            else: args.append(' '.join(self.material(params, depth + 1, rng.randint(1, 2))))
        return '%s(%s)' % (f, ','.join(args))

    def material(self, params, depth, count):
        rng = self.rng; out = []
        funs = [m for m in self.macros if self.macros[m] is not None]
        objs = [m for m in self.macros if self.macros[m] is None and m not in ('LP', 'RP')]
        for _ in range(count):
            r = rng.random()
            if r < 0.22 and params: out.append(rng.choice(params))
            elif r < 0.34: out.append(rng.choice(PLAIN))
            elif r < 0.46 and objs: out.append(rng.choice(objs)); self.feats.add('obj-ref')
            elif r < 0.70 and funs and depth < 3:
                f = rng.choice(funs)
                q = rng.random()
                if q < 0.62: out.append(self.call(f, params, depth)); self.feats.add('nested-call')
                elif q < 0.84: out.append(f); self.feats.add('bare-funlike-name')                 # completed by following text, or left alone
                elif q < 0.95 and 'LP' in self.macros: out.append('%s LP %s' % (f, rng.choice(PLAIN))); self.feats.add('paren-from-macro')
                elif q < 0.97: out.append('%s (' % f); self.feats.add('open-call')
                else: out.append(f)
            elif r < 0.76 and 'RP' in self.macros: out.append('RP'); self.feats.add('paren-from-macro')
            elif r < 0.775: out.append(')'); self.feats.add('stray-rparen')
            elif r < 0.84: out.append('( %s )' % rng.choice(PLAIN))
            else: out.append(rng.choice(PLAIN))
        return out

    def body(self, nm):
        rng = self.rng
        sig = self.macros[nm]
        if nm == 'LP': return '('
        if nm == 'RP': return ')'
        if sig is None:
            parts = self.material([], 0, rng.randint(0, 4))
            if rng.random() < 0.15: parts.append(nm); self.feats.add('self-ref')
            if rng.random() < 0.10: parts.append('O ## %d' % rng.randint(1, 3)); self.feats.add('paste-makes-macro-name')
            return ' '.join(parts)
        n, v = sig
        params = ['p', 'q'][:n]
        allp = params + (['__VA_ARGS__'] if v else [])
        parts = []
        for _ in range(rng.randint(0, 5)):
            r = rng.random()
            if r < 0.55: parts += self.material(allp, 0, 1)
            elif r < 0.63 and allp: parts.append('#' + rng.choice(allp)); self.feats.add('stringize')
            elif r < 0.75 and allp:
                a = rng.choice(allp + ['O', 'F', nm]); b = rng.choice(allp + ['1', '2', ''])
                if b == '': b = '1'
                parts.append('%s ## %s' % (a, b)); self.feats.add('paste')
            elif r < 0.80 and v: parts.append(', ## __VA_ARGS__'); self.feats.add('gnu-comma')
            elif r < 0.86 and v:
                parts.append('__VA_OPT__( %s )' % ' '.join(self.material(allp, 1, rng.randint(0, 2)))); self.feats.add('va_opt')
            elif r < 0.93: parts.append(nm if rng.random() < 0.5 else self.call(nm, allp, 1)); self.feats.add('self-ref')
            else: parts.append(rng.choice(PLAIN))
        return ' '.join(parts)

    def program(self):
        rng = self.rng
        self.pick_names()
        defs = []
        for nm, sig in self.macros.items():
            if sig is None: head = nm
            else:
                n, v = sig
                ps = ['p', 'q'][:n] + (['...'] if v else [])
                head = '%s(%s)' % (nm, ','.join(ps))
            defs.append('#define %s %s' % (head, self.body(nm)))
        funs = [m for m in self.macros if self.macros[m] is not None]
        lines = []
        for _ in range(rng.randint(1, 3)):
            parts = []
            for _ in range(rng.randint(1, 3)):
                r = rng.random()
                f = rng.choice(funs)
                if r < 0.45: parts.append(self.call(f, [], 0))
                elif r < 0.60: parts.append(self.call(f, [], 0) + '(%s)' % rng.choice(PLAIN + [''])); self.feats.add('call-of-result')
                elif r < 0.70: parts.append(self.call(f, [], 0).replace('(', ' (\n', 1)); self.feats.add('call-across-lines')
                elif r < 0.73: parts.append(self.call(f, [], 0, wrong=True))
                elif r < 0.75: parts.append('%s(%s' % (f, rng.choice(PLAIN))); self.feats.add('unterminated')
                else: parts += self.material([], 0, 1)
            lines.append(' '.join(parts))
            if rng.random() < 0.12:                       # the macro set changes while the text is processed (theorem C09_mterm_driver_terminates)
                nm = rng.choice(list(self.macros))
                lines.append('#undef ' + nm); self.feats.add('undef-in-text')
                if rng.random() < 0.6 and nm not in ('LP', 'RP'):
                    sig = self.macros[nm]
                    head = nm if sig is None else '%s(%s)' % (nm, ','.join(['p', 'q'][:sig[0]] + (['...'] if sig[1] else [])))
                    lines.append('#define %s %s' % (head, self.body(nm))); self.feats.add('redefine-in-text')
                lines.append(' '.join(self.material([], 0, 2)))
        return '\n'.join(defs) + '\n', '\n'.join(lines) + '\n'

BOUNDARY = [
    ('f29', '#define f(a) a*g\n#define g(a) f(a)\n', 'f(2)(9)\n'),
    ('f29-more', '#define f(a) a*g\n#define g(a) f(a)\n', 'f(2)(9)(3)(4) g(1)(2)\n'),
    ('self-in-arg', '#define F(x) [x]\n', 'F(F(F(1))) F(F)(2)\n'),
    ('mutual', '#define F(x) G(x) F\n#define G(x) F(x) G\n', 'F(1) G(2) F(G(3))\n'),
    ('completed-by-text', '#define F G\n#define G(x) x F\n', 'F(1)(2)(3) F\n'),
    ('completed-by-text2', '#define F(x) x G\n#define G(x) x F\n', 'F(1)(2)(3)(4)(5) ;\n'),
    ('paren-from-macro', '#define LP (\n#define RP )\n#define F(x) <x> F\n#define G F LP 1 RP\n', 'G F LP 2 RP F(3 RP F LP 4)\n'),
    ('rparen-other-level', '#define F(x) x F(\n#define G(x) F(x) 2)\n', 'G(1) 3) 4)\n'),
    ('intersection', '#define A(x) x B(\n#define B(x) x A(\n', 'A(1) 2) 3) 4) 5) 6\n'),
    ('intersection2', '#define O1 F(\n#define O2 O1 1)\n#define F(x) x O1 O2\n', 'O2 O1 2) O1 O2)\n'),
    ('paste-makes-name', '#define O1 O ## 1 x\n#define F(p) O ## p F ## p\n#define F1 F(1)\n', 'O1 F(1) F(2)\n'),
    ('paste-self', '#define A A_ ## 1\n#define A_1 A B\n#define B A_ ## 1\n', 'A B A_1\n'),
    ('empty-args', '#define F(p,q) p F(q,p) q\n#define G() G F(,)\n', 'F(,) G() F(G(),)\n'),
    ('dup', '#define D(x) x x\n#define E(x) D(D(x))\n', 'E(E(D(a))) D(D)(D)(b)\n'),
    ('variadic', '#define V(p,...) p __VA_OPT__(V(__VA_ARGS__)) #__VA_ARGS__\n', 'V(1,2,3) V(V(1),V(2,3))\n'),
    ('gnu-comma', '#define W(p,...) W(p , ## __VA_ARGS__)\n', 'W(1) W(1,2) W(W(1,2),W(3))\n'),
    ('obj-cycle', '#define O1 O2 O3\n#define O2 O3 O1\n#define O3 O1 O2\n', 'O1 O2 O3\n'),
    ('unterminated', '#define F(x) x\n', 'F(1 F(2)\n'),
    ('too-many', '#define F(x) x\n', 'F(1,2)\n'),
    ('too-few', '#define F(x,y) x y\n', 'F(1)\n'),
    ('hash-from-macro', '#define H #\n#define F(x) H x\n', 'F(define X 1) X\n'),
    ('deep', '#define F(x) G(G(x))\n#define G(x) H(H(x))\n#define H(x) (x F)\n', 'F(F(1))\n'),
    ('redefine', '#define F(x) x G\n#define G(x) x F\n', 'F(1)(2)\n#undef G\n#define G(x) [x] F(x)\nF(1)(2)\n#undef F\nF(1)(2) G(3)\n'),
    ('nil-trick', '#define NIL(x) x\n#define G_0(arg) NIL(G_1)(arg)\n#define G_1(arg) NIL(arg)\n', 'G_0(42)\n'),
    ('obj-to-fun', '#define O1 F\n#define F(x) O1(x) O1\n', 'O1(1)(2) F(O1)(3)\n'),
]

# ------------------------------------------------------------------ Coq side
def coq_list(bs): return '[' + ';'.join(str(x) for x in bs) + ']'

HEADER = r'''From Chibicc Require Import Base.Mach Model.Lexer Model.Macro Gen.PunctTable Spec.MacroTermSpec.
Set Printing Width 100000000.
Set Printing Depth 100000000.
Local Open Scope N_scope.
Definition lexed (s : list N) := match tokenize punct_table s with LexOk l => Some (of_lex l) | LexErr => None end.
Definition texts (s : list N) : list (list N) := match tokenize punct_table s with LexOk l => map t_text l | LexErr => [[0]] end.
Fixpoint env_of (n : nat) (e : env) (ts : list mtok) : env :=
  match n, ts with
  | S n', _h :: _d :: r => match read_definition e r with Some (e', rest) => env_of n' e' rest | None => e end
  | _, _ => e
  end.
Definition code (r : mres (list mtok)) : N := match r with MOk _ => 0 | MErr => 1 | MFuel => 2 | MUnsup => 3 end.
Definition nodir_b (t : mtok) : bool := negb (m_bol t && is t HASH && from_source t).
(* chibicc's own output, judged by the spec: its tokens carry no marks, so "exempt" is decided from the
   model's result at the same position (equal spelling is checked by the caller) *)
Definition tcase (id : N) (fuel : nat) (defs text chout gccout : list N) :=
  match lexed (defs ++ text), lexed defs, lexed text with
  | Some all, Some d, Some tx =>
     let run := fun f => pp2 punct_table f [] all in
     let r := run fuel in
     let e := env_of (length d) [] d in
     (id, code r, terminated_at run fuel,
      match r with MOk out => settled e out | _ => true end,
      mres_eqb r (pp2 punct_table fuel e tx),
      forallb nodir_b tx,
      N.of_nat (length e),
      match r with MOk out => map m_txt out | _ => [] end,
      texts chout, texts gccout)
  | _, _, _ => (id, 9, false, false, false, false, 0, [], [], [])
  end.
'''

def parse_results(out):
    """lines '     = (1, 0, true, true, true, true, 4, [[..]; ..], [..], [..])' -> dict id -> tuple"""
    res = {}
    txt = out.replace('\n', ' ')
    for m in re.finditer(r'=\s*\((.*?)\)\s*:\s*N \*', txt):
        body = m.group(1)
        body = re.sub(r'%(N|nat)', '', body).replace(';', ',').replace('true', 'True').replace('false', 'False')
        try:
            tup = ast.literal_eval('(' + body + ')')
        except Exception:
            continue
        res[tup[0]] = tup
    return res

def directive_inside_parens(text):
    depth = 0
    for ln in text.split('\n'):
        if ln.startswith('#') and depth > 0: return True
        if not ln.startswith('#'): depth = max(0, depth + ln.count('(') - ln.count(')'))
    return False

def tok_str(l): return ' '.join(bytes(t).decode('latin-1') for t in l)

# ------------------------------------------------------------------ the tie
def run(src_dir, seed=1, n=150, verif_dir=None):
    t0 = time.time()
    verif_dir = verif_dir or os.path.dirname(os.path.dirname(os.path.abspath(__file__)))
    chibi = os.path.join(src_dir, 'chibicc')
    rng = random.Random(seed)
    wd = tempfile.mkdtemp(prefix='tie_mterm_')
    res = {'evaluations': 0, 'distinct_nontrivial': 0, 'distribution': {}, 'impl_vs_spec': [], 'impl_vs_model': [],
           'reference_disagreements': [], 'known_findings': [], 'samples': [], 'fuel': FUEL}
    dist = res['distribution']
    def count(k, d=1): dist[k] = dist.get(k, 0) + d
    try:
        progs = [(nm, d, t, {'boundary'}) for nm, d, t in BOUNDARY]
        while len(progs) < max(n, len(BOUNDARY)):
            g = Gen(rng); d, t = g.program()
            progs.append(('gen%d' % len(progs), d, t, g.feats))
        progs = progs[:max(n, 1)]
        cases = []
        have_gcc = shutil.which('gcc') is not None
        for i, (nm, d, t, feats) in enumerate(progs):
            f = os.path.join(wd, 'c%d.c' % i); open(f, 'w').write(d + t)
            t1 = time.time()
            rc, out, err = sh(['timeout', str(TIMEOUT), chibi, '-E', f], timeout=TIMEOUT + 5, limit=True)
            dt = time.time() - t1
            c = {'id': i, 'name': nm, 'defs': d, 'text': t, 'feats': feats, 'rc': rc, 'out': out, 'err': err.decode(errors='replace')[-200:], 'dt': dt}
            if have_gcc:
                grc, gout, gerr = sh(['gcc', '-E', '-P', '-undef', '-x', 'c', f], timeout=20)
                c['grc'] = grc; c['gout'] = gout; c['gwarn'] = bool(gerr.strip())
            else:
                c['grc'] = None; c['gout'] = b''; c['gwarn'] = True
            cases.append(c)
        v = [HEADER]
        for c in cases:
            v.append('Eval vm_compute in tcase %d %d %s %s %s %s.' % (c['id'], FUEL, coq_list(c['defs'].encode()), coq_list(c['text'].encode()),
                     coq_list(c['out'] if c['rc'] == 0 else b''), coq_list(c['gout'] if c['grc'] == 0 else b'')))
        vf = os.path.join(wd, 'Cases_mterm.v'); open(vf, 'w').write('\n'.join(v) + '\n')
        rc, out, err = sh(['coqc', '-Q', os.path.join(verif_dir, 'coq', 'theories'), 'Chibicc', '-w', '-deprecated-syntactic-definition,-deprecated', vf], timeout=900, cwd=wd)
        if rc != 0:
            res['error'] = 'coqc failed on Cases_mterm.v: ' + (err.decode(errors='replace') + out.decode(errors='replace'))[-600:]
            return res
        R = parse_results(out.decode(errors='replace'))
        seen = set()
        for c in cases:
            case = c['defs'] + c['text']
            if c['id'] not in R:
                res['error'] = 'no result of coqc for case %d' % c['id']; return res
            (_, code, term_ok, settled_ok, thm_form_ok, nodir_ok, nmac, mtoks, ctoks, gtoks) = R[c['id']]
            res['evaluations'] += 1
            for ft in c['feats']: count('feat:' + ft)
            count('macros:%d' % nmac)
            mstat = {0: 'ok', 1: 'error', 2: 'FUEL', 3: 'UNSUP', 9: 'LEXERR'}[code]
            count('model:' + mstat)
            # --- the real compiler terminates, with status 0 or 1
            crashed = 'terminated by signal' in c['err']          # the driver turns a dead cc1 into exit status 1
            if c['rc'] == 124 or c['rc'] not in (0, 1) or crashed:
                what = 'timeout after %d s' % TIMEOUT if c['rc'] == 124 else 'crash: exit status %d %s' % (c['rc'], c['err'])
                count('impl:timeout' if c['rc'] == 124 else 'impl:crash')
                res['impl_vs_spec'].append({'case': case, 'impl': what, 'spec': 'preprocessing terminates with a token list or a diagnostic (model: %s)' % mstat})
                res['impl_vs_model'].append({'case': case, 'impl': what, 'model': mstat + (': ' + tok_str(mtoks) if code == 0 else '')})
                continue
            istat = 'ok' if c['rc'] == 0 else 'error'
            count('impl:' + istat)
            # --- the model (theorem: never Fuel, never Unsup on these inputs; stable under more fuel)
            if not nodir_ok: count('text-with-directives')
            if code == 3 and not nodir_ok:
                # a directive line inside the argument list of an invocation (undefined, 6.10.3p11): the model says Unsup,
                # which the driver theorem allows for texts with directives; nothing to compare
                count('skipped-directive-inside-arguments'); continue
            if code in (2, 3, 9) or not term_ok or not thm_form_ok:
                res['impl_vs_model'].append({'case': case, 'impl': istat, 'model': '%s (terminated_at=%s, text free of directives=%s, driver on whole file = driver on text with env of the definitions: %s) - contradicts C09_mterm_expansion_terminates' % (mstat, term_ok, nodir_ok, thm_form_ok)})
                continue
            if code == 0 and nodir_ok and not settled_ok:
                res['impl_vs_spec'].append({'case': case, 'impl': tok_str(ctoks), 'spec': 'result not settled: a replaceable object-like macro name is left (model result ' + tok_str(mtoks) + ')'})
                continue
            if istat != mstat:
                res['impl_vs_model'].append({'case': case, 'impl': istat + ' ' + (tok_str(ctoks) if c['rc'] == 0 else c['err']), 'model': mstat + ' ' + tok_str(mtoks)})
                gs = None if (c['grc'] is None or c['gwarn']) else ('ok' if c['grc'] == 0 else 'error')
                if gs is not None and gs == mstat:
                    res['impl_vs_spec'].append({'case': case, 'impl': istat, 'spec': 'gcc and the model: ' + mstat})
                continue
            key = (mstat, tuple(map(tuple, mtoks)))
            if key not in seen and (len(mtoks) > 1 or code == 1):
                seen.add(key); res['distinct_nontrivial'] += 1
            if code == 0:
                count('out-tokens:%s' % ('0' if not mtoks else '1-9' if len(mtoks) < 10 else '10-49' if len(mtoks) < 50 else '50+'))
                gcc_usable = c['grc'] == 0 and not c['gwarn'] and gtoks != [[0]]
                if ctoks != mtoks:
                    res['impl_vs_model'].append({'case': case, 'impl': tok_str(ctoks), 'model': tok_str(mtoks)})
                    if gcc_usable and gtoks == mtoks:
                        res['impl_vs_spec'].append({'case': case, 'impl': tok_str(ctoks), 'spec': 'gcc and the model: ' + tok_str(gtoks)})
                    continue
                if gcc_usable:
                    if gtoks == ctoks: count('gcc-agrees')
                    else:
                        count('gcc-differs')
                        if re.search(r'#define[ \t]+\w+[ \t]*\n\(', case):
                            cause = 'chibicc defect outside this package (DESIGN §7 table row 42): "#define X" followed by a line that begins with "(" is read as a function-like definition; the model mirrors it'
                            res['known_findings'].append({'id': 'C09-define-then-paren-line', 'case': case, 'impl_and_model': tok_str(ctoks), 'gcc': tok_str(gtoks)})
                        elif ', ##' in case: cause = 'GNU ", ## __VA_ARGS__" with a present but empty variable argument (extension, compilers differ)'
                        elif directive_inside_parens(c['text']): cause = 'possibly a directive inside the argument list of an invocation (undefined, 6.10.3p11)'
                        else: cause = 'unclassified'
                        res['reference_disagreements'].append({'case': case, 'impl_and_model': tok_str(ctoks), 'gcc': tok_str(gtoks), 'cause': cause})
                else: count('gcc-not-usable')
            else:
                if c['grc'] is not None: count('gcc-agrees-error' if c['grc'] != 0 else 'gcc-accepts-what-chibicc-rejects')
            if len(res['samples']) < 6:
                res['samples'].append({'case': case, 'impl': istat + ' ' + tok_str(ctoks), 'model': mstat + ' ' + tok_str(mtoks), 'gcc': tok_str(gtoks)})
        res['max_chibicc_seconds'] = round(max([c['dt'] for c in cases] + [0]), 3)
        res['seconds'] = round(time.time() - t0, 1)
        return res
    finally:
        shutil.rmtree(wd, ignore_errors=True)

if __name__ == '__main__':
    src = sys.argv[1]
    seed = int(sys.argv[2]) if len(sys.argv) > 2 else 1
    n = int(sys.argv[3]) if len(sys.argv) > 3 else 150
    r = run(src, seed, n)
    print(json.dumps(r, indent=1))
    sys.exit(0 if not r.get('error') and not r['impl_vs_spec'] and not r['impl_vs_model'] else 1)
