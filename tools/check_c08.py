#!/usr/bin/env python3
"""C08 - type sizes, alignments and layouts equal the psABI.
   proofs (struct placement = least psABI position, alignment/size, disjointness; declspec table
   accepts every 6.7.2p2 multiset in any order) + translator (declspec switch) + generated
   aggregates compared with the extracted model and with gcc (the 'other compiler')."""
import os, sys, time, random, json, subprocess, itertools
sys.path.insert(0, os.path.dirname(os.path.abspath(__file__)))
from vlib import *
import gen_declspec

PID = 'C08'
THEOREMS = ['C08_struct_layout_is_psabi', 'C08_members_disjoint', 'C08_bitfield_in_unit', 'C08_known_bad_is_real',
            'C08_declspec_any_order', 'C08_nonvacuous',
            # package decl (Properties_C08_decl.v)
            'C08_decl_declarator_is_c11', 'C08_decl_declarator_exact', 'C08_decl_abstract_declarator_is_c11', 'C08_decl_typename_is_c11', 'C08_decl_func_params_adjusted', 'C08_decl_size_align_is_psabi', 'C08_decl_too_large_exact', 'C08_decl_size_or_too_large', 'C08_decl_typename_size_or_too_large', 'C08_decl_size_align_any_base', 'C08_decl_dummy_pass_never_fires_alone', 'C08_decl_static_quals_ignored', 'C08_decl_every_type_has_a_declarator', 'C08_decl_unparse_parse', 'C08_decl_unparse_parse_typename', 'C08_decl_dummy_pass_sound', 'C08_decl_abstract_dummy_pass_sound', 'C08_decl_abstract_func_repaired', 'C08_decl_param_abstract_func_repaired', 'C08_decl_abstract_proto_accepted', 'C08_decl_big_arrays_rejected', 'C08_decl_limit_is_sharp', 'C08_decl_nonvacuous', 'C08_decl_nonvacuous_typename', 'C08_decl_nonvacuous_unparse', 'C08_decl_nonvacuous_with_layout']
MODELRUN = os.path.join(VERIF, 'ocaml/modelrun')
PRINTF = 'int printf(const char *, ...);\nvoid *memset(void *, int, unsigned long);\n'
SCALARS = [('char', 1, 1), ('short', 2, 2), ('int', 4, 4), ('long', 8, 8), ('float', 4, 4), ('double', 8, 8),
           ('long double', 16, 16), ('char *', 8, 8), ('_Bool', 1, 1), ('unsigned short', 2, 2), ('long long', 8, 8)]
BFBASE = [('char', 1), ('unsigned char', 1), ('short', 2), ('unsigned short', 2), ('int', 4), ('unsigned', 4), ('long', 8), ('unsigned long', 8)]

class Model:
    def __init__(self):
        self.p = subprocess.Popen([MODELRUN, 'layout'], stdin=subprocess.PIPE, stdout=subprocess.PIPE, text=True, bufsize=1)
    def layout(self, kind, packed, align0, mems):
        line = '%s %d %d' % (kind, packed, align0) + ''.join(' %d %d %d %d' % m for m in mems)
        self.p.stdin.write(line + '\n'); self.p.stdin.flush()
        t = self.p.stdout.readline().split()
        return int(t[0]), int(t[1]), int(t[2]), [tuple(map(int, x.split(':'))) for x in t[3:]]
    def close(self):
        try: self.p.stdin.close(); self.p.wait(timeout=5)
        except Exception: pass

class Agg:
    """an aggregate type with its C text and the model's layout"""
    pass

def gen_aggregate(rng, model, idx, pool, depth=0, anonymous=False, parent_packed=False):
    a = Agg()
    a.kind = 'U' if rng.random() < 0.25 else 'S'
    a.packed = rng.random() < 0.15
    a.aligned = rng.choice([0, 0, 0, 0, 2, 4, 8, 16, 32]) if rng.random() < 0.3 and not parent_packed else 0
    inner_packed = a.packed or parent_packed
    a.name = None if anonymous else 'T%d' % idx
    nmem = rng.randint(1, 6)
    a.members = []   # dict(text, size, align, bf, named, name, sub)
    fields = []
    mi = 0
    for k in range(nmem):
        r = rng.random()
        m = {}
        alignas = rng.choice([0, 0, 0, 0, 0, 2, 4, 8, 16]) if rng.random() < 0.15 and not inner_packed else 0
        name = 'm%d_%d' % (idx, k)
        if r < 0.3:
            base, sz = rng.choice(BFBASE)
            width = rng.choice([0, 1, 2, 3, 5, 7, 8, 9, 15, 16, 17, 24, 31, 32, 33, 40, 63, 64])
            width = min(width, sz * 8)
            if width > 31 and sz == 8 and rng.random() < 0.7: width = rng.choice([1, 3, 12, 20, 31])   # wide long fields: C04's finding
            named = width > 0 and rng.random() < 0.8
            m = dict(text='%s %s:%d;' % (base, name if named else '', width), size=sz, align=sz, bf=width, named=named, name=name, base=base)
        elif r < 0.55:
            t, sz, al = rng.choice(SCALARS)
            if alignas < al: alignas = 0
            atext = '_Alignas(%d) ' % alignas if alignas else ''
            if alignas and rng.random() < 0.5:
                # several alignment specifiers: the strictest one takes effect (6.7.5p6), whatever their order; _Alignas(0) has no effect
                others = [a2 for a2 in (0, al, 2, 4, 8, 16) if a2 == 0 or al <= a2 <= alignas]
                specs = [alignas] + [rng.choice(others) for _ in range(rng.randint(1, 2))]; rng.shuffle(specs)
                atext = ''.join('_Alignas(%d) ' % a2 for a2 in specs)
            m = dict(text='%s%s %s;' % (atext, t, name), size=sz, align=alignas or al, bf=-1, named=True, name=name)
        elif r < 0.7:
            t, sz, al = rng.choice(SCALARS)
            n = rng.randint(1, 5)
            m = dict(text='%s %s[%d];' % (t, name, n), size=sz * n, align=al, bf=-1, named=True, name=name)
        elif r < 0.85 and [x for x in pool if not (inner_packed and x.explicit_align)]:
            s = rng.choice([x for x in pool if not (inner_packed and x.explicit_align)])
            n = rng.choice([0, 0, 2, 3])
            kw = 'struct' if s.kind == 'S' else 'union'
            if n:
                m = dict(text='%s %s %s[%d];' % (kw, s.name, name, n), size=s.size * n, align=s.align, bf=-1, named=True, name=name, ref=s)
            else:
                if alignas < s.align: alignas = 0
                m = dict(text='%s%s %s %s;' % ('_Alignas(%d) ' % alignas if alignas else '', kw, s.name, name), size=s.size, align=alignas or s.align, bf=-1, named=True, name=name, ref=s)
        elif depth < 2:
            sub = gen_aggregate(rng, model, idx * 10 + k + 1000, pool, depth + 1, anonymous=True, parent_packed=inner_packed)
            if alignas < sub.align: alignas = 0
            m = dict(text=('_Alignas(%d) ' % alignas if alignas else '') + sub.text + ';', size=sub.size, align=alignas or sub.align, bf=-1, named=False, name=None, sub=sub)
        else:
            t, sz, al = rng.choice(SCALARS)
            m = dict(text='%s %s;' % (t, name), size=sz, align=al, bf=-1, named=True, name=name)
        a.members.append(m)
    a.flex = False
    if a.kind == 'S' and not anonymous and rng.random() < 0.1 and a.members[-1]['bf'] == -1:
        t, sz, al = rng.choice(SCALARS)
        a.members.append(dict(text='%s flex%d[];' % (t, idx), size=0, align=al, bf=-1, named=True, name='flex%d' % idx)); a.flex = True
    attrs = []
    if a.packed: attrs.append('packed')
    if a.aligned: attrs.append('aligned(%d)' % a.aligned)
    attr = ' __attribute__((%s))' % ','.join(attrs) if attrs else ''
    kw = 'struct' if a.kind == 'S' else 'union'
    a.text = '%s%s %s{ %s }' % (kw, attr, (a.name + ' ') if a.name else '', ' '.join(m['text'] for m in a.members))
    a.has_bf = any(m['bf'] >= 0 for m in a.members) or any(m.get('sub') and m['sub'].has_bf for m in a.members)
    a.any_packed = a.packed or any(m.get('sub') and m['sub'].any_packed for m in a.members)
    a.explicit_align = bool(a.aligned) or any('_Alignas' in m['text'] for m in a.members) or any(m.get('sub') and m['sub'].explicit_align for m in a.members)
    a.size, a.align, bad, a.places = model.layout(a.kind, a.packed, a.aligned or 1, [(m['size'], m['align'], m['bf'], 1 if m['named'] else 0) for m in a.members])
    subs = [m.get('sub') or m.get('ref') for m in a.members if m.get('sub') or m.get('ref')]
    a.bad = bool(bad) or any(x.bad for x in subs)
    a.packed_union = False          # packed unions are honoured since 20d74ad (was the open finding C08-packed-union): model and generator treat them like everything else
    return a

def leaves(a, base_off=0):
    """(access path name, is_bitfield, absolute start bit, width/size bits, base type) for every named leaf"""
    out = []
    for m, (off, bit) in zip(a.members, a.places):
        if m.get('sub'):
            out += leaves(m['sub'], base_off + off)
        elif m['named']:
            if m['bf'] >= 0: out.append((m['name'], True, (base_off + off) * 8 + bit, m['bf'], m['size']))
            else: out.append((m['name'], False, (base_off + off) * 8, m['size'] * 8, m['size']))
    return out

def probe_lines(a):
    kw = 'struct' if a.kind == 'S' else 'union'
    T = '%s %s' % (kw, a.name)
    ls = ['  printf("%s %%d %%d\\n", (int)sizeof(%s), (int)_Alignof(%s));' % (a.name, T, T)]
    exp = ['%s %d %d' % (a.name, a.size, a.align)]
    for name, isbf, start, width, usz in leaves(a):
        if isbf:
            n = max(a.size, 1)
            ls.append('  { %s o; memset(&o, 0, sizeof o); o.%s = -1; printf("%s.%s bits"); for (int i = 0; i < (int)sizeof o; i++) printf(" %%02x", ((unsigned char *)&o)[i]); printf("\\n"); }' % (T, name, a.name, name))
            img = [0] * a.size
            for b in range(start, start + width):
                if b // 8 < a.size: img[b // 8] |= 1 << (b % 8)
            exp.append('%s.%s bits' % (a.name, name) + ''.join(' %02x' % x for x in img))
        else:
            ls.append('  printf("%s.%s %%ld\\n", (long)&((%s *)0)->%s);' % (a.name, name, T, name))
            exp.append('%s.%s %d' % (a.name, name, start // 8))
    return ls, exp

def split_by_type(out):
    d = {}
    for l in out.strip().split('\n'):
        if not l: continue
        d.setdefault(l.split(' ')[0].split('.')[0], []).append(l)
    return d

def declspec_program(rng, perms_per):
    rc, out, err = sh([MODELRUN, 'declspec-spec'])
    cases = []
    quals = ['const', 'volatile', 'static', 'register', 'extern', '_Alignas(16)', '']
    info = {'void': (1, None, 0, 0), 'bool': (1, 0, 0, 1), 'char': (1, 1, 0, 0), 'uchar': (1, 0, 0, 0), 'short': (2, 1, 0, 0), 'ushort': (2, 0, 0, 0),
            'int': (4, 1, 0, 0), 'uint': (4, 0, 0, 0), 'long': (8, 1, 0, 0), 'ulong': (8, 0, 0, 0), 'float': (4, 1, 1, 0), 'double': (8, 1, 1, 0), 'ldouble': (16, 1, 1, 0)}
    lines, exp, seqs = [], [], []
    k = 0
    for l in out.strip().split('\n'):
        ms, t = l.split(' = ')
        for p in sorted(set(itertools.permutations(ms.split(' ')))):
            toks = list(p)
            # interleave other declaration specifiers
            if rng.random() < 0.5: toks.insert(rng.randrange(len(toks) + 1), rng.choice(['const', 'volatile']))
            spec = ' '.join(toks)
            sz, sg, fl, bo = info[t]
            lines.append('  { typedef %s D%d;' % (spec, k))
            if t == 'void':
                lines.append('    printf("D%d %%d\\n", (int)sizeof(D%d)); }' % (k, k)); exp.append('D%d 1' % k)
            else:
                lines.append('    printf("D%d %%d %%d %%d %%d\\n", (int)sizeof(D%d), (D%d)-1 < 0, (D%d)1.5 == 1.5, (D%d)2 == 1); }' % (k, k, k, k, k))
                exp.append('D%d %d %d %d %d' % (k, sz, sg, fl, bo))
            seqs.append((spec, t)); k += 1
    return PRINTF + 'int main(void) {\n' + '\n'.join(lines) + '\n  return 0;\n}\n', exp, seqs

def main():
    run = Run(PID, THEOREMS)
    rng = run.rng
    evals = 0; nontriv = set(); samples = []; model_vs_gcc = 0
    try:
        src = build_impl()
    except BuildFailed as e:
        run.proof_broken.append('scratch build of /repo failed: ' + str(e)[-800:])
        return run.finish(dict(evaluations=0), [], [])
    wd = scratch_dir()
    try:
        gen_declspec.gen(REPO, os.path.join(COQ, 'theories/Gen/DeclspecTable.v'))
    except GenError as e:
        run.proof_broken.append('translator: ' + str(e))
    run.check_proofs(deps=['theories/Model/Layout.vo', 'theories/Spec/DeclspecSpec.vo', 'theories/Gen/DeclspecTable.vo'], extra=['decl'])
    NCORPUS = run_corpus(run, PID, src)          # minimised past failures first
    rc, o, e = sh([os.path.join(VERIF, 'ocaml/build.sh')], timeout=900)
    if rc != 0:
        run.corr_broken.append('extracted model does not build: ' + (o + e)[-300:])
        return run.finish(dict(evaluations=0), [], [])
    CHIBI = [os.path.join(src, 'chibicc')]; GCC = ['gcc', '-std=gnu11', '-w']

    # --- type specifiers: every permutation of every 6.7.2p2 multiset, with qualifiers interleaved
    text, exp, seqs = declspec_program(rng, None)
    f = os.path.join(wd, 'ds.c'); open(f, 'w').write(text)
    st, got = compile_run(CHIBI, f, os.path.join(wd, 'ds.exe'))
    stg, ref = compile_run(GCC, f, os.path.join(wd, 'ds.gcc'))
    evals += len(seqs)
    if stg == 'ok' and ref.strip().split('\n') != exp:
        model_vs_gcc += 1
    if st != 'ok':
        # find the offending sequence one by one
        found = False
        for spec, t in seqs:
            f1 = os.path.join(wd, 'ds1.c'); open(f1, 'w').write('typedef %s D; D *p;\n' % spec)
            rc, o, e = sh(CHIBI + ['-S', '-o', '/dev/null', f1])
            if rc != 0:
                run.violation(dict(kind='type-specifier-rejected', specifiers=spec, c11_type=t, stderr=e[-200:],
                                   replay_program='typedef %s D; D *p;' % spec), dict(area='declspec', specifiers=spec)); found = True; break
        if not found: run.violation(dict(kind='declspec-program', what=st))
    else:
        for (spec, t), g, x in zip(seqs, got.strip().split('\n'), exp):
            if g != x:
                run.violation(dict(kind='type-specifier', specifiers=spec, c11_type=t, got=g, expected=x, meaning='sizeof, is_signed, is_floating, is_bool'),
                              dict(area='declspec', specifiers=spec)); break
    samples.append({'type-specifiers': seqs[len(seqs) // 2][0]})
    # the model run on the same sequences (ties the regenerated table + loop model to the binary's verdicts)
    rc, o, e = sh([MODELRUN, 'declspec-run'], input='\n'.join(' '.join(w for w in s.split() if w not in ('const', 'volatile')) for s, _ in seqs) + '\n')
    for (spec, t), mv in zip(seqs, o.strip().split('\n')):
        if mv != t: run.corr_broken.append('declspec model answers %s for "%s" (spec %s)' % (mv, spec, t)); break

    # --- scalar table and predefined size macros
    scal = PRINTF + 'enum E { A };\nint main(void) {\n' + ''.join(
        '  printf("%%d %%d\\n", (int)sizeof(%s), (int)_Alignof(%s));\n' % (t, t) for t in
        ['_Bool', 'char', 'short', 'int', 'long', 'long long', 'float', 'double', 'long double', 'void *', 'enum E', 'int[7]', 'char[3][5]', 'long double[2]', 'int (*)[3]', 'int (*)(void)']) + \
        '  printf("%d %d %d %d %d %d %d %d %d %d\\n", __SIZEOF_INT__ == sizeof(int), __SIZEOF_LONG__ == sizeof(long), __SIZEOF_LONG_LONG__ == sizeof(long long), __SIZEOF_SHORT__ == sizeof(short), __SIZEOF_POINTER__ == sizeof(void *), __SIZEOF_FLOAT__ == sizeof(float), __SIZEOF_DOUBLE__ == sizeof(double), __SIZEOF_LONG_DOUBLE__ == sizeof(long double), __SIZEOF_SIZE_T__ == sizeof(sizeof(int)), __SIZEOF_PTRDIFF_T__ == sizeof((char *)0 - (char *)0));\n  return 0;\n}\n'
    f = os.path.join(wd, 'scal.c'); open(f, 'w').write(scal)
    st, got = compile_run(CHIBI, f, os.path.join(wd, 'scal.exe')); stg, ref = compile_run(GCC, f, os.path.join(wd, 'scal.gcc')); evals += 17
    if st != 'ok' or got != ref:
        d = None
        if st == 'ok':
            for i, (a, b) in enumerate(zip(got.split('\n'), ref.split('\n'))):
                if a != b: d = (i, a, b); break
        run.violation(dict(kind='scalar-sizes', what=st, first_difference=d, input_file=write_replay(PID, 'scal.c', scal)), dict(area='scalar'))

    # --- aggregates
    model = Model()
    nprog, per = (6, 40) if run.quick() else (60, 60)
    dist = dict(structs=0, unions=0, packed=0, with_bitfields=0, anonymous_members=0, members=0)
    for pi in range(nprog):
        pool, defs, probes, exps = [], [], [], {}
        for k in range(per):
            a = gen_aggregate(rng, model, pi * 1000 + k, pool)
            pool.append(a)
            defs.append(a.text + ';')
            ls, ex = probe_lines(a)
            probes += ls; exps[a.name] = ex
            dist['structs' if a.kind == 'S' else 'unions'] += 1; dist['packed'] += a.any_packed; dist['with_bitfields'] += a.has_bf
            dist['members'] += len(a.members); dist['anonymous_members'] += sum(1 for m in a.members if m.get('sub'))
        text = PRINTF + '\n'.join(defs) + '\nint main(void) {\n' + '\n'.join(probes) + '\n  return 0;\n}\n'
        f = os.path.join(wd, 'agg%d.c' % pi); open(f, 'w').write(text)
        st, got = compile_run(CHIBI, f, os.path.join(wd, 'agg.exe'))
        stg, ref = compile_run(GCC, f, os.path.join(wd, 'agg.gcc'))
        evals += per
        if stg != 'ok':
            run.corr_broken.append('reference compiler rejects generated program: ' + stg); continue
        if st != 'ok':
            run.violation(dict(kind='aggregate-program', what=st, input_file=write_replay(PID, 'agg%d.c' % pi, text)), dict(area='aggregate', what=st.split(':')[0]))
            continue
        gi, gr = split_by_type(got), split_by_type(ref)
        for a in pool:
            i_, r_, m_ = gi.get(a.name), gr.get(a.name), exps[a.name]
            if a.has_bf or a.any_packed or a.aligned: nontriv.add(a.text)
            if r_ != m_:
                model_vs_gcc += 1
                if not a.bad and not a.packed_union:
                    run.corr_broken.append('proved model differs from the reference compiler on %s: model %s gcc %s' % (a.text, m_[:3], r_[:3]))
            if i_ != r_:
                d = next(((x, y) for x, y in zip(i_ or [], r_ or []) if x != y), (None, None))
                construct = 'packed-union' if a.packed_union else 'packed-straddling-bitfield' if a.bad else 'other'
                run.violation(dict(kind='aggregate-layout', type=a.text, got=d[0], reference=d[1], model=m_[:2],
                                   replay_program=PRINTF + '\n'.join(x.text + ';' for x in pool[:pool.index(a) + 1]) + '\nint main(void) {\n' + '\n'.join(probe_lines(a)[0]) + '\n  return 0;\n}\n'),
                              dict(area='aggregate', construct=construct))
            elif i_ != m_ and r_ == m_:
                pass
        if len(samples) < 3: samples.append({'aggregate': pool[-1].text, 'expected': exps[pool[-1].name][:3]})
    model.close()

    # ---------------- tie of package decl: cases evaluated by the Coq spec and model (one coqc call) and by the real compiler ----------------
    tie_dist = {}; tie_e = tie_n = 0; tie_samples = []
    if not os.environ.get('VERIF_SKIP_PROOFS'):
        tie_e, tie_n, tie_dist, tie_samples = run_tie(run, 'decl', src, 400 if run.quick() else 4000, 'aggregate')
    cov = dict(evaluations=evals, distinct_nontrivial=len(nontriv),
               rule='all permutations of all 6.7.2p2 specifier multisets with qualifiers interleaved (exhaustive for the multisets); random aggregates (structs/unions, nesting, arrays, anonymous members, named/unnamed/zero-width bit-fields of 8 base types, packed, aligned(n), _Alignas, flexible arrays): sizeof/_Alignof/offsets/bit images; non-trivial = has bit-fields or packed/aligned attributes',
               samples=samples, input_distribution=dist, spec_vs_reference_disagreements=model_vs_gcc)
    cov['rule'] = cov.get('rule', '') + ' ' + "(d) package decl: random declarators of depth 1-6 in three contexts (variable, parameter, type name) over scalar and struct base types: sizeof / _Alignof chains and _Generic probes of the compiled program = Coq spec of 6.7.6 = Coq model of parse.c's declarator functions on the token list; gcc cross-checks the spec"; cov['tie_decl'] = tie_dist; cov['evaluations'] = cov.get('evaluations', 0) + tie_e; cov['distinct_nontrivial'] = cov.get('distinct_nontrivial', 0) + tie_n
    return run.finish(cov,
        ['gcc 12 is the "other compiler" of the property; the proved model is additionally compared with it (disagreements outside the known exclusions break the correspondence)'],
        ['Coq 8.16.1 kernel (vm_compute for the permutation sweep over the regenerated switch; no native_compute)',
         'no axioms (Print Assumptions: closed under the global context)',
         'tools/gen_declspec.py (translator for the enum, the keyword chain and the case labels of declspec())',
         'hand-written models Model/Layout.v, Model/Declspec.v tied by generated programs; extraction with ExtrOcamlBasic only',
         'declarators (pointer/array/function composition), typedef/typeof/enum specifiers and the scalar size table are covered by generated programs only'])

if __name__ == '__main__':
    sys.exit(main())
