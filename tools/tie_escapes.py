#!/usr/bin/env python3
"""Tie of the package `escapes` (property C11): the literal scanners of tokenize.c
(read_escaped_char, string_literal_end, read_*_string_literal, read_char_literal,
convert_universal_chars, convert_pp_int) against Model/LitScan.v and Spec/LitSpec.v.

    run(src_dir, seed, n, verif_dir) -> dict
    python3 tools/tie_escapes.py <src_dir> [seed] [n]

Cases are generated as abstract syntax (elements of literal bodies, integer constants as
base/digits/suffix) plus deliberately malformed spellings.  The same cases are
 * compiled and run with the real chibicc (valid and tolerated ones in ONE program, one line per
   case; cases that must be rejected in one small file each),
 * evaluated in the Coq model and the Coq spec by ONE coqc call on a generated Cases_escapes.v.
Three kinds of expectation:
   valid   - C11 defines the result: impl = spec and impl = model
   lenient - C11 does not define a result (constraint violation or implementation-defined) but
             chibicc accepts: impl = model only
   reject  - not a literal of the grammar: impl must reject (integers: must not be an integer
             constant), model must reject
The two findings of the first delivery (0x0x1 accepted, 'a\\'' rejected) were repaired in /repo (commits
d1a8518, 6181ddd); their witnesses are ordinary cases now and "known_findings" stays empty (the key
is kept for callers).
"""
import os, sys, re, json, random, subprocess, tempfile, shutil, time

PRINTF = 'int printf(const char *, ...);\n'
DUMP = ('static void dump(const void *p, int esz, int n) {\n'
        '  for (int i = 0; i < n; i++) {\n'
        '    unsigned long v = esz == 1 ? ((const unsigned char *)p)[i] : esz == 2 ? ((const unsigned short *)p)[i] : ((const unsigned int *)p)[i];\n'
        '    printf(" %lx", v);\n  }\n  printf("\\n");\n}\n')
GENERIC = '_Generic((%s), int:1, unsigned:2, long:3, unsigned long:4, double:5, float:6, long double:7, default:9)'

SIMPLE = [('SQuote', "'"), ('DQuote', '"'), ('Quest', '?'), ('Backslash', '\\'), ('EscA', 'a'), ('EscB', 'b'),
          ('EscF', 'f'), ('EscN', 'n'), ('EscR', 'r'), ('EscT', 't'), ('EscV', 'v')]
SIMPLE_CH = dict(SIMPLE)
SPREFIX = [('SPnone', ''), ('SPu8', 'u8'), ('SPu', 'u'), ('SPU', 'U'), ('SPL', 'L')]
CPREFIX = [('CPnone', ''), ('CPu', 'u'), ('CPU', 'U'), ('CPL', 'L')]
HEXD = '0123456789abcdefABCDEF'
OCTD = '01234567'
CPS = [0x24, 0x41, 0x7e, 0x7f, 0x80, 0xa0, 0xe9, 0xff, 0x100, 0x7ff, 0x800, 0x20ac, 0xd7ff, 0xe000, 0xfffd, 0xffff,
       0x10000, 0x1f600, 0x10ffff]
SUFFIXES = ['', 'u', 'U', 'l', 'L', 'll', 'LL', 'ul', 'uL', 'Ul', 'UL', 'lu', 'lU', 'Lu', 'LU',
            'ull', 'uLL', 'Ull', 'ULL', 'llu', 'llU', 'LLu', 'LLU']
BAD_SUFFIXES = ['lL', 'Ll', 'ulu', 'lul', 'llL', 'LLl', 'uu', 'UU', 'lll', 'LLL', 'ulL', 'uLl', 'lLu', 'Llu', 'ullu', 'llul',
                'lull', 'z', 'ux', 'i', 'uz', 'l_', 'ulll', 'lUl', 'uul', 'luu']

# ------------------------------------------------------------------ abstract syntax
def nlist(bs):
    return '[' + '; '.join(str(b) for b in bs) + ']'

def esc_spell(e):
    k = e[0]
    if k == 'simple': return b'\\' + SIMPLE_CH[e[1]].encode()
    if k == 'gnue': return b'\\e'
    if k == 'oct': return b'\\' + e[1].encode()
    if k == 'hex': return b'\\x' + e[1].encode()
    raise ValueError(e)

def esc_coq(e):
    k = e[0]
    if k == 'simple': return '(ESimple %s)' % e[1]
    if k == 'gnue': return 'EGnuE'
    if k == 'oct': return '(EOct %s)' % nlist(e[1].encode())
    return '(EHex %s)' % nlist(e[1].encode())

def item_spell(it):
    if it[0] == 'chr': return chr(it[1]).encode('utf-8')
    if it[0] == 'esc': return esc_spell(it[1])
    return b'\\' + (b'U' if it[1] else b'u') + it[2].encode()          # ucn

def item_coq(it):
    if it[0] == 'chr': return '(SChr %d)' % it[1]
    if it[0] == 'esc': return '(SEsc %s)' % esc_coq(it[1])
    return '(SUcn %s %s)' % ('true' if it[1] else 'false', nlist(it[2].encode()))

def resolved_first_byte(it):
    """first byte of the element after universal character names are replaced"""
    if it[0] == 'chr': return chr(it[1]).encode('utf-8')[0]
    if it[0] == 'esc': return 0x5c
    return chr(int(it[2], 16)).encode('utf-8')[0]

def follow_ok(it, nxt):
    """maximal munch: may element `it` be followed by byte nxt ?"""
    if it[0] != 'esc': return True
    e = it[1]
    if e[0] == 'oct': return len(e[1]) == 3 or chr(nxt) not in OCTD
    if e[0] == 'hex': return chr(nxt) not in HEXD
    return True

def feature(it):
    if it[0] == 'chr': return 'chr_ascii' if it[1] < 128 else 'chr_utf8_%d' % len(chr(it[1]).encode('utf-8'))
    if it[0] == 'ucn': return 'ucn8' if it[1] else 'ucn4'
    e = it[1]
    if e[0] == 'oct': return 'oct%d' % len(e[1])
    if e[0] == 'hex': return 'hex%s' % (len(e[1]) if len(e[1]) < 9 else '9+')
    return e[0]

def hexspell(rng, v, ndig=None):
    h = format(v, 'x')
    if ndig and ndig > len(h): h = '0' * (ndig - len(h)) + h
    return ''.join(c.upper() if rng.random() < 0.4 else c for c in h)

def rand_item(rng, q):
    r = rng.random()
    if r < 0.22:
        while True:
            c = rng.choice('abcxyzABCXYZ 0189_$#@!~%&*()[]{}<>,.;:/+-=|^`' + "'\"")
            if c != q: return ('chr', ord(c))
    if r < 0.36:
        cp = rng.choice(CPS + [rng.randrange(0x80, 0xd7ff), rng.randrange(0xe000, 0xffff), rng.randrange(0x10000, 0x10ffff)])
        return ('chr', cp)
    if r < 0.50: return ('esc', ('simple', rng.choice(SIMPLE)[0]))
    if r < 0.53: return ('esc', ('gnue',))
    if r < 0.68: return ('esc', ('oct', ''.join(rng.choice(OCTD) for _ in range(rng.randint(1, 3)))))
    if r < 0.86:
        v = rng.choice([0, 1, 0x41, 0x7f, 0x80, 0xff, 0x100, 0xffff, 0x10000, 0x7fffffff, 0xffffffff, 0x100000000,
                        rng.getrandbits(rng.choice([4, 8, 12, 16, 20, 32, 40, 80]))])
        return ('esc', ('hex', hexspell(rng, v, rng.choice([None, None, rng.randint(1, 20)]))))
    cp = rng.choice([0xa0, 0xe9, 0x24, 0x40, 0x60, 0x7ff, 0x800, 0x20ac, 0xd7ff, 0xe000, 0xffff, 0x10000, 0x1f600, 0x10ffff,
                     rng.randrange(0xa0, 0xd7ff), rng.randrange(0x10000, 0x10ffff)])
    if cp < 0x10000 and rng.random() < 0.7: return ('ucn', False, hexspell(rng, cp, 4))
    return ('ucn', True, hexspell(rng, cp, 8))

def rand_body(rng, q, maxlen=6):
    items = []
    for _ in range(rng.randint(0, maxlen)):
        for _try in range(20):
            it = rand_item(rng, q)
            if not items or follow_ok(items[-1], resolved_first_byte(it)):
                items.append(it); break
    return items

# ------------------------------------------------------------------ case construction
class Cases:
    def __init__(self):
        self.str, self.chr, self.int = [], [], []
        self.seen = set()
    def add_str(self, pfx, items=None, raw=None, expect='valid'):
        body = raw if raw is not None else b''.join(item_spell(i) for i in items)
        key = ('s', pfx, body, expect)
        if key in self.seen: return
        self.seen.add(key)
        self.str.append(dict(kind='str', prefix=pfx, items=items, body=body, expect=expect))
    def add_chr(self, pfx, item=None, raw=None, expect='valid'):
        body = raw if raw is not None else item_spell(item)
        key = ('c', pfx, body, expect)
        if key in self.seen: return
        self.seen.add(key)
        self.chr.append(dict(kind='chr', prefix=pfx, item=item, body=body, expect=expect))
    def add_int(self, text, k=None):
        key = ('i', text)
        if key in self.seen: return
        self.seen.add(key)
        self.int.append(dict(kind='int', text=text, k=k))

def boundary_escapes(rng):
    es = [('simple', s) for s, _ in SIMPLE] + [('gnue',)]
    es += [('oct', o) for o in ['0', '7', '00', '12', '77', '000', '101', '177', '200', '377', '400', '777']]
    for v in [0, 9, 0x41, 0x7f, 0x80, 0xff, 0x100, 0x7fff, 0x8000, 0xffff, 0x10000, 0x7fffffff, 0x80000000, 0xffffffff,
              0x100000000, 0x123456789, 0xffffffffffffffff, 0x10000000000000000, 0x123456789abcdef01234]:
        es.append(('hex', hexspell(rng, v)))
    for nd in range(1, 21):
        es.append(('hex', hexspell(rng, rng.getrandbits(min(4 * nd, 31)), nd)))
    return es

def gen_cases(rng, n):
    C = Cases()
    bes = boundary_escapes(rng)
    # --- every escape form in every string prefix, followed by a character that ends it
    for pn, _ in SPREFIX:
        for e in bes:
            tail = rng.choice([[], [('chr', ord('g'))], [('chr', ord(' '))], [('chr', 0xe9)], [('esc', ('simple', 'EscN'))], [('chr', ord('8'))]])
            it = ('esc', e)
            if tail and not follow_ok(it, resolved_first_byte(tail[0])): tail = []
            C.add_str(pn, [it] + tail)
        # maximal munch of octal escapes: three digits then a digit; one / two digits then 8 or 9
        C.add_str(pn, [('esc', ('oct', '123')), ('chr', ord('4'))])
        C.add_str(pn, [('esc', ('oct', '12')), ('chr', ord('8'))])
        C.add_str(pn, [('esc', ('oct', '1')), ('chr', ord('9')), ('chr', ord('1'))])
        C.add_str(pn, [('esc', ('oct', '0'))])
        C.add_str(pn, [])
        # an escaped backslash in front of u / U / x / digits / n
        for t in ['u00e9', 'U0001F600', 'x41', '101', 'n', 'u', 'U']:
            C.add_str(pn, [('esc', ('simple', 'Backslash'))] + [('chr', ord(ch)) for ch in t])
            C.add_str(pn, [('esc', ('simple', 'Backslash')), ('esc', ('simple', 'Backslash'))] + [('chr', ord(ch)) for ch in t])
        C.add_str(pn, [('esc', ('simple', 'Backslash')), ('ucn', False, '00e9')])
        C.add_str(pn, [('esc', ('simple', 'Backslash')), ('esc', ('simple', 'Backslash')), ('ucn', True, '0001F600')])
        for cp in CPS:
            C.add_str(pn, [('chr', cp)])
            if cp >= 0xa0 or cp in (0x24, 0x40, 0x60):
                C.add_str(pn, [('ucn', True, '%08X' % cp)])
                if cp < 0x10000: C.add_str(pn, [('ucn', False, '%04x' % cp)])
        C.add_str(pn, [('esc', ('hex', '41')), ('ucn', False, '00e9'), ('esc', ('oct', '7')), ('ucn', True, '0001f600')])
        # rejected: unclosed, bare \x
        C.add_str(pn, raw=b'abc\n', expect='reject')
        C.add_str(pn, raw=b'ab\\"c\n', expect='reject')
        C.add_str(pn, raw=b'\\xg"', expect='reject')
        C.add_str(pn, raw=b'a\\x"', expect='reject')
        # tolerated although not C11: unknown escapes, \u0000, short universal character names
        for raw in [b'\\q"', b'\\8"', b'a\\9b"', b'\\u0000"', b'\\u12"', b'\\U0000"', b'\\u00zz"', b'\\ "']:
            C.add_str(pn, raw=raw, expect='lenient')
    # --- character constants
    for pn, _ in CPREFIX:
        for e in bes:
            C.add_chr(pn, ('esc', e))
        for cp in CPS + [ord('a'), ord('"'), ord('0'), ord(' ')]:
            C.add_chr(pn, ('chr', cp))
            if cp >= 0xa0 or cp in (0x24, 0x40, 0x60):
                C.add_chr(pn, ('ucn', True, '%08x' % cp))
                if cp < 0x10000: C.add_chr(pn, ('ucn', False, '%04X' % cp))
        for raw in [b"ab'", b"abcd'", b"\\x41b'", b"\\101\\102'", b"\\q'", b"\\u0000'"]:
            C.add_chr(pn, raw=raw, expect='lenient')
        for raw in [b'a', b'\\n', b'\\xg\'', b'\\x\'', b'ab']:
            C.add_chr(pn, raw=raw, expect='reject')
        # several elements, one an escaped quote (value implementation-defined: the first element)
        for raw in [b"a\\''", b"\\'\\''", b"ab\\\\'", b"a\\'b'"]:
            C.add_chr(pn, raw=raw, expect='lenient')
    # --- integer constants
    vals = [0, 1, 7, 8, 9, 10, 255, 2**31 - 1, 2**31, 2**31 + 1, 2**32 - 1, 2**32, 2**32 + 1, 2**63 - 1, 2**63, 2**63 + 1,
            2**64 - 1, 2**64, 2**64 + 1, 2**70 + 12345]
    def spell_int(base, v, zeros=0):
        if base == 'dec': return 'BDec', str(v), ''
        if base == 'oct': return 'BOct', '0' * zeros + (format(v, 'o') if v or not zeros else ''), '0'
        if base == 'hex':
            up = rng.random() < 0.5
            return 'BHex %s' % ('true' if up else 'false'), '0' * zeros + hexspell(rng, v), '0X' if up else '0x'
        up = rng.random() < 0.5
        return 'BBin %s' % ('true' if up else 'false'), '0' * zeros + format(v, 'b'), '0B' if up else '0b'
    def add_valid(base, v, sfx, zeros=0):
        if base == 'dec' and v == 0: base = 'oct'
        b, digs, pre = spell_int(base, v, zeros)
        if base == 'oct' and v == 0 and zeros == 0: digs = ''       # the constant 0 : octal with no further digit
        C.add_int(pre + digs + sfx, (b, digs, sfx))
    for base in ['dec', 'oct', 'hex', 'bin']:
        for sfx in SUFFIXES:
            for v in rng.sample(vals, 5) + [rng.getrandbits(rng.choice([5, 16, 31, 32, 33, 47, 63, 64]))]:
                add_valid(base, v, sfx)
        for v in vals:
            add_valid(base, v, '')
            add_valid(base, v, rng.choice(SUFFIXES))
        for z in [1, 2, 5]:
            if base != 'dec': add_valid(base, rng.choice(vals), rng.choice(SUFFIXES), z)
    for bad in BAD_SUFFIXES:
        for pre in ['1', '0', '017', '0x1f', '0b11', '42']:
            if rng.random() < 0.5 or pre == '1': C.add_int(pre + bad)
    for t in ['08', '09', '018', '0x', '0X', '0xg', '0x1g', '0b', '0b2', '0B12', '1a', '12ab', '0x0x1', '0X0X1f', '0x0X0', '0x0x',
              '0x0xg', '0x0x1u', '0x0x1lL', '0b0b1', '1e5', '1.5', '0x1p3', '1_000', '0o17', '1x', '00x1', '0xx1', '0bb1', '1ull1',
              '0x0x1ULL', '0x0xfffffffffffffffff', '1u2', '0u0', '0xu', '0bu']:
        C.add_int(t)
    # a hexadecimal constant whose digits begin like a binary prefix is valid (0x0b1 = 177)
    C.add_int('0x0b1', ('BHex false', '0b1', ''))
    C.add_int('0X0B1u', ('BHex true', '0B1', 'u'))
    C.add_int('0x0', ('BHex false', '0', ''))
    C.add_int('0b0L', ('BBin false', '0', 'L'))
    # --- random structured cases
    for _ in range(n):
        r = rng.random()
        if r < 0.45:
            C.add_str(rng.choice(SPREFIX)[0], rand_body(rng, '"'))
        elif r < 0.65:
            pn = rng.choice(CPREFIX)[0]
            it = rand_item(rng, "'")
            C.add_chr(pn, it)
        elif r < 0.9:
            add_valid(rng.choice(['dec', 'oct', 'hex', 'bin']), rng.getrandbits(rng.choice([3, 8, 16, 31, 32, 33, 48, 63, 64, 65])),
                      rng.choice(SUFFIXES), rng.choice([0, 0, 0, 1, 3]))
        else:
            pre = rng.choice(['', '0', '0x', '0X', '0b'])
            digs = ''.join(rng.choice('0123456789abcdefABCDEF') for _ in range(rng.randint(0, 5)))
            sfx = ''.join(rng.choice('uUlL') for _ in range(rng.randint(0, 4)))
            t = pre + digs + sfx
            if t and t[0].isdigit() and not re.search(r'[eEpP]', t): C.add_int(t)
    return C

# ------------------------------------------------------------------ Coq side
COQ_HEADER = r'''From Coq Require Import List NArith ZArith Bool.
From Chibicc Require Import Model.Unicode Spec.Utf Model.IntLit Spec.IntLitSpec Model.LitScan Spec.LitSpec
     Proofs.LitScanProofs Proofs.IntScanProofs Proofs.UcnProofs.
Import ListNotations.
Set Printing Width 10000000.
Set Printing Depth 10000000.
Local Open Scope N_scope.
Definition zb (b : bool) : Z := if b then 1%Z else 0%Z.
Definition zl (l : list N) : list Z := map Z.of_N l.
Definition zn (n : nat) : Z := Z.of_nat n.
Definition ety_code (t : c_elem_ty) : Z := match t with TyChar => 1 | TyUShort => 2 | TyUInt => 3 | TyInt => 4 end%Z.
Definition sty_code (t : elem_ty) : Z := match t with ElChar => 1 | ElU16 => 2 | ElU32 => 3 | ElWchar => 4 end%Z.
Definition cty_code (t : c_char_ty) : Z := match t with CTyInt => 1 | CTyUShort => 2 | CTyUInt => 3 end%Z.
Definition scty_code (t : char_ty) : Z := match t with CtInt => 1 | CtU16 => 2 | CtU32 => 3 end%Z.
Definition lty_code (t : lit_ty) : Z := match t with TInt => 1 | TUInt => 2 | TLong => 3 | TULong => 4 end%Z.
Definition err_code (e : lit_err) : Z := match e with ErrHexEscape => 1 | ErrUnclosedString => 2 | ErrUnclosedChar => 3 | ErrInvalidUtf8 => 4 end%Z.
Definition enc_res {A} (f : A -> list Z) (r : res A) : list Z :=
  match r with Ok a => 1%Z :: f a | Err e => [2%Z; err_code e] | PastEnd => [3%Z] | OutOfFuel => [4%Z] end.
Definition bind {A B} (r : res A) (f : A -> res B) : res B :=
  match r with Ok a => f a | Err e => Err e | PastEnd => PastEnd | OutOfFuel => OutOfFuel end.
Definition m_str (p : sprefix) (buf : list N) : list Z :=
  enc_res (fun r => ety_code (fst (fst r)) :: zn (length (snd r)) :: zl (snd (fst r)))
          (bind (cuc buf) (string_token (model_sprefix p))).
Definition m_chr (p : cprefix) (buf : list N) : list Z :=
  enc_res (fun r => [cty_code (snd (fst r)); zn (length (snd r)); num_value (snd (fst r)) (fst (fst r))])
          (bind (cuc buf) (char_token (model_cprefix p))).
(* abstract case: [flags: spelled as given, valid, escapes in range]; model; spec *)
Definition str_case (p : sprefix) (l : list sitem) (src tail : list N) : list (list Z) :=
  let r := map resolve_sitem l in
  [ [zb (list_eqb (spell_sitems l) src); zb (forallb (valid_sitem 34) l && munch_ok 34 r); zb (items_in_range p r)];
    m_str p (src ++ tail);
    sty_code (string_elem_ty p) :: zl (spec_string_units p r) ].
Definition str_raw (p : sprefix) (buf : list N) : list (list Z) := [ []; m_str p buf; [] ].
Definition chr_case (p : cprefix) (it : sitem) (src tail : list N) : list (list Z) :=
  [ [zb (list_eqb (spell_sitem it) src); zb (valid_sitem 39 it)];
    m_chr p (src ++ tail);
    scty_code (char_const_ty p) :: match spec_char_value p (resolve_sitem it) with Some v => [1%Z; v] | None => [0%Z] end ].
Definition chr_raw (p : cprefix) (buf : list N) : list (list Z) := [ []; m_chr p buf; [] ].
Definition int_case (s : list N) (k : option iconst) : list (list Z) :=
  [ [match k with Some k => zb (valid_iconst k && list_eqb (spell_iconst k) s) | None => 2%Z end; 0%Z];
    match convert_pp_int s with Some (v, t) => [1%Z; lty_code t; Z.of_N v] | None => [0%Z] end;
    match recognise_iconst s with
    | Some k => 1%Z :: Z.of_N (iconst_value k) ::
                match iconst_type k with Some t => [lty_code t] | None => [0%Z] end
    | None => [0%Z]
    end ].
'''

def sfx_coq(s):
    if s == '': return 'SfxNone'
    u = {'u': 'Su', 'U': 'SU'}; l = {'l': 'Sl', 'L': 'SL', 'll': 'Sll', 'LL': 'SLL'}
    if s[0] in 'uU':
        return '(SfxUL %s %s)' % (u[s[0]], '(Some %s)' % l[s[1:]] if s[1:] else 'None')
    if s[-1] in 'uU':
        return '(SfxLU %s (Some %s))' % (l[s[:-1]], u[s[-1]])
    return '(SfxLU %s None)' % l[s]

def coq_terms(C, reject_files):
    """one Coq term (list (list Z)) per case, in the order str, chr, int"""
    terms = []
    for c in C.str:
        if c['items'] is not None:
            terms.append('str_case %s [%s] %s [34; 41]' % (c['prefix'], '; '.join(item_coq(i) for i in c['items']), nlist(c['body'])))
        else:
            terms.append('str_raw %s %s' % (c['prefix'], nlist(c['after'])))
    for c in C.chr:
        if c['item'] is not None:
            terms.append('chr_case %s %s %s [39; 41]' % (c['prefix'], item_coq(c['item']), nlist(c['body'])))
        else:
            terms.append('chr_raw %s %s' % (c['prefix'], nlist(c['after'])))
    for c in C.int:
        k = c['k']
        ks = 'None' if k is None else '(Some {| ic_base := %s; ic_digits := %s; ic_suffix := %s |})' % (k[0], nlist(k[1].encode()), sfx_coq(k[2]))
        terms.append('int_case %s %s' % (nlist(c['text'].encode()), ks))
    return terms

def run_coq(terms, verif_dir, wd):
    vf = os.path.join(wd, 'Cases_escapes.v')
    with open(vf, 'w') as f:
        f.write(COQ_HEADER)
        for i in range(0, len(terms), 60):
            f.write('Eval vm_compute in [\n  ' + ';\n  '.join(terms[i:i + 60]) + '\n].\n')
    theories = os.path.join(verif_dir, 'coq', 'theories')
    p = subprocess.run(['timeout', '300', 'coqc', '-Q', theories, 'Chibicc', '-w', '-deprecated-syntactic-definition,-deprecated', vf],
                       cwd=wd, capture_output=True, text=True)
    if p.returncode != 0:
        raise RuntimeError('coqc failed on Cases_escapes.v: ' + (p.stderr or p.stdout)[-2000:])
    out = []
    for m in re.finditer(r'^\s*= (\[.*?)\n\s*: list \(list \(list Z\)\)', p.stdout, re.S | re.M):
        txt = m.group(1).replace('%Z', '').replace('(', '').replace(')', '').replace(';', ',')
        out.extend(json.loads(txt))
    if len(out) != len(terms):
        raise RuntimeError('parsed %d Coq results for %d cases' % (len(out), len(terms)))
    return out

# ------------------------------------------------------------------ chibicc side
SPFX = dict(SPREFIX); CPFX = dict(CPREFIX)

def lit_text(c):
    if c['kind'] == 'str': return SPFX[c['prefix']].encode() + b'"' + c['body'] + (b'"' if c['items'] is not None else b'')
    if c['kind'] == 'chr': return CPFX[c['prefix']].encode() + b"'" + c['body'] + (b"'" if c['item'] is not None else b'')
    return c['text'].encode()

def case_line(idx, c):
    L = lit_text(c)
    if c['kind'] == 'str':
        return (b'  printf("S%d %%d %%d %%d:", (int)sizeof(' % idx + L + b'[0]), ((typeof(' + L + b'[0]))-1 < 0), (int)(sizeof(' + L +
                b')/sizeof(' + L + b'[0]))); dump(' + L + b', (int)sizeof(' + L + b'[0]), (int)(sizeof(' + L + b')/sizeof(' + L + b'[0])));\n')
    if c['kind'] == 'chr':
        return b'  printf("C%d %%d %%d %%ld\\n", (int)sizeof(' % idx + L + b'), ((typeof(' + L + b'))-1 < 0), (long)(' + L + b'));\n'
    g = (GENERIC % c['text']).encode()
    return b'  printf("I%d %%d %%d %%d %%lx\\n", ' % idx + g + b', (int)sizeof(' + L + b'), ((typeof(' + L + b'))-1 < 0), (unsigned long)(' + L + b'));\n'

def sh(cmd, **kw):
    return subprocess.run(cmd, capture_output=True, **kw)

def compile_run_batch(chibicc, wd, name, cases_idx):
    """cases_idx: list of (global index, case).  Returns {index: output fields or 'rejected'}.  A case whose line is
       named by a chibicc diagnostic is recorded as rejected and the batch is retried without it."""
    res = {}
    todo = list(cases_idx)
    for attempt in range(40):
        if not todo: break
        src = os.path.join(wd, '%s_%d.c' % (name, attempt)); exe = src[:-2] + '.exe'
        head = (PRINTF + DUMP + 'int main(void) {\n').encode()
        nhead = head.count(b'\n')
        with open(src, 'wb') as f:
            f.write(head)
            for i, c in todo: f.write(case_line(i, c))
            f.write(b'  return 0;\n}\n')
        p = sh([chibicc, '-o', exe, src])
        if p.returncode == 0 and os.path.exists(exe):
            r = sh([exe])
            for line in r.stdout.decode('latin-1').split('\n'):
                m = re.match(r'([SCI])(\d+) (.*)', line)
                if m: res[int(m.group(2))] = m.group(3).replace(':', '').split()
            for i, c in todo: res.setdefault(i, 'no-output(rc=%d)' % r.returncode)
            return res
        m = re.search(r'%s:(\d+):' % re.escape(src), p.stderr.decode('latin-1'))
        if not m:                                   # cc1 died or the diagnostic names no line: fall back to one by one
            break
        k = int(m.group(1)) - nhead - 1
        if not (0 <= k < len(todo)): break
        res[todo[k][0]] = 'rejected'
        del todo[k]
    for i, c in todo:                               # fallback: one program per case
        res[i] = compile_run_single(chibicc, wd, '%s_one_%d' % (name, i), c, i)
    return res

def reject_source(c):
    """a file in which the literal occurs once and no quote follows it"""
    return PRINTF.encode() + b'int main(void) { return (int)sizeof(' + lit_text(c) + b');\n}\n'

def single_source(c, idx):
    return (PRINTF + DUMP).encode() + b'int main(void) {\n' + case_line(idx, c) + b'  return 0;\n}\n'

def compile_run_single(chibicc, wd, name, c, idx):
    src = os.path.join(wd, name + '.c'); exe = src[:-2] + '.exe'
    open(src, 'wb').write(single_source(c, idx))
    p = sh([chibicc, '-S', '-o', '/dev/null', src])
    if p.returncode != 0: return 'rejected'
    p = sh([chibicc, '-o', exe, src])
    if p.returncode != 0: return 'rejected'
    r = sh([exe])
    m = re.match(r'[SCI]\d+ (.*)', r.stdout.decode('latin-1'))
    return m.group(1).replace(':', '').split() if m else 'no-output(rc=%d)' % r.returncode

# ------------------------------------------------------------------ decisions
STR_TY = {1: (1, 1), 2: (2, 0), 3: (4, 0), 4: (4, 1)}          # code -> (element size, signed)
CHR_TY = {1: (4, 1), 2: (2, 0), 3: (4, 0)}
INT_TY = {1: (4, 1), 2: (4, 0), 3: (8, 1), 4: (8, 0)}

def canon_impl(c, r):
    if isinstance(r, str): return r
    try:
        if c['kind'] == 'str': return ['ok', int(r[0]), int(r[1])] + [int(x, 16) for x in r[3:]]
        if c['kind'] == 'chr': return ['ok', int(r[0]), int(r[1]), int(r[2])]
        cls = int(r[0])
        if cls in (1, 2, 3, 4): return ['int', cls, int(r[3], 16)]
        return 'not-integer(class %d)' % cls
    except Exception:
        return 'unparsable:' + ' '.join(r)

def canon_model(c, m):
    if c['kind'] == 'str':
        if m[0] != 1: return 'rejected'
        if m[2] != (1 if c['items'] is not None else m[2]): return 'model-token-end-differs'
        sz, sg = STR_TY[m[1]]
        return ['ok', sz, sg] + m[3:]
    if c['kind'] == 'chr':
        if m[0] != 1: return 'rejected'
        sz, sg = CHR_TY[m[1]]
        return ['ok', sz, sg, m[3]]
    if m[0] == 0: return 'not-integer'
    return ['int', m[1], m[2]]

def canon_spec(c, fl, s):
    """None = C11 gives no result for this case (lenient); 'rejected' / 'not-integer' = not in the grammar"""
    if c['kind'] == 'str':
        if c['expect'] == 'reject': return 'rejected'
        if c['items'] is None or not (fl[1] and fl[2]): return None
        sz, sg = STR_TY[s[0]]
        return ['ok', sz, sg] + s[1:]
    if c['kind'] == 'chr':
        if c['expect'] == 'reject': return 'rejected'
        if c['item'] is None or not fl[1] or s[1] == 0: return None
        sz, sg = CHR_TY[s[0]]
        return ['ok', sz, sg, s[2]]
    if s[0] == 0: return 'not-integer'
    if s[2] == 0 or s[1] >= 2**64: return None
    return ['int', s[2], s[1]]

def same(a, b):
    na = isinstance(a, str) and (a.startswith('not-integer') or a == 'rejected')
    nb = isinstance(b, str) and (b.startswith('not-integer') or b == 'rejected')
    if na or nb: return na and nb
    return a == b

def run(src_dir, seed=1, n=300, verif_dir=None):
    t0 = time.time()
    verif_dir = verif_dir or os.path.dirname(os.path.dirname(os.path.abspath(__file__)))
    chibicc = os.path.join(src_dir, 'chibicc')
    rng = random.Random(seed)
    C = gen_cases(rng, n)
    wd = tempfile.mkdtemp(prefix='tie_escapes_')
    try:
        allc = C.str + C.chr + C.int
        # the text the scanners see behind the opening quote of a raw (reject / lenient) case
        for idx, c in enumerate(allc):
            if c['kind'] != 'int' and (c.get('items') is None and c.get('item') is None):
                if c['expect'] == 'reject':
                    whole, L = reject_source(c), lit_text(c)
                    off = whole.index(L) + len(L) - len(c['body'])
                    c['after'] = list(whole[off:])
                else:
                    c['after'] = list(c['body']) + [41]
        coq = run_coq(coq_terms(C, None), verif_dir, wd)
        impl, batch = {}, []
        for i, c in enumerate(allc):
            fl, m, s = coq[i]
            if c['kind'] != 'int' and c.get('expect') == 'reject':
                src = os.path.join(wd, 'rej%d.c' % i)
                open(src, 'wb').write(reject_source(c))
                impl[i] = 'rejected' if sh([chibicc, '-S', '-o', '/dev/null', src]).returncode != 0 else 'accepted'
            elif c['kind'] == 'int' and (m[0] == 0 or s[0] == 0):
                impl[i] = compile_run_single(chibicc, wd, 'one%d' % i, c, i)        # expected not to be an integer constant
            else:
                batch.append((i, c))
        for j in range(0, len(batch), 400):
            impl.update(compile_run_batch(chibicc, wd, 'batch%d' % j, batch[j:j + 400]))
        ivs, ivm, known, samples, dist = [], [], [], [], {}
        nontrivial = set()
        gen_problems = []
        for i, c in enumerate(allc):
            fl, m, s = coq[i]
            ci, cm, cs = canon_impl(c, impl[i]), canon_model(c, m), canon_spec(c, fl, s)
            text = lit_text(c).decode('latin-1')
            if c['kind'] == 'int':
                cat = 'int_' + ('valid' if isinstance(cs, list) else 'untyped_or_overflow' if cs is None else 'not_integer')
                if fl[0] == 0: gen_problems.append(text)
                if re.search(r'[uUlL]|^0[xXbB]|^0\d', c['text']) or isinstance(cs, str): nontrivial.add(('i', c['text']))
            else:
                its = c.get('items') if c['kind'] == 'str' else ([c['item']] if c.get('item') is not None else None)
                cat = '%s_%s_%s' % (c['kind'], c['prefix'], 'valid' if isinstance(cs, list) else 'lenient' if cs is None else 'reject')
                if its is not None:
                    if fl[0] == 0 or fl[1] == 0: gen_problems.append(text)
                    for it in its: dist['elem_' + feature(it)] = dist.get('elem_' + feature(it), 0) + 1
                    if any(it[0] != 'chr' or it[1] >= 128 for it in its): nontrivial.add((c['kind'], c['prefix'], c['body']))
                else:
                    nontrivial.add((c['kind'], c['prefix'], c['body']))
            dist[cat] = dist.get(cat, 0) + 1
            rec = dict(case=text, kind=c['kind'])
            if cs is not None and not same(ci, cs):
                ivs.append(dict(rec, impl=ci, spec=cs))
            if not same(ci, cm):
                ivm.append(dict(rec, impl=ci, model=cm))
            if len(samples) < 12 and i % max(1, len(allc) // 12) == 0:
                samples.append(dict(rec, impl=ci, model=cm, spec=cs))
        if gen_problems:
            raise RuntimeError('generator and Coq grammar disagree on the spelling/validity of: %r' % gen_problems[:5])
        return dict(evaluations=len(allc), distinct_nontrivial=len(nontrivial), distribution=dict(sorted(dist.items())),
                    impl_vs_spec=ivs, impl_vs_model=ivm, known_findings=known, samples=samples,
                    seed=seed, n=n, seconds=round(time.time() - t0, 1))
    finally:
        shutil.rmtree(wd, ignore_errors=True)

if __name__ == '__main__':
    if len(sys.argv) < 2:
        print(__doc__); sys.exit(2)
    seed = int(sys.argv[2]) if len(sys.argv) > 2 else 1
    n = int(sys.argv[3]) if len(sys.argv) > 3 else 300
    vd = os.environ.get('VERIF_DIR') or os.path.dirname(os.path.dirname(os.path.abspath(__file__)))
    res = run(sys.argv[1], seed, n, vd)
    print(json.dumps(res, indent=1, default=str))
    sys.exit(1 if res['impl_vs_spec'] or res['impl_vs_model'] else 0)
