#!/usr/bin/env python3
"""Tie of package `exprmem` (property C01: integer expressions with objects) to the real chibicc.

   run(src_dir, seed, n, verif_dir) -> dict

   n random expression trees (depth 1-5) over 3-6 local variables of random integer types with
   boundary / small initial values, race-free by construction (6.5p2), built from literals, variable
   reads, unary + - ~ !, the binary operators, && || ?: , casts, commas, x = e, x o= e, ++x --x x++ x--.
   For every case
     (1) the Coq SPEC  (Spec/C11IntMem.v, meval)  gives the C11 value and final variable values, or undefined;
     (2) the Coq MODEL (Model/ExprMem.v) gives the -S text of `return EXPR` (mtext (mcompile (layout ..))) and the
         result of running that code on the byte memory (mrun);
     (3) the REAL chibicc compiles  long t<i>(void) { T0 v0; ...; return EXPR; }  with -S: the instruction text between
         the prologue and `jmp .L.return` must equal the model's text (labels renamed by first appearance;
         the frame offsets are those of the Coq function `layout`, the model of assign_lvar_offsets)      -> impl_vs_model
     (4) the REAL chibicc compiles and runs a program that evaluates every case whose C11 value is defined
         (variables initialised through volatile globals) and prints the value and the final variables:
         must equal the spec                                                                                -> impl_vs_spec
         (and the model's run must equal the spec too - that is the theorem; a difference is reported in impl_vs_model)
   Postfix ++/-- on a _Bool variable (the former finding C01-bool-postfix, repaired in /repo by 43b829f) is
   generated like everything else and counted in distribution['bool_postfix_cases'].
   The model is that of /repo at 20d74ad (postfix ++/-- through a saved old value); on an older chibicc every
   case with a postfix ++/-- is reported in impl_vs_model.
"""
import os, sys, re, json, random, subprocess, tempfile, shutil, time

TYPES = ['bool', 'i8', 'u8', 'i16', 'u16', 'i32', 'u32', 'i64', 'u64']
COQTY = {'bool': 'IBool', 'i8': 'I8', 'u8': 'U8', 'i16': 'I16', 'u16': 'U16', 'i32': 'I32', 'u32': 'U32', 'i64': 'I64', 'u64': 'U64'}
CNAME = {'bool': '_Bool', 'i8': 'signed char', 'u8': 'unsigned char', 'i16': 'short', 'u16': 'unsigned short',
         'i32': 'int', 'u32': 'unsigned int', 'i64': 'long', 'u64': 'unsigned long'}
WIDTH = {'bool': 1, 'i8': 8, 'u8': 8, 'i16': 16, 'u16': 16, 'i32': 32, 'u32': 32, 'i64': 64, 'u64': 64}
SIZE = {'bool': 1, 'i8': 1, 'u8': 1, 'i16': 2, 'u16': 2, 'i32': 4, 'u32': 4, 'i64': 8, 'u64': 8}
SIGNED = {'i8', 'i16', 'i32', 'i64'}
UNOPS = {'Neg': '-', 'BitNot': '~', 'LogNot': '!', 'Plus': '+'}
ARITH = {'Add': '+', 'Sub': '-', 'Mul': '*', 'Div': '/', 'Mod': '%', 'BAnd': '&', 'BOr': '|', 'BXor': '^'}
SHIFT = {'Shl': '<<', 'Shr': '>>'}
CMP = {'OEq': '==', 'ONe': '!=', 'OLt': '<', 'OLe': '<=', 'OGt': '>', 'OGe': '>='}
LOGIC = {'LAnd': '&&', 'LOr': '||'}
BINOPS = dict(ARITH); BINOPS.update(SHIFT); BINOPS.update(CMP); BINOPS.update(LOGIC)

def tmin(t): return -(1 << (WIDTH[t] - 1)) if t in SIGNED else 0
def tmax(t): return 1 if t == 'bool' else ((1 << (WIDTH[t] - 1)) - 1 if t in SIGNED else (1 << WIDTH[t]) - 1)

def boundary_values(t):
    lo, hi = tmin(t), tmax(t)
    vs = {lo, hi, 0, 1, lo + 1, hi - 1, hi // 2, hi // 2 + 1, 2, 3, 7, 31, 32, 63, 64, 127, 128, 255, 256, 32767, 32768, 65535, 65536,
          (1 << 31) - 1, 1 << 31, (1 << 32) - 1, 1 << 32, -1, -2, -128, -129, -32768, -32769, -(1 << 31), -(1 << 31) - 1}
    return sorted(v for v in vs if lo <= v <= hi)

def rand_value(rng, t):
    r = rng.random()
    if r < 0.45: return rng.choice(boundary_values(t))
    if r < 0.85: return max(tmin(t), min(tmax(t), rng.randint(-4, 40)))
    return rng.randint(tmin(t), tmax(t))

# ---------------------------------------------------------------- generation (race-free by construction)
# tree := ('L', ty, val) | ('V', x) | ('U', op, e) | ('B', op, a, b) | ('C', ty, e) | ('Q', c, a, b) | ('M', a, b)
#       | ('A', x, e) | ('O', op, x, e) | ('I', post, inc, x)
class Gen:
    def __init__(self, rng, types, allow_bool_postfix):
        self.rng, self.types, self.allow_bp = rng, types, allow_bool_postfix
        self.nv = len(types)

    def lit(self, small=False):
        rng = self.rng
        t = rng.choice(['i32', 'i32', 'i32', 'u32', 'i64', 'u64'])
        if small: return ('L', t, rng.choice([0, 1, 1, 2, 3, 4, 7, 8, 15, 16, 31]))
        v = rng.choice([0, 1, 2, 3, 5, 7, 10, 100, 255, 256, 1000, 65535, 65536, 70000, tmax(t), tmax(t) - 1, rng.randint(0, 50)])
        return ('L', t, min(v, tmax(t)))

    def leaf(self, noread):
        ok = [x for x in range(self.nv) if x not in noread]
        if ok and self.rng.random() < 0.7: x = self.rng.choice(ok); return ('V', x), {x}, set()
        return self.lit(), set(), set()

    def gen(self, depth, nowrite, noread):
        """returns (tree, reads, writes); the tree writes nothing in nowrite and reads nothing in noread"""
        rng = self.rng
        if depth <= 0 or rng.random() < 0.10: return self.leaf(noread)
        r = rng.random()
        wr_ok = [x for x in range(self.nv) if x not in nowrite]
        rw_ok = [x for x in wr_ok if x not in noread]
        if r < 0.10:
            e, rd, wr = self.gen(depth - 1, nowrite, noread)
            return ('U', rng.choice(list(UNOPS)), e), rd, wr
        if r < 0.40:    # unsequenced binary operator
            k = rng.random()
            op = rng.choice(list(ARITH)) if k < 0.55 else rng.choice(list(SHIFT)) if k < 0.70 else rng.choice(list(CMP))
            a, ra, wa = self.gen(depth - 1, nowrite, noread)
            if op in SHIFT and rng.random() < 0.8: b, rb, wb = self.lit(small=True), set(), set()
            else: b, rb, wb = self.gen(depth - 1, nowrite | ra | wa, noread | wa)
            if rng.random() < 0.5 and not (wb & (ra | wa)) and not (wa & (rb | wb)) and op not in SHIFT: a, b = b, a
            return ('B', op, a, b), ra | rb, wa | wb
        if r < 0.48:    # && ||
            a, ra, wa = self.gen(depth - 1, nowrite, noread); b, rb, wb = self.gen(depth - 1, nowrite, noread)
            return ('B', rng.choice(list(LOGIC)), a, b), ra | rb, wa | wb
        if r < 0.55:
            c, rc, wc = self.gen(depth - 1, nowrite, noread); a, ra, wa = self.gen(depth - 1, nowrite, noread); b, rb, wb = self.gen(depth - 1, nowrite, noread)
            return ('Q', c, a, b), rc | ra | rb, wc | wa | wb
        if r < 0.60:
            a, ra, wa = self.gen(depth - 1, nowrite, noread); b, rb, wb = self.gen(depth - 1, nowrite, noread)
            return ('M', a, b), ra | rb, wa | wb
        if r < 0.68:
            e, rd, wr = self.gen(depth - 1, nowrite, noread)
            return ('C', rng.choice(TYPES), e), rd, wr
        if r < 0.80 and wr_ok:
            x = rng.choice(wr_ok)
            e, rd, wr = self.gen(depth - 1, nowrite | {x}, noread)
            return ('A', x, e), rd, wr | {x}
        if r < 0.92 and rw_ok:
            x = rng.choice(rw_ok)
            k = rng.random()
            op = rng.choice(list(ARITH)) if k < 0.75 else rng.choice(list(SHIFT))
            if op in SHIFT and rng.random() < 0.8: e, rd, wr = self.lit(small=True), set(), set()
            else: e, rd, wr = self.gen(depth - 1, nowrite | {x}, noread)
            return ('O', op, x, e), rd | {x}, wr | {x}
        if rw_ok:
            x = rng.choice(rw_ok); post = rng.random() < 0.5
            if post and self.types[x] == 'bool' and not self.allow_bp:
                post = False
            return ('I', post, rng.random() < 0.5, x), {x}, {x}
        return self.leaf(noread)

def has_bool_postfix(e, types):
    if e[0] == 'I': return e[1] and types[e[3]] == 'bool'
    return any(has_bool_postfix(x, types) for x in e[1:] if isinstance(x, tuple))

def kinds(e, acc):
    acc[{'L': 'lit', 'V': 'var', 'U': 'unary', 'B': 'binary', 'C': 'cast', 'Q': 'cond', 'M': 'comma', 'A': 'assign', 'O': 'opassign', 'I': 'incdec'}[e[0]]] += 1
    for x in e[1:]:
        if isinstance(x, tuple): kinds(x, acc)

def depth_of(e):
    subs = [x for x in e[1:] if isinstance(x, tuple)]
    return 0 if not subs else 1 + max(depth_of(x) for x in subs)

# ---------------------------------------------------------------- printers
def lit_c(t, v):
    return {'i32': '%d', 'u32': '%du', 'i64': '%dl', 'u64': '%dul'}[t] % v

def to_c(e):
    k = e[0]
    if k == 'L': return lit_c(e[1], e[2])
    if k == 'V': return 'v%d' % e[1]
    if k == 'U': return '(%s%s)' % (UNOPS[e[1]], to_c(e[2]))
    if k == 'B': return '(%s %s %s)' % (to_c(e[2]), BINOPS[e[1]], to_c(e[3]))
    if k == 'C': return '((%s)%s)' % (CNAME[e[1]], to_c(e[2]))
    if k == 'Q': return '(%s ? %s : %s)' % (to_c(e[1]), to_c(e[2]), to_c(e[3]))
    if k == 'M': return '(%s, %s)' % (to_c(e[1]), to_c(e[2]))
    if k == 'A': return '(v%d = %s)' % (e[1], to_c(e[2]))
    if k == 'O': return '(v%d %s= %s)' % (e[2], BINOPS[e[1]], to_c(e[3]))
    if k == 'I':
        op = '++' if e[2] else '--'
        return '(v%d%s)' % (e[3], op) if e[1] else '(%sv%d)' % (op, e[3])
    raise ValueError(k)

def zc(v): return '(%d)' % v if v < 0 else '%d' % v
def to_coq(e):
    k = e[0]
    if k == 'L': return '(MLit %s %s)' % (COQTY[e[1]], zc(e[2]))
    if k == 'V': return '(MVar %d)' % e[1]
    if k == 'U': return '(MUn %s %s)' % (e[1], to_coq(e[2]))
    if k == 'B': return '(MBin %s %s %s)' % (e[1], to_coq(e[2]), to_coq(e[3]))
    if k == 'C': return '(MCast %s %s)' % (COQTY[e[1]], to_coq(e[2]))
    if k == 'Q': return '(MCond %s %s %s)' % (to_coq(e[1]), to_coq(e[2]), to_coq(e[3]))
    if k == 'M': return '(MComma %s %s)' % (to_coq(e[1]), to_coq(e[2]))
    if k == 'A': return '(MAssign %d %s)' % (e[1], to_coq(e[2]))
    if k == 'O': return '(MOpAssign %s %d %s)' % (e[1], e[2], to_coq(e[3]))
    if k == 'I': return '(MIncDec %s %s %d)' % ('true' if e[1] else 'false', 'true' if e[2] else 'false', e[3])
    raise ValueError(k)

COQ_PRELUDE = r'''From Coq Require Import ZArith List String.
From Chibicc Require Import Spec.C11Int Spec.C11IntMem Model.X86Int Model.CodegenInt Model.ExprGen Model.ExprMem Model.ExprMemFlat
     Proofs.ExprMemProofs Proofs.ExprMemMain.
Import ListNotations.
Open Scope Z_scope.
Set Printing Width 100000000.
Set Printing Depth 100000000.
Definition sep2 (a b : string) : string := String.append a (String.append "|" b).
Definition show_zs (l : list Z) : string := String.concat "," (map zs l).
Definition show_ty (t : ity) : string :=
  match t with IBool => "bool" | I8 => "i8" | U8 => "u8" | I16 => "i16" | U16 => "u16" | I32 => "i32" | U32 => "u32" | I64 => "i64" | U64 => "u64" end%string.
Definition s0 := {| rax := 11; rdi := 22; rdx := 33; rcx := 44; f_zf := false; f_cf := false; f_lt := false |}.
(* spec | model run (code ;; cast to long) | type | frame | text of (code ;; cast to long) | jump-level text, targets as positions *)
Definition case_out (G : tyenv) (env : venv) (e : mexpr) : string :=
  let F := layout 4294967296 G (temps_of G e) in
  let code := CSeq (mcompile F e) (mcast (mm_type G e) I64) in
  let m0 := init_mem F env (nvars F) (fun _ => 0) in
  let spec := match meval G env e with Some (v, env') => String.append "S " (String.append (zs v) (String.append ";" (show_zs env'))) | None => "U"%string end in
  let model := match mrun (frbp F) code (s0, [77], m0) with
               | Some (s', k', m') =>
                 String.append "R " (String.append (zs (rax s')) (String.append ";"
                   (String.append (show_zs (map (fun x => load_le m' (vaddr F x) (nbytes (vty G x))) (seq 0 (nvars F))))
                   (String.append ";" (show_zs k')))))
               | None => "F"%string end in
  let frame := String.append (if andb (wf_frameb F) (temps_fitb F e) then "wf " else "BAD ")
                 (String.append (show_zs (map snd (fvars F))) (String.append ";" (show_zs (map snd (ftemps F))))) in
  sep2 spec (sep2 model (sep2 (show_ty (mtype G e)) (sep2 frame (sep2 (String.concat ";" (fst (mtext code 1)))
       (String.concat ";" (map xinstr_text (mflatten code 0))))))).
'''

def wrap64(v): v %= 1 << 64; return v - (1 << 64) if v >> 63 else v
def from_bytes(t, raw):
    if t == 'bool': return raw
    if t in SIGNED and raw >> (WIDTH[t] - 1): return raw - (1 << WIDTH[t])
    return raw

def norm_text(lines):
    """labels renamed by first appearance; mov $imm normalised modulo 2^64"""
    out, names = [], {}
    def ren(m):
        key = m.group(0)
        if key not in names: names[key] = '.L%d' % len(names)
        return names[key]
    for l in lines:
        l = re.sub(r'\s+', ' ', l.strip())
        if not l: continue
        m = re.match(r'mov \$(-?\d+), %rax$', l)
        if m: l = 'mov $%d, %%rax' % (int(m.group(1)) % (1 << 64))
        l = re.sub(r'\.L\.\w+\.\d+', ren, l)
        out.append(l)
    return out

def norm_pos(lines):
    """instructions with jump targets as positions: a label resolves to the index of the next instruction"""
    out, labels = [], {}
    for l in lines:
        l = re.sub(r'\s+', ' ', l.strip())
        if not l: continue
        m = re.match(r'(\.L\.\w+\.\d+):$', l)
        if m: labels[m.group(1)] = len(out); continue
        m = re.match(r'mov \$(-?\d+), %rax$', l)
        if m: l = 'mov $%d, %%rax' % (int(m.group(1)) % (1 << 64))
        out.append(l)
    return [re.sub(r'(\.L\.\w+\.\d+)$', lambda m: '@%s' % labels.get(m.group(1), m.group(1)), l) for l in out]

def sh(cmd, timeout=120, input=None, cwd=None):
    try:
        p = subprocess.run(cmd, capture_output=True, timeout=timeout, input=input, text=True, errors='replace', cwd=cwd)
        return p.returncode, p.stdout, p.stderr
    except subprocess.TimeoutExpired:
        return 124, '', 'TIMEOUT'

def make_cases(seed, n):
    rng = random.Random(seed)
    cases = []
    for i in range(n):
        nv = rng.randint(3, 6)
        types = [rng.choice(TYPES) for _ in range(nv)]
        if i % 9 == 0: types[0] = rng.choice(['i8', 'u16', 'bool'])        # small objects next to others
        vals = [rand_value(rng, t) for t in types]
        depth = rng.choice([1, 2, 2, 3, 3, 4, 5])
        g = Gen(rng, types, allow_bool_postfix=True)
        e, rd, wr = g.gen(depth, set(), set())
        if e[0] in 'LV' and rng.random() < 0.8:                            # a bare leaf is a dull case: wrap it
            x = rng.randrange(nv)
            e = rng.choice([('A', x, e), ('O', rng.choice(list(ARITH)), x, e), ('I', False, True, x)])
        cases.append(dict(id=i, types=types, vals=vals, expr=e))
    # fixed boundary cases: every type with = , += , ++ , -- at its limits (next to a neighbour of another type)
    i = n
    for t in TYPES:
        for v in (tmin(t), tmax(t)):
            for e in (('A', 0, ('V', 1)), ('O', 'Add', 0, ('L', 'i32', 1)), ('I', False, True, 0), ('I', t != 'bool', False, 0),
                      ('I', True, True, 0), ('I', True, False, 0),
                      ('B', 'Add', ('A', 0, ('L', 'u64', tmax('u64'))), ('V', 2)), ('O', 'Shr', 0, ('L', 'i32', 1))):
                cases.append(dict(id=i, types=[t, 'i64', 'u8'], vals=[v, -2, 200], expr=e)); i += 1
    # the witness of the former finding C01-bool-postfix and its mirror image
    cases.append(dict(id=i, types=['bool', 'i32', 'u8'], vals=[1, 5, 6], expr=('I', True, True, 0))); i += 1
    cases.append(dict(id=i, types=['bool', 'i32', 'u8'], vals=[0, 5, 6], expr=('I', True, False, 0))); i += 1
    return cases

def run(src_dir, seed=1, n=250, verif_dir=None):
    t_start = time.time()
    verif_dir = verif_dir or os.path.dirname(os.path.dirname(os.path.abspath(__file__)))
    chibicc = os.path.join(src_dir, 'chibicc')
    cases = make_cases(seed, n)
    wd = tempfile.mkdtemp(prefix='tie_exprmem_')
    res = dict(evaluations=0, distinct_nontrivial=0, distribution={}, impl_vs_spec=[], impl_vs_model=[], samples=[])
    dist = dict(cases=len(cases), spec_defined=0, spec_undefined=0, bool_postfix_cases=0,
                text_compared=0, run_compared=0, depth={}, constructs={k: 0 for k in ['lit', 'var', 'unary', 'binary', 'cast', 'cond', 'comma', 'assign', 'opassign', 'incdec']},
                var_types={t: 0 for t in TYPES})
    try:
        # ---------------- Coq: spec + model
        v = [COQ_PRELUDE]
        for c in cases:
            v.append('Eval vm_compute in case_out [%s] [%s] %s.' % ('; '.join(COQTY[t] for t in c['types']), '; '.join(zc(x) for x in c['vals']), to_coq(c['expr'])))
        open(os.path.join(wd, 'Cases_exprmem.v'), 'w').write('\n'.join(v) + '\n')
        rc, out, err = sh(['coqc', '-Q', os.path.join(verif_dir, 'coq', 'theories'), 'Chibicc', 'Cases_exprmem.v'], timeout=600, cwd=wd)
        if rc != 0:
            res['impl_vs_model'].append(dict(case='coqc', impl='-', model='coqc failed: ' + (err or out)[-600:]))
            return res
        lines = re.findall(r'^\s*= "(.*)"(?:%string)?\s*$', out, re.M)
        if len(lines) != len(cases):
            res['impl_vs_model'].append(dict(case='coqc', impl='-', model='expected %d results, parsed %d' % (len(cases), len(lines))))
            return res
        for c, l in zip(cases, lines):
            spec, model, ty, frame, text, flat = l.split('|', 5)
            c['flat'] = [x for x in flat.split(';') if x]
            c['ctype'] = ty
            c['spec'] = None if spec == 'U' else (int(spec[2:].split(';')[0]), [int(x) for x in spec[2:].split(';')[1].split(',')])
            if model == 'F': c['model'] = None
            else:
                a, b, k = model[2:].split(';')
                c['model'] = (wrap64(int(a)), [from_bytes(t, int(x)) for t, x in zip(c['types'], b.split(','))], k)
            c['frame'] = frame
            c['text'] = [x for x in text.split(';') if x]
            c['bp'] = has_bool_postfix(c['expr'], c['types'])
            kinds(c['expr'], dist['constructs'])
            d = depth_of(c['expr']); dist['depth'][d] = dist['depth'].get(d, 0) + 1
            for t in c['types']: dist['var_types'][t] += 1
            if c['spec'] is None: dist['spec_undefined'] += 1
            else: dist['spec_defined'] += 1
            if c['bp']: dist['bool_postfix_cases'] += 1
            # the theorem, replayed: where the spec is defined the model's run gives the spec's result
            if c['spec'] is not None:
                want = (wrap64(c['spec'][0]), c['spec'][1], '77')
                if c['model'] != want or not frame.startswith('wf '):
                    res['impl_vs_model'].append(dict(case=cdesc(c), impl='(model run vs spec)', model=repr(c['model']), spec=repr(want), frame=frame))
        # ---------------- (3) -S text
        src = ['int printf(const char*, ...);']
        for c in cases:
            decls = ' '.join('%s v%d;' % (CNAME[t], j) for j, t in enumerate(c['types']))
            src.append('long t%d(void) { %s return %s; }' % (c['id'], decls, to_c(c['expr'])))
        open(os.path.join(wd, 'text.c'), 'w').write('\n'.join(src) + '\n')
        rc, asm, err = sh([chibicc, '-S', '-o', '-', os.path.join(wd, 'text.c')], timeout=120)
        if rc != 0:
            res['impl_vs_spec'].append(dict(case='text.c', impl='chibicc -S failed (rc %d): %s' % (rc, err[-400:]), spec='valid program'))
        else:
            bodies, cur, started = {}, None, False
            for l in asm.split('\n'):
                t = l.strip()
                m = re.match(r'^(t\d+):$', t)
                if m: cur = m.group(1); bodies[cur] = []; started = False; continue
                if cur is None or not t or t.startswith('.loc') or t.startswith('.file'): continue
                if not started:
                    if re.match(r'mov %rsp, -\d+\(%rbp\)$', t): started = True
                    continue
                if t == 'jmp .L.return.%s' % cur: cur = None; continue
                bodies[cur].append(t)
            for c in cases:
                res['evaluations'] += 1; dist['text_compared'] += 1
                got = norm_text(bodies.get('t%d' % c['id'], ['<missing>'])); want = norm_text(c['text'])
                if got != want:
                    d = next((j for j in range(min(len(got), len(want))) if got[j] != want[j]), min(len(got), len(want)))
                    res['impl_vs_model'].append(dict(case=cdesc(c), at=d, impl=got[max(0, d - 2):d + 3], model=want[max(0, d - 2):d + 3]))
                else:
                    # the jump-level code (Model/ExprMemFlat.v, mflatten): labels resolved to positions on the emitted side
                    gotp = norm_pos(bodies.get('t%d' % c['id'], [])); wantp = norm_pos(c['flat'])
                    if gotp != wantp:
                        d = next((j for j in range(min(len(gotp), len(wantp))) if gotp[j] != wantp[j]), min(len(gotp), len(wantp)))
                        res['impl_vs_model'].append(dict(case=cdesc(c), at=d, level='jump code', impl=gotp[max(0, d - 2):d + 3], model=wantp[max(0, d - 2):d + 3]))
        # ---------------- (4) compile and run
        runnable = [c for c in cases if c['spec'] is not None]
        src = ['int printf(const char*, ...);', 'int fflush(void *);']
        for c in runnable:
            for j, (t, val) in enumerate(zip(c['types'], c['vals'])):
                if t == 'u64': src.append('volatile unsigned long g%d_%d = %dul;' % (c['id'], j, val))
                else: src.append('volatile long g%d_%d = %s;' % (c['id'], j, '%dl' % val if val >= 0 else ('(-%dl)' % -val if val > -(1 << 63) else '(-9223372036854775807l-1)')))
            inits = ' '.join('%s v%d = (%s)g%d_%d;' % (CNAME[t], j, CNAME[t], c['id'], j) for j, t in enumerate(c['types']))
            fmt = ' '.join(['%ld'] * (1 + len(c['types'])))
            args = ', '.join(['r'] + ['(long)v%d' % j for j in range(len(c['types']))])
            src.append('void c%d(void) { %s long r = (long)%s; printf("%d %s\\n", %s); fflush(0); }' % (c['id'], inits, to_c(c['expr']), c['id'], fmt, args))
        src.append('int main(void) { %s return 0; }' % ' '.join('c%d();' % c['id'] for c in runnable))
        open(os.path.join(wd, 'run.c'), 'w').write('\n'.join(src) + '\n')
        exe = os.path.join(wd, 'run.exe')
        rc, o, err = sh([chibicc, '-o', exe, os.path.join(wd, 'run.c')], timeout=120)
        if rc != 0:
            res['impl_vs_spec'].append(dict(case='run.c', impl='chibicc failed (rc %d): %s' % (rc, err[-400:]), spec='valid program'))
        else:
            rc, o, err = sh([exe], timeout=60)
            got = {}
            for l in o.split('\n'):
                p = l.split()
                if p: got[int(p[0])] = [int(x) for x in p[1:]]
            if rc != 0:
                res['impl_vs_spec'].append(dict(case='run.exe', impl='exit status %d after %d of %d cases' % (rc, len(got), len(runnable)), spec='every case has defined behaviour'))
            nontriv = set()
            for c in runnable:
                res['evaluations'] += 1; dist['run_compared'] += 1
                want = [wrap64(x) for x in [c['spec'][0]] + c['spec'][1]]     # printed with %ld
                g = got.get(c['id'])
                if g != want:
                    res['impl_vs_spec'].append(dict(case=cdesc(c), impl=g, spec=want))
                elif any(k in 'AOI' for k in flat_kinds(c['expr'])):
                    nontriv.add((tuple(c['types']), tuple(c['vals']), to_c(c['expr'])))
            res['distinct_nontrivial'] = len(nontriv)
        for c in cases[:4]:
            res['samples'].append(dict(case=cdesc(c), c11_type=c['ctype'], spec=c['spec'], model_run=c['model'], frame=c['frame'], text_head=c['text'][:8]))
        res['distribution'] = dist
        res['seconds'] = round(time.time() - t_start, 1)
        return res
    finally:
        if not os.environ.get('TIE_KEEP'): shutil.rmtree(wd, ignore_errors=True)
        else: sys.stderr.write('kept ' + wd + '\n')

def flat_kinds(e):
    out = e[0]
    for x in e[1:]:
        if isinstance(x, tuple): out += flat_kinds(x)
    return out

def cdesc(c):
    return '%s  /* %s */' % (to_c(c['expr']), '; '.join('%s v%d = %d' % (CNAME[t], j, v) for j, (t, v) in enumerate(zip(c['types'], c['vals']))))

if __name__ == '__main__':
    src = sys.argv[1]
    seed = int(sys.argv[2]) if len(sys.argv) > 2 else 1
    n = int(sys.argv[3]) if len(sys.argv) > 3 else 250
    r = run(src, seed, n, os.path.dirname(os.path.dirname(os.path.abspath(__file__))))
    print(json.dumps(r, indent=1, default=str))
