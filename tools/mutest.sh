#!/bin/bash
# mutest.sh <patch> <property> [tier]: apply a patch to /repo, run the check, undo. Prints the check's verdict.
patch=$1; pid=$2; tier=${3:-quick}
git -C /repo apply "$patch" || { echo "PATCH DOES NOT APPLY"; exit 9; }
cd /verif; ./check $pid $tier > /tmp/mutest.out 2>&1; rc=$?; tail -6 /tmp/mutest.out
git -C /repo checkout -- .; python3 /verif/tools/gen_all.py /repo >/dev/null
echo "== verdict for $(basename $(dirname $patch))/$(basename $patch): exit=$rc"
