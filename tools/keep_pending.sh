#!/bin/bash
# keep_pending.sh <ID> "<detected_by text>": confirm seeded/_pending/<ID> on /repo HEAD; if confirmed move it to seeded/<ID> and annotate meta.json
id=$1; det=$2
res=$(/verif/tools/confirm_seed.sh /verif/seeded/_pending/$id | tail -1); ok=$?
echo "$res"
[ $ok = 0 ] || exit $ok
rm -rf /verif/seeded/$id; mv /verif/seeded/_pending/$id /verif/seeded/$id
python3 - "$id" "$det" "$res" "$(git -C /repo rev-parse --short HEAD)" <<'PY'
import json,sys
name,det,res,head=sys.argv[1:5]
p='/verif/seeded/%s/meta.json'%name
try: m=json.load(open(p))
except Exception: m={}
m['confirmed_by_me']={'base_commit':head,'ran':'tools/confirm_seed.sh seeded/%s -> %s'%(name,res),'detected_by':det}
json.dump(m,open(p,'w'),indent=1)
PY
git -C /repo worktree remove --force /tmp/mut/$id-wt 2>/dev/null; rm -rf /tmp/mut/$id-out
